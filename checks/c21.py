"""C21 — the compiler never panics on adversarial input.

Guards.tla: RecursionStack / DepthCounter and a guarded recursive walker over a reference graph as an explicit
stack machine; DepthBounded, NoRepeatOnPath (a cycle is reported, never followed), OutcomeCorrect (limit outcome
iff some simple path exceeds the limit; cycle outcome iff a cycle is reachable) and termination are model-checked
over every graph with out-degree <= 2 on 3 (quick) / 4 (thorough) nodes and every root.
spec -> impl: MC_GuardShapes emits (family, length, expectation) descriptors around every internal limit (32, 100, 128,
500): fragment chains (nested, flat), fragment cycles (through inline fragments inside fields; in subscriptions),
directive chains and cycles through arguments / input types / enum values, input-object chains and cycles,
interface chains and cycles, deep selections / values / types / variable defaults.  Each is expanded to text and
pushed through parse, build, validate (mixed, schema, standalone executable), serialize, introspect and
diagnostic rendering (text, Debug/colour path, JSON) in a child process with a 1 MiB stack.
impl -> spec: random combinations of those structures with mutations.  Trace_Adversarial requires: no crash / hang,
diagnostics sorted by (file, offset) with unlocated ones first, and the prescribed limit diagnostics.
"""
import json
import os

import vlib


def run(chk):
    work = chk.work
    r = vlib.tlc("MC_Guards", "MC_Guards_q.cfg" if chk.quick else "MC_Guards_t.cfg", work, workers=10, timeout=3000)
    vlib.tlc_must_pass(r, "MC_Guards")
    chk.add_tlc(r)
    chk.stage("model")
    cases = os.path.join(work, "shapes.ndjson")
    rows_in = []
    def on_json(v):
        if v and v[0] == "SHAPE":
            rows_in.append({"id": "%s-%d" % (v[1], v[2]), "family": v[1], "L": v[2], "expect": v[3]})
    rs = vlib.tlc("MC_GuardShapes", "MC_GuardShapes_q.cfg" if chk.quick else "MC_GuardShapes_t.cfg", work, workers=2, on_json=on_json, timeout=600)
    vlib.tlc_must_pass(rs, "MC_GuardShapes")
    chk.add_tlc(rs)
    rnd = os.path.join(work, "rnd.ndjson")
    vlib.vh(["adv-gen", "--seed", chk.seed, "--count", 150 if chk.quick else 3000], stdout_path=rnd)
    rows_in += list(vlib.read_ndjson(rnd))
    vlib.write_ndjson(cases, rows_in)
    res = os.path.join(work, "res.ndjson")
    vlib.vh(["adv-run", "--stack-kib", 1024, "--batch", 40, "--timeout", 600], stdin_path=cases, stdout_path=res, timeout=7000)
    rows = [r for r in vlib.read_ndjson(res) if r.get("e") in ("Done", "Crash", "Hang")]
    for r in rows:
        for k, dflt in (("crash", True), ("sorted", False), ("rendered", False), ("limitDiag", False), ("expect", "either")):
            if r.get(k) is None:
                r[k] = dflt
    trace = os.path.join(work, "trace.ndjson")
    vlib.write_ndjson(trace, [{k: r[k] for k in ("e", "crash", "sorted", "rendered", "limitDiag", "expect")} for r in rows])
    badl = vlib.trace_validate(chk, "Trace_Adversarial", "Trace_Adversarial.cfg", trace, len(rows), timeout=3000)
    good = next(r for r in rows if r["e"] == "Done" and r["sorted"])
    g = {k: good[k] for k in ("e", "crash", "sorted", "rendered", "limitDiag", "expect")}
    c = dict(g)
    c["sorted"] = False
    vlib.canary_trace(chk, "Trace_Adversarial", "Trace_Adversarial.cfg", g, c, "sorted flag cleared")
    chk.sample({"shape": {k: rows[3].get(k) for k in ("family", "L", "expect", "limitDiag", "diags", "stages")}})
    chk.stage("pipeline")
    seen = set()
    for l, fails in badl:
        row = rows[l - 1]
        for f in sorted(fails):
            key = (f, row.get("family"))
            if key in seen:
                continue
            seen.add(key)
            chk.violation({"class": f, "family": row.get("family"), "what": vlib_norm(row.get("what"))},
                          {"L": row.get("L"), "text": (row.get("text") or "")[:2000], "what": row.get("what"), "first": row.get("first")})
    chk.cov["traces_validated_against_impl"] = len(rows)
    chk.cov["evaluations"] = len(rows)
    chk.cov["distinct_nontrivial"] = sum(1 for r in rows if r.get("diags", 0) > 0)
    chk.cov["rule"] = ("Shape descriptors from TLC (18 families x lengths around the limits 32 / 100 / 500) plus random structure "
                       "combinations; non-trivial = the input produced at least one diagnostic.")
    chk.assumptions += ["stack depth is observed with a 1 MiB thread stack; the model proves the guards bound the recursion depth",
                        "which internal limit applies to which family (32 / 100 / 500) is recorded in MC_GuardShapes.tla; lengths between limit/2 and 4 x limit accept either outcome"]
    return chk.finish()


def vlib_norm(s):
    import re
    return re.sub(r"\d+", "N", (s or "").split("\n")[0])[:120]


def replay(chk, path):
    return run(chk)
