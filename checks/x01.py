"""X01 (beyond the listed properties) — ExecutableDocumentBuilder histories.

DocBuilder.tla: one action per definition added to an ExecutableDocumentBuilder (named / anonymous operation,
fragment), with the builder's flags; model-checked: build errors are recorded exactly when Operation Name Uniqueness,
Lone Anonymous Operation or Fragment Name Uniqueness is broken, the kept definitions are the first occurrences, an
anonymous operation is kept only if it is the first operation.  Every history up to the bound is replayed on the real
builder under EVERY split of the definitions into source files: kept operations / fragments (in order) and the bag of
recorded build errors must equal the model's, whatever the split (compositionality); OperationMap::get must equal
GetOperation of the specification for an unspecified name and for present and absent names.
"""
import json
import os

import vlib


def run(chk):
    cases = os.path.join(chk.work, "cases.ndjson")
    with open(cases, "w") as fo:
        def on_json(v):
            if v and v[0] == "CASE":
                fo.write(json.dumps(v, separators=(",", ":")) + "\n")
        r = vlib.tlc("MC_DocBuilder", "MC_DocBuilder_%s.cfg" % ("q" if chk.quick else "t"), chk.work, workers=8, on_json=on_json, timeout=3000)
    vlib.tlc_must_pass(r, "MC_DocBuilder")
    chk.add_tlc(r)
    summary, bad = vlib.replay_cases(chk, ["docb-replay"], cases)
    vlib.canary_replay(chk, ["docb-replay"], ["CASE", [{"k": "op", "name": "A"}, {"k": "op", "name": "A"}], ["A"], False, [], [], []], "collision error removed from the expectation")
    for row in bad[:8]:
        chk.violation({"class": "builder-history", "items": row["items"], "split_mask": row["split_mask"]}, {"got": row["got"], "want": row["want"]})
    chk.cov["traces_validated_against_impl"] = summary["runs"]
    chk.cov["evaluations"] = summary["runs"]
    chk.cov["distinct_nontrivial"] = summary["cases"]
    chk.cov["exhaustive"] = True
    chk.cov["rule"] = "Every history of up to %d definitions over {query A, query B, anonymous, fragment F, fragment G} x every split into sources." % (4 if chk.quick else 6)
    return chk.finish()


def replay(chk, path):
    return run(chk)
