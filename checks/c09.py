"""C09 — string values and descriptions survive serialization.

spec -> impl: TLC enumerates every string over {a, space, tab, LF, CR, quote, backslash, U+0008, U+001F, é} up to
the bound; the harness puts each into 22 positions of a document AST (descriptions of schema / type / field /
argument / enum value / directive definition / input field; argument, default and directive-argument values at
nesting depths 0-3), serializes with every configuration (no indent, indent prefix in {"", " ", "  ", tab, " tab"},
initial level in {0,1,3}), reparses with the real parser and compares.
impl -> spec: for every value the literals actually printed are recorded; TLC (Trace_Strings) requires each to be a
single valid string token of LexGrammar whose value under Strings.tla (the specification's semantics, not apollo's
parser) equals the original.  Seeded random Unicode values go through the same two checks.
"""
import json
import os

import vlib


def run(chk):
    work = chk.work
    sfx = "_q" if chk.quick else "_t"
    cases = os.path.join(work, "cases.ndjson")
    n, r = vlib.tlc_emit_cases(chk, "MC_Strings", "MC_Strings_plain%s.cfg" % sfx, cases, timeout=6000)
    rnd = os.path.join(work, "rnd.ndjson")
    vlib.vh(["str-gen", "--seed", chk.seed, "--count", 1500 if chk.quick else 30000], stdout_path=rnd)
    with open(cases, "a") as f:
        f.write(open(rnd).read())
    res = os.path.join(work, "res.ndjson")
    vlib.vh(["str-roundtrip", "--record", "--cfgs", 6 if chk.quick else 18], stdin_path=cases, stdout_path=res)
    bad = []
    recs = []
    summary = {}
    for row in vlib.read_ndjson(res):
        if row.get("summary"):
            summary = row
        elif row.get("bad"):
            bad.append(row)
        elif row.get("rec"):
            recs.append({"kind": "encode", "value": row["value"], "literals": row["literals"]})
    chk.stage("roundtrip")
    trace = os.path.join(work, "trace.ndjson")
    vlib.write_ndjson(trace, recs)
    badl = vlib.trace_validate(chk, "Trace_Strings", "Trace_Strings.cfg", trace, len(recs), timeout=6000)
    for l in badl:
        row = recs[l - 1]
        bad.append({"value": "".join(map(chr, row["value"])), "cps": row["value"],
                    "why": ["a printed literal is not a valid string token or does not decode (Strings.tla) to the original"],
                    "literals": row["literals"]})
    good = [r for r in recs if r["literals"]]
    c = json.loads(json.dumps(good[len(good) // 2]))
    c["value"] = c["value"] + [97]
    vlib.canary_trace(chk, "Trace_Strings", "Trace_Strings.cfg", good[0], c, "original value + 'a'")
    chk.sample({"recorded": good[len(good) // 2]})
    chk.stage("trace")
    bad.sort(key=lambda r: (len(r["cps"]), r["cps"]))
    for row in bad[:8]:
        chk.violation({"class": "string-does-not-survive-serialization", "value": row["value"]},
                      {"why": row["why"], "cps": row["cps"], "literals": row.get("literals")})
    chk.cov["traces_validated_against_impl"] = summary.get("runs", 0) + len(recs)
    chk.cov["evaluations"] = summary.get("runs", 0)
    chk.cov["distinct_nontrivial"] = sum(1 for r in recs if any(c in (10, 13, 34, 92, 8, 31, 9) for c in r["value"]))
    chk.cov["exhaustive"] = True
    chk.cov["rule"] = ("Every string up to the bound over 10 character classes plus seeded random Unicode strings; each in 22 AST "
                       "positions x serialization configurations. Non-trivial = contains a quote, backslash, control character, "
                       "tab or line terminator.")
    chk.assumptions += ["Strings.tla / LexGrammar.tla are the decoder (independent of apollo's parser)"]
    return chk.finish()


def replay(chk, path):
    d = json.load(open(path))
    val = d["core"]["value"]
    cases = os.path.join(chk.work, "c.ndjson")
    vlib.write_ndjson(cases, [["CASE", [ord(c) for c in val]]])
    res = os.path.join(chk.work, "res.ndjson")
    vlib.vh(["str-roundtrip", "--record"], stdin_path=cases, stdout_path=res)
    rows = list(vlib.read_ndjson(res))
    recs = [{"kind": "encode", "value": r["value"], "literals": r["literals"]} for r in rows if r.get("rec")]
    trace = os.path.join(chk.work, "t.ndjson")
    vlib.write_ndjson(trace, recs)
    badl = vlib.trace_validate(chk, "Trace_Strings", "Trace_Strings.cfg", trace, len(recs))
    chk.sample({"value": val, "recorded": recs})
    chk.cov["traces_validated_against_impl"] = len(recs)
    if badl or any(r.get("bad") for r in rows):
        chk.violation(d["core"], {"rows": [r for r in rows if r.get("bad")]})
    return chk.finish()
