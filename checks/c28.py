"""C28 — variable coercion follows the specification.

Coercion.tla: CoerceVariableValues with apollo-compiler's documented scalar rules (Int within 32 bits, Float from
any finite number, ID from string or integer, no string -> number, enums by name, list wrapping of single values
at every level, input objects: unknown fields rejected, defaults filled in, required fields, explicit null vs
absent).  spec -> impl: every (variable type up to the wrapper depth over {Int, Float, String, Boolean, ID, E, In})
x (default or not) x (provided JSON value from a pool of scalars, objects, lists, nested lists, or absent) is
emitted with the reference result (model level: coercion is idempotent; a provided value makes the default
irrelevant) and replayed through request::coerce_variable_values.
impl -> spec: random types (three wrappers) and random nested JSON; results validated by TLC (Trace_Coercion).
"""
import json
import os

import vlib


def run(chk):
    work = chk.work
    cases = os.path.join(work, "cases.ndjson")
    n, r = vlib.tlc_emit_cases(chk, "MC_Coercion", "MC_Coercion_q.cfg" if chk.quick else "MC_Coercion_t.cfg", cases, timeout=6000, sample_every=701)
    summary, bad = vlib.replay_cases(chk, ["coerce-replay"], cases)
    vlib.canary_replay(chk, ["coerce-replay"], ["CASE", ["list", ["named", "Int"]], False, ["num", "5"], ["num", "1"], ["ok", ["present", ["num", "1"]]]], "single value not wrapped")
    chk.stage("enumeration")
    trace = os.path.join(work, "trace.ndjson")
    vlib.vh(["coerce-record", "--seed", chk.seed, "--count", 3000 if chk.quick else 100000], stdout_path=trace)
    rows = list(vlib.read_ndjson(trace))
    badl = vlib.trace_validate(chk, "Trace_Coercion", "Trace_Coercion.cfg", trace, len(rows), timeout=6000)
    good = [r for r in rows if r["got"][0] == "ok"]
    c = json.loads(json.dumps(good[0]))
    c["got"] = ["err"]
    vlib.canary_trace(chk, "Trace_Coercion", "Trace_Coercion.cfg", good[0], c, "recorded success turned into an error")
    chk.sample({"recorded": good[len(good) // 2]})
    chk.stage("trace")
    for row in sorted(bad, key=lambda r: len(json.dumps(r["case"])))[:8]:
        if row["why"][0].startswith("tool:"):
            raise vlib.ToolError(row["why"][0])
        chk.violation({"class": "coercion", "doc": row["doc"], "variables": row["variables"]}, {"why": row["why"], "case": row["case"]})
    for l in badl[:8]:
        chk.violation({"class": "coercion-recorded", "type": rows[l - 1]["type"], "provided": rows[l - 1]["provided"]}, {"got": rows[l - 1]["got"]})
    chk.cov["traces_validated_against_impl"] = summary["cases"] + len(rows)
    chk.cov["evaluations"] = summary["cases"] + len(rows)
    chk.cov["distinct_nontrivial"] = summary["nontrivial"] + len(good)
    chk.cov["exhaustive"] = True
    chk.cov["rule"] = ("All (type, default?, provided value) triples of the bounded universe plus random recorded ones; non-trivial = "
                       "coercion succeeds (the rest lie on the rejecting side of some rule).")
    chk.assumptions += ["numbers are symbolic tags (0, 1, -1, 5, 7, i32 bounds +-1, 1.5); Float precision bound (2^53) is not exercised"]
    return chk.finish()


def replay(chk, path):
    d = json.load(open(path))
    case = (d.get("detail") or {}).get("case")
    if not case:
        raise vlib.ToolError("no case in replay file")
    cases = os.path.join(chk.work, "c.ndjson")
    vlib.write_ndjson(cases, [case])
    summary, bad = vlib.replay_cases(chk, ["coerce-replay"], cases)
    chk.cov["states"] = 1
    chk.cov["transitions"] = 1
    chk.sample({"case": case})
    for row in bad:
        chk.violation(d["core"], {"why": row["why"]})
    return chk.finish()
