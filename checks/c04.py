"""C04 — token and recursion limits are enforced exactly.

Limits.tla: LimitTracker as a state machine (invariants model-checked by MC_Limits over all balanced call
sequences) and the reference nesting depth / item count of documents built from nested constructs.
spec -> impl: every nest up to the bound (selection sets, inline fragments, list and object values in arguments,
list types) is rendered and parsed with recursion limits {0, depth-2 .. depth+1, 500} and token limits
{0, 1, items/2, items-1, items, items+1}; expected: limit error iff exceeded, exact high-water marks, prefix,
no error after the limit error, compiler-reported figures equal to the parser's.
impl -> spec: seeded fuzz with random limits; primitive-operation traces validated against ParserCore (tracker
events, accept-errors latch, at most n items, balance at every top-level iteration) and all observations against
Trace_ParseObs.
"""
import json
import os

import vlib
import parsergroup as pg

PREFIX = "C04"


def run(chk):
    work = chk.work
    cases = os.path.join(work, "lcases.ndjson")
    n, r = pg.tlc_cases(chk, "MC_Limits", "MC_Limits_q.cfg" if chk.quick else "MC_Limits_t.cfg", cases, workers=4, sample_at=(7, 100))
    res = os.path.join(work, "lres.ndjson")
    vlib.vh(["limits-replay"], stdin_path=cases, stdout_path=res)
    runs = 0
    bad_rows = []
    for row in vlib.read_ndjson(res):
        if row.get("summary"):
            runs = row["runs"]
        elif row.get("bad"):
            bad_rows.append(row)
    # canary: claim a smaller depth for one case; the comparator must notice
    with open(cases) as f:
        lines = f.readlines()
    v = json.loads(lines[len(lines) // 2])
    v[2] = v[2] + 1
    can = os.path.join(work, "canary.ndjson")
    open(can, "w").write(json.dumps(v) + "\n")
    p = vlib.vh(["limits-replay"], stdin_path=can)
    if b'"bad":true' not in p.stdout:
        chk.canary_failed.append("canary (depth + 1) not rejected by the comparator")
    chk.stage("nests")
    # token strings x limit grid, observations
    tcases = os.path.join(work, "cases.ndjson")
    n_strings, n_cases = pg.token_string_cases(chk, ["items", "sel"], tcases, ["Document", "FieldSet", "Type"],
                                               [(0, -1), (1, -1), (2, 0), (3, 1), (5, 2), (-1, 0), (-1, 1), (-1, 2)])
    ores = os.path.join(work, "res.ndjson")
    pg.run_bulk(chk, tcases, ores)
    n_obs, uniq = pg.aggregate_obs(ores)
    os.remove(ores)
    fz = os.path.join(work, "fuzz.ndjson")
    count = 20000 if chk.quick else 400000
    vlib.vh(["parse-gen", "--seed", chk.seed, "--count", count, "--mode", "all"], stdout_path=fz)
    pg.run_bulk(chk, fz, ores, batch=2000)
    n_obs2, uniq2 = pg.aggregate_obs(ores)
    os.remove(ores)
    allu = uniq + uniq2
    bad = pg.validate_obs(chk, allu)
    pg.obs_canary(chk, allu)
    rejected = pg.classify_bad_obs(chk, bad, PREFIX)
    chk.stage("observations")
    tz = os.path.join(work, "tfuzz.ndjson")
    tcount = 500 if chk.quick else 8000
    vlib.vh(["parse-gen", "--seed", chk.seed + 13, "--count", tcount, "--mode", "all", "--trace", "--maxlen", 1500], stdout_path=tz)
    tr = os.path.join(work, "trace.ndjson")
    pg.run_bulk(chk, tz, tr)
    segs, events, rejected2 = pg.validate_traces(chk, tr)
    chk.stage("trace-validation")
    pg.report_rejections(chk, rejected + rejected2, PREFIX)
    pg.report_bad_obs(chk, bad, PREFIX)
    traced_texts = set(r["text"] for r in rejected)
    for u, f in bad:
        mine = [x for x in f if x.startswith(PREFIX)]
        if mine and u.get("e") == "Done" and u.get("text") not in traced_texts and u.get("text") in pg.EXAMINED:
            chk.violation({"class": "obs", "entry": u.get("entry"), "why": mine},
                          {"text": u.get("text"), "tokLimit": u.get("tokLimit"), "recLimit": u.get("recLimit")})
    for row in sorted(bad_rows, key=lambda r: len(r["toks"]))[:10]:
        chk.violation({"class": "limits-replay", "toks": row["toks"], "why": row["why"][:3]}, {"text": row["text"], "depth": row["depth"], "items": row["items"]})
    total = runs + n_obs + n_obs2
    chk.cov["traces_validated_against_impl"] = total + segs
    chk.cov["trace_events_validated"] = events
    chk.cov["evaluations"] = total + segs
    chk.cov["distinct_nontrivial"] = n + len(allu)
    chk.cov["nests_enumerated"] = n
    chk.sample({"unique_observation": allu[len(allu) // 3]})
    chk.cov["rule"] = ("All nests up to MaxNest (MC_Limits) x limit boundaries, all token strings of two alphabets x a limit grid, "
                       "seeded fuzz with random limits. distinct_nontrivial = nests + distinct observation records.")
    chk.assumptions += ["documents are rendered with one space between tokens (item count = 2 x tokens, cross-checked against the real lexer on every case)"]
    return chk.finish()


def replay(chk, path):
    d = json.load(open(path))
    det = d.get("detail") or {}
    core = d["core"]
    if core.get("class") == "limits-replay":
        raise vlib.ToolError("replay of nest cases: rerun bin/check C04 (cases are regenerated by TLC)")
    cases = os.path.join(chk.work, "c.ndjson")
    vlib.write_ndjson(cases, [{"id": 1, "entry": core.get("entry", "Document"), "text": det.get("text", ""),
                               "tok": det.get("tokLimit", -1) if det.get("tokLimit") is not None else -1,
                               "rec": det.get("recLimit", -1) if det.get("recLimit") is not None else -1, "trace": True}])
    tr = os.path.join(chk.work, "t.ndjson")
    pg.run_bulk(chk, cases, tr)
    segs, events, rejected = pg.validate_traces(chk, tr)
    pg.report_rejections(chk, rejected, PREFIX)
    chk.cov["traces_validated_against_impl"] = segs
    chk.sample({"replayed": det.get("text", "")[:200]})
    return chk.finish()
