"""C05 — syntax acceptance matches the GraphQL grammar.

spec -> impl: TLC (MC_Grammar over Grammar.tla) enumerates every token string up to a bound over the full token
alphabet and over focused alphabets embedded in a grammar context (arguments, field definitions, variable
definitions, ...), decides membership in the October 2021 document grammar and computes the top-level definitions;
the harness parses each with apollo_parser and compares verdict and top-level structure.
impl -> spec: corpus documents and seeded token-level mutants are lexed by the real lexer, the token kinds are
recorded with the parser's verdict, and TLC (Trace_Grammar) decides each.
"""
import json
import os
import re
import sys

import vlib
import parsergroup as pg

sys.path.insert(0, vlib.SPEC)
from gen_cfgs import TABLE  # noqa: E402


def run(chk, which="doc", pid_class="C05"):
    work = chk.work
    suffix = "_q" if chk.quick else "_t"
    total = 0
    members = 0
    bad_rows = []
    for name in TABLE:
        if name == "items":
            continue    # alphabet with lexer-error / ignored items: meaningless for grammar membership (used by C01/C02/C04)
        cfg = "MC_Grammar_%s%s.cfg" % (name, suffix)
        cases = os.path.join(work, "cases.ndjson")
        n, r = pg.tlc_cases(chk, "MC_Grammar", cfg, cases, timeout=6000)
        res = os.path.join(work, "res.ndjson")
        vlib.vh(["gram-replay", "--which", which], stdin_path=cases, stdout_path=res)
        for row in vlib.read_ndjson(res):
            if row.get("summary"):
                total += row["cases"]
                members += row["members"]
            elif row.get("bad"):
                row["cfg"] = name
                bad_rows.append(row)
        if name == "full":
            # canary: flip one membership verdict; the comparator must notice
            with open(cases) as f:
                lines = [l for k, l in enumerate(f) if k < 2000]
            v = json.loads(lines[len(lines) // 2])
            v[2] = not v[2]
            v[4] = not v[4]
            v[5] = not v[5]
            can = os.path.join(work, "canary.ndjson")
            open(can, "w").write(json.dumps(v) + "\n")
            p = vlib.vh(["gram-replay", "--which", which], stdin_path=can)
            if b'"bad":true' not in p.stdout:
                chk.canary_failed.append("canary (flipped membership) not rejected by the comparator")
        os.remove(cases)
    chk.cov["traces_validated_against_impl"] += total

    # impl -> spec: recorded (token kinds, verdict) of corpus documents and mutants, decided by TLC
    if which == "doc":
        count = 1500 if chk.quick else 20000
        trace = os.path.join(work, "gtrace.ndjson")
        vlib.vh(["gram-record", "--seed", chk.seed, "--count", count], stdout_path=trace)
        rows = list(vlib.read_ndjson(trace))
        result = []
        r = vlib.tlc("Trace_Grammar", "Trace_Grammar.cfg", work, consts_env={"TRACE": trace}, workers=1,
                     on_json=lambda v: result.append(v), timeout=6000, xmx="8g")
        vlib.tlc_must_pass(r, "Trace_Grammar")
        chk.add_tlc(r)
        res = [v for v in result if v and v[0] == "RESULT"]
        if not res or res[0][1] != len(rows):
            raise vlib.ToolError("Trace_Grammar consumed %s of %d lines" % (res[0][1] if res else None, len(rows)))
        chk.cov["traces_validated_against_impl"] += len(rows)
        total += len(rows)
        members += sum(1 for row in rows if row["ok"])
        for l in res[0][2]:
            row = rows[l - 1]
            bad_rows.append({"entry": "doc", "toks": row["toks"], "text": row["text"],
                             "why": "recorded-verdict-differs" + ("(accepts-nonmember)" if row["ok"] else "(rejects-member)")})
        chk.sample({"recorded": {k: rows[len(rows) // 2][k] for k in ("toks", "ok", "top")}})
        # canary
        good = [row for row in rows if row["ok"] and len(row["toks"]) < 40]
        if good:
            c = dict(good[0])
            c["ok"] = False
            can = os.path.join(work, "canary_trace.ndjson")
            vlib.write_ndjson(can, [good[0], c])
            result2 = []
            vlib.tlc("Trace_Grammar", "Trace_Grammar.cfg", work, consts_env={"TRACE": can}, workers=1,
                     on_json=lambda v: result2.append(v), timeout=600, xmx="2g")
            res2 = [v for v in result2 if v and v[0] == "RESULT"]
            if not res2 or res2[0][2] != [2]:
                chk.canary_failed.append("canary (flipped recorded verdict) accepted by Trace_Grammar")

    bad_rows.sort(key=lambda r: (len(r["toks"]), r["toks"]))
    attribute_candidates(chk, bad_rows)
    seen = 0
    for row in bad_rows:
        core = {"class": row["why"], "entry": row["entry"], "toks": row["toks"]}
        if row.get("candidate"):
            # the token string differs from a member of the language only by the listed defect
            core = {"class": row["why"], "entry": row["entry"], "candidate": row["candidate"], "repaired_member": True}
        if chk.violation(core, {"text": row["text"], "got": row.get("got"), "expected": row.get("expected")}):
            seen += 1
            if seen >= 12:
                break
    chk.cov["evaluations"] = total
    chk.cov["distinct_nontrivial"] = members
    chk.cov["exhaustive"] = True
    chk.cov["rule"] = ("Every token string up to the configured length over the 41-symbol token alphabet and over 13 focused "
                       "alphabets inside grammar contexts (prefix/suffix), decided by the EBNF interpreter of Grammar.tla and "
                       "replayed on apollo_parser. Non-trivial = member of the language (the rest lie just outside it).")
    chk.assumptions += ["Grammar.tla transcribes Appendix B of the October 2021 specification",
                        "token kinds of recorded documents come from the real lexer (decided by C03)"]
    return chk.finish()


# Known-defect candidates: (name, regex over the space-joined token string, replacement). A disagreement is
# attributed to the candidate only if TLC confirms that the *repaired* token string is a member of the grammar,
# i.e. the listed defect is the only reason the string is outside the language.
CANDIDATES = [
    ("missing-root-operation-named-type", re.compile(r"\b(query|mutation|subscription) : \}"), r"\1 : n1 }"),
]


def attribute_candidates(chk, bad_rows):
    cand = []
    for row in bad_rows:
        if row["why"] != "accepts-nonmember" and not row["why"].startswith("recorded-verdict-differs(accepts"):
            continue
        text = " ".join(row["toks"])
        for name, rx, rep in CANDIDATES:
            if rx.search(text):
                fixed = rx.sub(rep, text).split(" ")
                cand.append((row, name, fixed))
                break
    if not cand:
        return
    tr = os.path.join(chk.work, "cand.ndjson")
    vlib.write_ndjson(tr, [{"mode": "doc", "toks": fixed, "ok": True, "top": []} for _, _, fixed in cand])
    result = []
    r = vlib.tlc("Trace_Grammar", "Trace_Grammar_member.cfg", chk.work, consts_env={"TRACE": tr}, workers=1,
                 on_json=lambda v: result.append(v), timeout=3000, xmx="4g")
    vlib.tlc_must_pass(r, "Trace_Grammar(member)")
    chk.add_tlc(r)
    nonmembers = set([v for v in result if v and v[0] == "RESULT"][0][2])
    for k, (row, name, fixed) in enumerate(cand):
        if (k + 1) not in nonmembers:
            row["candidate"] = name
            row["why"] = "accepts-nonmember"


def replay(chk, path):
    d = json.load(open(path))
    toks = d["core"]["toks"]
    text = pg.render(toks)
    rec = os.path.join(chk.work, "t.ndjson")
    vlib.vh(["gram-record-text", text], stdout_path=rec)
    rows = list(vlib.read_ndjson(rec))
    result = []
    r = vlib.tlc("Trace_Grammar", "Trace_Grammar.cfg", chk.work, consts_env={"TRACE": rec}, workers=1,
                 on_json=lambda v: result.append(v), xmx="2g")
    vlib.tlc_must_pass(r, "Trace_Grammar")
    chk.add_tlc(r)
    bad = [v for v in result if v and v[0] == "RESULT"][0][2]
    chk.cov["traces_validated_against_impl"] = len(rows)
    chk.sample({"toks": toks, "recorded": rows[0] if rows else None})
    if bad:
        chk.violation(d["core"], {"text": text})
    return chk.finish()
