"""C29 — type compatibility checks match the specification.

TypeCompat.tla transcribes AreTypesCompatible, IsVariableUsageAllowed and IsValidImplementationFieldType.
spec -> impl (exhaustive): MC_TypeCompat emits one case per (pair of type references up to the depth bound over
{A, B}) x variable default {none, null, value} x location default x subtype relation {none, A implements B,
A member of union B}; Type::is_assignable_to is called directly, the other two predicates are isolated in
minimal documents / schemas and compared by validation verdict.
impl -> spec: is_assignable_to on deep random type pairs is recorded and decided by TLC (Trace_TypeCompat).
"""
import json
import os

import vlib


def run(chk):
    work = chk.work
    cases = os.path.join(work, "cases.ndjson")
    n = [0]
    with open(cases, "w") as fo:
        def on_json(v):
            if v and v[0] in ("COMPAT", "USAGE", "IMPL"):
                fo.write(json.dumps(v, separators=(",", ":")) + "\n")
                n[0] += 1
                if n[0] % 4001 == 1:
                    chk.sample({"tlc_case": v})
        r = vlib.tlc("MC_TypeCompat", "MC_TypeCompat_q.cfg" if chk.quick else "MC_TypeCompat_t.cfg", work, workers=8,
                     on_json=on_json, timeout=6000)
    vlib.tlc_must_pass(r, "MC_TypeCompat")
    chk.add_tlc(r)
    if n[0] != r.distinct:
        raise vlib.ToolError("%d cases for %d states" % (n[0], r.distinct))
    summary, bad = vlib.replay_cases(chk, ["compat-replay"], cases)
    vlib.canary_replay(chk, ["compat-replay"], ["COMPAT", ["named", "A"], ["named", "A"], False], "reflexive compat flipped")
    chk.stage("exhaustive")
    trace = os.path.join(work, "trace.ndjson")
    vlib.vh(["compat-record", "--seed", chk.seed, "--count", 3000 if chk.quick else 100000], stdout_path=trace)
    rows = list(vlib.read_ndjson(trace))
    badl = vlib.trace_validate(chk, "Trace_TypeCompat", "Trace_TypeCompat.cfg", trace, len(rows), timeout=6000)
    for l in badl:
        bad.append({"kind": "COMPAT-recorded", "case": rows[l - 1], "text": json.dumps(rows[l - 1]), "why": ["recorded is_assignable_to result differs"]})
    c = dict(rows[0])
    c["got"] = not c["got"]
    vlib.canary_trace(chk, "Trace_TypeCompat", "Trace_TypeCompat.cfg", rows[0], c, "recorded result flipped")
    chk.sample({"recorded": rows[1]})
    chk.stage("trace")
    bad.sort(key=lambda r: len(r["text"]))
    for row in bad[:10]:
        if any(w.startswith("tool:") for w in row["why"]):
            raise vlib.ToolError("isolating schema invalid: %s" % row)
        chk.violation({"class": row["kind"], "case": row["case"]}, {"text": row["text"], "why": row["why"]})
    chk.cov["traces_validated_against_impl"] = summary["cases"] - summary["skipped"] + len(rows)
    chk.cov["evaluations"] = summary["cases"] - summary["skipped"] + len(rows)
    chk.cov["distinct_nontrivial"] = summary["nontrivial"] + sum(1 for r in rows if r["got"])
    chk.cov["exhaustive"] = True
    chk.cov["skipped_not_isolating"] = summary["skipped"]
    chk.cov["rule"] = ("All pairs of type references up to the depth bound over {A,B} x defaults x subtype relations (exhaustive); "
                       "non-trivial = the predicate holds (the rest are one mutation away). Cases with a null default for a non-null "
                       "variable are skipped (invalid by another rule).")
    chk.assumptions += ["IsVariableUsageAllowed / IsValidImplementationFieldType are observed through validation verdicts of minimal isolating inputs"]
    return chk.finish()


def replay(chk, path):
    d = json.load(open(path))
    case = d["core"]["case"]
    summary, bad = {}, []
    cases = os.path.join(chk.work, "c.ndjson")
    vlib.write_ndjson(cases, [case])
    summary, bad = vlib.replay_cases(chk, ["compat-replay"], cases)
    chk.cov["states"] = 1
    chk.cov["transitions"] = 1
    chk.cov["traces_validated_against_impl"] = 1
    chk.sample({"case": case})
    for row in bad:
        chk.violation({"class": row["kind"], "case": row["case"]}, {"text": row["text"], "why": row["why"]})
    return chk.finish()
