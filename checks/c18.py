"""C18 — executable documents are typed consistently with the schema.

From the same documents as C17 (valid or not), the harness records from the document BUILT against the schema:
for every field its parent selection set's type, its name, the type of the definition it carries and the type of its
sub-selection set; for every inline fragment its parent type, condition and inner type; for every fragment and
operation the type of its selection set; and, for valid documents, what root_fields() / all_fields() visit.
TLC (Trace_ExecRules) requires: definition = the schema's field definition on the parent (meta-fields included),
sub-selection type = the field's inner named type, inline = condition or parent, fragment = its condition,
operation = the root type; a valid document satisfies ValidGuarantees (spreads defined, acyclic, variables defined,
leaf / composite rule); the iterators' bags equal Walk(doc, sels, deep) (each named fragment once).
"""
from checks import c17

PREFIX = "C18"


def run(chk):
    import execgroup
    rows, bad, crashes = execgroup.run_doc_cases(chk)
    c17.report(chk, rows, bad, crashes, PREFIX)
    chk.cov["typing_facts"] = sum(len(r["typing"]) for r in rows)
    chk.cov["iterator_facts"] = sum(len(r.get("iter", [])) for r in rows)
    return chk.finish()


def replay(chk, path):
    return run(chk)
