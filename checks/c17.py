"""C17 — executable validation agrees with the specification.

ExecRules.tla: the operation-validation rules as predicates over an abstract executable document and the abstract
schema of SchemaRules (operation / fragment name uniqueness, lone anonymous operation, subscription single root
field, field existence on the parent type, leaf / composite sub-selections, argument names / uniqueness / required
arguments, value literals of the right type incl. input objects (unknown, duplicate and required fields) and lists,
variable definitions (unique, input types, defaults), variable uses defined / all used / allowed at their position
(top level and nested), fragment type conditions, spreads defined / acyclic / possible, all fragments used,
directives defined / in valid locations / unique unless repeatable / arguments, field selection merging: same
response shape and same name and arguments on overlapping parents), with apollo-compiler's named differences
(undefined root type rejected; no @skip / @include on subscription root selections).
Cases: every sequence of up to three selections from a pool of fourteen (aliases, arguments, inline fragments on
disjoint objects, nested sub-selections) chosen so that their combinations exercise both halves of field merging
(exhaustive; every 4th triple in the quick tier); five seed documents that together use every construct against a fixed schema with every kind of type; EVERY
single structure-aware mutation of each at every position, and sampled double mutations.  The harness renders each
abstract document, parses it, checks that it projects back to the same abstract document, and records the real
verdict; TLC (Trace_ExecRules) evaluates Valid(doc) and requires equality.
"""
import vlib
import execgroup

PREFIX = "C17"


def run(chk):
    rows, bad, crashes = execgroup.run_doc_cases(chk)
    report(chk, rows, bad, crashes, PREFIX)
    return chk.finish()


def mutation_kind(origin):
    parts = origin.split(":", 1)
    if origin.startswith("merge-"):
        return "merge-universe"
    if len(parts) == 1:
        return "seed"
    muts = parts[1].split("+")
    out = []
    for m in muts:
        path, _, what = m.partition(":")
        last = [p for p in path.split("/") if not p.isdigit()]
        out.append("%s:%s" % (last[-1] if last else "", what.split("=")[0].split("[")[0]))
    return "+".join(out)


def report(chk, rows, bad, crashes, prefix):
    seen = {}
    for r in crashes:
        chk.violation({"class": "%s-crash" % prefix}, {"origin": r["origin"], "text": r["text"], "panic": r["crash"]})
    for l, fails in bad:
        row = rows[l - 1]
        for f in sorted(fails):
            if not f.startswith(prefix):
                continue
            what = mutation_kind(row["origin"])
            key = (f, what)
            if key in seen:
                continue
            seen[key] = True
            chk.violation({"class": f, "mutation": what},
                          {"origin": row["origin"], "text": row["text"], "ok": row["ok"], "standalone": row["standalone"]})
    n_valid = sum(1 for r in rows if r["ok"])
    chk.cov["traces_validated_against_impl"] = len(rows)
    chk.cov["evaluations"] = len(rows)
    chk.cov["distinct_nontrivial"] = n_valid if prefix != "C17" else len(rows) - n_valid
    chk.cov["accepted"] = n_valid
    chk.cov["rejected"] = len(rows) - n_valid
    chk.cov["standalone_accepted"] = sum(1 for r in rows if r["standalone"])
    chk.sample({"origin": rows[7]["origin"], "text": rows[7]["text"], "ok": rows[7]["ok"], "standalone": rows[7]["standalone"]})
    chk.cov["rule"] = ("Seed documents, single mutations at all positions (every 2nd in the quick tier), sampled double mutations; "
                       "non-trivial = %s." % ("rejected by the real validator" if prefix == "C17" else "accepted by the real validator (the property's antecedent)"))
    chk.assumptions += ["ExecRules.tla is my transcription of the operation-validation rules with graphql-js semantics where the text is silent",
                        "one fixed schema (every kind of type, repeatable and non-repeatable directives, required / defaulted arguments, recursive input object)",
                        "scalar literals are abstracted to their kind except Int values; no @defer; no custom scalars"]


def replay(chk, path):
    return run(chk)
