"""C24 — introspection agrees with the reference implementation.

Introspection.tla: the result of the standard full introspection query (descriptions, deprecation with reasons,
specifiedByURL, isRepeatable, input-value deprecation, includeDeprecated: true everywhere) as a FUNCTION of an abstract
schema: type references, fields / args / input fields / enum values in definition order, [] vs null per kind,
interfaces, possibleTypes of interfaces (implementing objects) and unions, which built-in scalars are listed, built-in
directives, roots and schema description, and default values printed from the value COERCED to the type in canonical
form (single item -> list, input-object fields in type order with nested defaults filled in, integer-like ID as an
integer, floats in shortest form) — the reference implementation's choice.
Random valid schemas (descriptions at every position, deprecations with and without reasons on fields, arguments,
input fields and enum values, default values of every kind written in non-canonical forms, interfaces implementing
interfaces, unions, custom scalars with @specifiedBy, repeatable directives, shuffled definition order) are rendered,
built by the real code and introspected with introspection::partial_execute; a third of the queries also select a
concrete root field, which must be skipped without error.  TLC (Trace_Introspection) computes the reference from the
abstract schema and names every disagreement — once for the query with `includeDeprecated: true` everywhere and once
for the same query without it (deprecated fields, arguments, input fields and enum values filtered out) —, comparing `types`, `directives` and `possibleTypes` as sets (their
order may differ) and everything else in order.
"""
import json
import os

import vlib

FIELDS = ("schema", "resp", "respNoDep", "hasData", "errors", "dataKeys", "concrete", "crash")


def run(chk):
    raw = os.path.join(chk.work, "intro.ndjson")
    vlib.vh(["intro-record", "--seed", chk.seed, "--count", 400 if chk.quick else 20000], stdout_path=raw, timeout=7000)
    allrows = list(vlib.read_ndjson(raw))
    rows = [r for r in allrows if "schema" in r]
    skipped = len(allrows) - len(rows)
    bad = vlib.trace_validate_parallel(chk, "Trace_Introspection", "Trace_Introspection.cfg", [{k: r[k] for k in FIELDS} for r in rows], parts=10, timeout=7000)
    # canary: flip isDeprecated of one field, drop one possible type
    g = next((r for r in rows if r["hasData"] and any(t["fields"]["null"] is False and t["fields"]["v"] and not t["name"].startswith("__") for t in r["resp"]["types"])), None)
    if g is None:
        chk.canary_failed.append("no response to build the canary from")
    else:
        import copy
        g = {k: g[k] for k in FIELDS}
        c = copy.deepcopy(g)
        t = next(t for t in c["resp"]["types"] if t["fields"]["null"] is False and t["fields"]["v"] and not t["name"].startswith("__"))
        t["fields"]["v"][0]["isDeprecated"] = not t["fields"]["v"][0]["isDeprecated"]
        can = os.path.join(chk.work, "canary_trace.ndjson")
        vlib.write_ndjson(can, [g, c])
        cb = vlib.trace_validate(chk, "Trace_Introspection", "Trace_Introspection.cfg", can, 2, timeout=600, xmx="2g")
        flat = {b[0]: b[1] for b in cb}
        extra = [f for f in flat.get(2, []) if f not in flat.get(1, [])]
        if not any(f[1][0] == "type-entry" and f[1][1] == t["name"] for f in extra):
            chk.canary_failed.append("canary (isDeprecated of one field flipped): got %s" % extra)
    seen = set()
    n_known = 0
    for l, fails in bad:
        row = rows[l - 1]
        for f in fails:
            p = f[1]
            cls = ("nodep-" if f[0] == "C24-nodep" else "") + p[0]
            if cls == "nodep-default-value-printed-as-written":
                cls = "default-value-printed-as-written"
            detail = {"problem": p}
            key = cls if cls == "default-value-printed-as-written" else (cls, json.dumps(detail)[:80])
            if key in seen:
                continue
            seen.add(key)
            detail.update({"sdl": row["sdl"], "errors": row.get("errorsText"), "panic": row.get("panic")})
            chk.violation({"class": "C24-" + cls if not cls.startswith("C24") else cls}, detail)
    chk.cov["traces_validated_against_impl"] = len(rows)
    chk.cov["evaluations"] = len(rows)
    chk.cov["distinct_nontrivial"] = len(rows)
    chk.cov["with_concrete_root_field"] = sum(1 for r in rows if r["concrete"])
    chk.cov["types_compared"] = sum(len(r["schema"]["types"]) for r in rows)
    chk.cov["default_values_compared"] = sum(1 for r in rows for t in r["schema"]["types"] for i in (t["inputFields"] + [a for f in t["fields"] for a in f["args"]]) if i["default"][0] != "none")
    chk.cov["invalid_generated_schemas_skipped"] = skipped
    chk.sample({"sdl": rows[3]["sdl"][:600]})
    chk.cov["rule"] = "Random valid schemas using every construct the property lists; non-trivial = all (each has descriptions, deprecations and defaults)."
    chk.assumptions += ["Introspection.tla is my transcription of section 4 with the reference implementation's choices (astFromValue / print for default values)",
                        "descriptions of built-in types, scalars and directives are not compared; the eight introspection types are compared by name and kind only",
                        "float and string literals carry their reference-printed form from a fixed pool (TLC cannot format them)"]
    return chk.finish()


def replay(chk, path):
    return run(chk)
