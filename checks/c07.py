"""C07 — standalone type and field-set parsing consume the whole input.

Same machinery as C05 (Grammar.tla decides IsTypeRef / IsFieldSet for every enumerated token string, i.e. every
prefix . core . suffix within the bound); the harness runs Parser::parse_type, ast::Type::parse,
Parser::parse_selection_set and FieldSet::parse on each and compares "no error" with membership.
"""
import json
import os

import vlib
import parsergroup as pg

CFGS = ["full", "c07type", "c07fs", "sel", "args"]


def run(chk):
    work = chk.work
    suffix = "_q" if chk.quick else "_t"
    total = 0
    members = 0
    bad_rows = []
    for name in CFGS:
        cfg = "MC_Grammar_%s%s.cfg" % (name, suffix)
        cases = os.path.join(work, "cases.ndjson")
        n, r = pg.tlc_cases(chk, "MC_Grammar", cfg, cases, timeout=6000)
        with open(cases) as f:
            for line in f:
                v = json.loads(line)
                if v[4] or v[5]:
                    members += 1
        for which in ("type", "fieldset"):
            res = os.path.join(work, "res.ndjson")
            vlib.vh(["gram-replay", "--which", which], stdin_path=cases, stdout_path=res)
            for row in vlib.read_ndjson(res):
                if row.get("summary"):
                    total += row["cases"]
                elif row.get("bad"):
                    bad_rows.append(row)
        if name == "c07type":
            with open(cases) as f:
                lines = [l for k, l in enumerate(f) if k < 3000]
            v = [json.loads(l) for l in lines if json.loads(l)[4]][0]
            v[4] = False
            can = os.path.join(work, "canary.ndjson")
            open(can, "w").write(json.dumps(v) + "\n")
            p = vlib.vh(["gram-replay", "--which", "type"], stdin_path=can)
            if b'"bad":true' not in p.stdout:
                chk.canary_failed.append("canary (flipped IsTypeRef) not rejected by the comparator")
        os.remove(cases)

    # impl -> spec: primitive-operation traces of the two standalone entry points (Done requires, with no
    # error, that the look-ahead is Eof: ParserCore condition C07-no-error-but-input-not-consumed)
    gen = os.path.join(work, "gen.ndjson")
    count = 1500 if chk.quick else 20000
    vlib.vh(["parse-gen", "--seed", chk.seed, "--count", count, "--mode", "standalone", "--trace"], stdout_path=gen)
    tr = os.path.join(work, "trace.ndjson")
    pg.run_bulk(chk, gen, tr)
    segs, events, rejected = pg.validate_traces(chk, tr)
    chk.cov["traces_validated_against_impl"] += total + segs
    chk.cov["trace_events_validated"] = events
    pg.report_rejections(chk, rejected, "C07")

    bad_rows.sort(key=lambda r: (len(r["toks"]), r["toks"]))
    seen = 0
    for row in bad_rows:
        core = {"class": row["why"], "entry": row["entry"], "toks": row["toks"]}
        if chk.violation(core, {"text": row["text"]}):
            seen += 1
            if seen >= 12:
                break
    chk.cov["evaluations"] = total + segs
    chk.cov["distinct_nontrivial"] = members
    chk.cov["exhaustive"] = True
    chk.cov["rule"] = ("Every token string up to the configured length over the full token alphabet and over alphabets of "
                       "type-reference and selection-set tokens (so every prefix . core . suffix within the bound), decided by "
                       "Grammar!IsTypeRef / IsFieldSet; replayed on Parser::parse_type, ast::Type::parse, "
                       "Parser::parse_selection_set, FieldSet::parse. Non-trivial = a member of either language. Plus recorded "
                       "primitive-operation traces of the standalone entry points validated by Trace_ParserCore.")
    chk.assumptions += ["Grammar.tla transcribes the Type and SelectionSet productions of the October 2021 grammar"]
    return chk.finish()


def replay(chk, path):
    d = json.load(open(path))
    toks = d["core"].get("toks")
    if toks is None:
        raise vlib.ToolError("replay file has no token string")
    text = pg.render(toks)
    got = json.loads(vlib.vh(["gram-text", text]).stdout)
    rows = [{"mode": "type", "toks": toks, "ok": got["type_ok"], "top": []},
            {"mode": "fieldset", "toks": toks, "ok": got["fieldset_ok"], "top": []}]
    tr = os.path.join(chk.work, "t.ndjson")
    vlib.write_ndjson(tr, rows)
    result = []
    r = vlib.tlc("Trace_Grammar", "Trace_Grammar.cfg", chk.work, consts_env={"TRACE": tr}, workers=1,
                 on_json=lambda v: result.append(v), xmx="2g")
    vlib.tlc_must_pass(r, "Trace_Grammar")
    chk.add_tlc(r)
    bad = [v for v in result if v and v[0] == "RESULT"][0][2]
    chk.cov["traces_validated_against_impl"] = 2
    chk.sample({"toks": toks, "parser": got, "rejected_lines": bad})
    if bad:
        chk.violation(d["core"], {"text": text, "parser": got})
    return chk.finish()
