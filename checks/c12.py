"""C12 — schema serialization round-trips and preserves order.

SchemaBuilder.tla models the builder (Add / Build) and the serializer (ToAst).  Model level: for every history of
distinct items up to the bound over five item universes, the INTENDED serializer (extensions in their original
order) round-trips with identical orders (RoundTripIntended).  spec -> impl: each history is rendered as SDL, built
with the real builder, serialized, rebuilt, reserialized; orders, equality, byte-identical text and validity are
compared.  The implementation-shaped variant of the model (extensions in *discovery* order, as iter_origins yields
them) predicts the reordering the real code produces today; a real reordering that the variant predicts exactly
is attributed to the listed finding, anything else is a violation.  impl -> spec: corpus schemas, also with
definitions split into extensions by an AST transformation, through the round-trip monitor (Trace_Monitor).
"""
import json
import os

import vlib
import sbgroup


def run(chk):
    total, clean, bad = sbgroup.run_histories(chk)
    chk.stage("histories")
    n_rows, bad_rows = sbgroup.run_corpus(chk, 12)
    chk.stage("corpus")
    shown = 0
    for row in sorted(bad, key=lambda r: len(json.dumps(r["history"]))):
        if not row["why12"]:
            continue
        if row["discovery_order_predicted"]:
            core = {"class": "order-changed-by-round-trip", "predicted_by": "extension-discovery-order"}
        else:
            core = {"class": "round-trip", "history": row["sdl"], "why": row["why12"][:2]}
        if chk.violation(core, {"sdl": row["sdl"], "why": row["why12"]}):
            shown += 1
            if shown > 8:
                break
    for row, fails in bad_rows:
        chk.violation({"class": "corpus-round-trip", "file": row["file"], "split": row.get("split"), "fails": fails}, {"what": row.get("what")})
    chk.cov["traces_validated_against_impl"] = total + n_rows
    chk.cov["evaluations"] = total + n_rows
    chk.cov["distinct_nontrivial"] = clean
    chk.cov["exhaustive"] = True
    chk.cov["rule"] = ("All histories of distinct items up to the bound over five item universes (object/interface, union/enum, "
                       "scalar/input, schema definition/extension with implicit roots, directive definitions incl. redefined "
                       "built-ins); corpus schemas x random splits. Non-trivial = the history builds without errors (so the round "
                       "trip applies).")
    chk.assumptions += ["the model's builder is bound to the real builder on every history (C13 check reports differences)"]
    return chk.finish()


def replay(chk, path):
    d = json.load(open(path))
    sdl = (d.get("detail") or {}).get("sdl")
    raise vlib.ToolError("replay: build, serialize and rebuild this SDL sequence: %r" % (sdl,))
