"""C30 — names and nodes are memory-safe shared values.

NameRc.tla: string allocations with reference counts, handles (heap name, static name, plain Arc), node
allocations and node handles; one action per public operation (NewHeap, NewStatic, Clone, Drop, WithLocation,
ToClonedArc, FromArc, IntoArc; NodeNew, NodeClone, NodeDrop, MakeMut, GetMut).  RcInv (count = number of live
handles, text = allocation text) is model-checked over all histories up to the bound, single-threaded and
interleaved over two threads.  spec -> impl: every history is replayed on real Name / Arc<str> / Node values; a
witness Arc per allocation makes the real strong count observable after every step (and keeps the memory alive,
so an unbalanced decrement shows as a count mismatch, not as undefined behaviour in the harness); text, location,
static-ness, Eq / Hash (ignoring locations), ptr_eq, get_mut uniqueness and copy-on-write isolation are checked
after every step; at the end every handle is dropped and every allocation must be freed (Weak::strong_count = 0).
Steps attributed to thread 2 run on another OS thread.  impl -> spec: 8 free-running threads clone / drop / relocate /
convert shared names; at quiescent points strong count = live handles (Trace_Monitor).
Thorough tier: the replay binary additionally runs under Miri on a sample of histories.
"""
import json
import os
import subprocess

import vlib


def run(chk):
    work = chk.work
    sfx = "_q" if chk.quick else "_t"
    total = 0
    bad = []
    for fam in ("names", "nodes", "threads"):
        cases = os.path.join(work, "cases.ndjson")
        n, r = vlib.tlc_emit_cases(chk, "MC_NameRc", "MC_NameRc_%s%s.cfg" % (fam, sfx), cases, timeout=6000, sample_every=5000)
        try:
            summary, b = vlib.replay_cases(chk, ["namerc-replay"], cases)
        except vlib.ToolError as e:
            # the code under test corrupted memory and took the harness down: that is data, not a tool error
            if "harness failed (-" in str(e):
                chk.violation({"class": "crash-while-replaying-histories", "family": fam}, {"error": str(e)})
                summary, b = {"cases": 0}, []
            else:
                raise
        total += summary["cases"]
        bad += b
        if fam == "names":
            with open(cases) as f:
                for line in f:
                    v = json.loads(line)
                    if v[2]["counts"] and v[2]["counts"][0] >= 1:
                        v[2]["counts"][0] += 1
                        vlib.canary_replay(chk, ["namerc-replay"], v, "model count + 1")
                        break
            if not chk.quick:
                miri_sample = os.path.join(work, "miri.ndjson")
                with open(cases) as f, open(miri_sample, "w") as g:
                    for k, line in enumerate(f):
                        if k % 400 == 0:
                            g.write(line)
        os.remove(cases)
    chk.stage("histories")
    trace = os.path.join(work, "stress.ndjson")
    p = vlib.vh(["namerc-stress", "--seed", chk.seed, "--threads", 8, "--ops", 20000 if chk.quick else 400000], stdout_path=trace, timeout=3000, check=False)
    rows = list(vlib.read_ndjson(trace)) if p.returncode == 0 else []
    sbad = []
    if p.returncode < 0:
        chk.violation({"class": "crash-under-concurrent-use"}, {"signal": -p.returncode, "stderr": p.stderr.decode("utf8", "replace")[-500:]})
    elif p.returncode != 0:
        raise vlib.ToolError("namerc-stress failed")
    else:
        sbad = vlib.trace_validate(chk, "Trace_Monitor", "Trace_Monitor.cfg", trace, len(rows))
        c = json.loads(json.dumps(rows[0]))
        c["pairs"][0][1][0] += 1
        vlib.canary_trace(chk, "Trace_Monitor", "Trace_Monitor.cfg", rows[0], c, "observed strong count + 1")
        chk.sample({"quiescent": rows[0]})
    chk.stage("stress")
    if not chk.quick:
        # Miri as the execution substrate: a leak, double free or read-after-free is reported by the substrate
        # (aliasing models off: the harness parses a document to obtain source spans, and rowan's green tree - a third-party
        #  crate, not the subject of C30 - is rejected by both Stacked and Tree Borrows; use-after-free, double free, leaks,
        #  uninitialised reads and data races are still reported)
        env = dict(os.environ, MIRIFLAGS="-Zmiri-disable-isolation -Zmiri-disable-stacked-borrows", CARGO_NET_OFFLINE="true")
        try:
            p = subprocess.run(["cargo", "+nightly", "miri", "run", "--offline", "--quiet", "--", "namerc-replay"],
                               cwd=vlib.HARNESS, stdin=open(miri_sample, "rb"), stdout=subprocess.PIPE, stderr=subprocess.PIPE, env=env, timeout=3000)
            outp = p.stdout.decode("utf8", "replace")
            if p.returncode != 0:
                err = p.stderr.decode("utf8", "replace")
                if "Undefined Behavior" in err or "memory leaked" in err or "leaked" in err:
                    chk.violation({"class": "miri", "what": [l for l in err.splitlines() if "error" in l][:3]}, {"stderr": err[-3000:]})
                else:
                    chk.note("miri run did not complete (tooling): " + err[-300:])
            else:
                for line in outp.splitlines():
                    if '"bad":true' in line:
                        bad.append(json.loads(line))
                chk.cov["miri_histories"] = sum(1 for _ in open(miri_sample))
        except subprocess.TimeoutExpired:
            chk.note("miri run timed out (tooling)")
        chk.stage("miri")
    for row in sorted(bad, key=lambda r: len(r["history"]))[:8]:
        chk.violation({"class": "history", "ops": [s[1] for s in row["history"]], "why": [w[:120] for w in row["why"][:1]]}, {"history": row["history"], "why": row["why"]})
    for l, f in sbad:
        chk.violation({"class": "stress", "fails": sorted(f)}, {"row": rows[l - 1]})
    chk.cov["traces_validated_against_impl"] = total + len(rows)
    chk.cov["evaluations"] = total + len(rows)
    chk.cov["distinct_nontrivial"] = total
    chk.cov["exhaustive"] = True
    chk.cov["rule"] = ("All histories of exactly MaxOps operations over a pool of 2 texts / 2 locations / 2 node values (names, nodes, "
                       "and names interleaved over two threads); every history is distinct by construction.")
    chk.assumptions += ["atomicity of std's Arc and memory-model subtleties are not modelled; Miri (thorough tier) is the substrate that makes a wrong count observable as UB / leak"]
    return chk.finish()


def replay(chk, path):
    d = json.load(open(path))
    hist = (d.get("detail") or {}).get("history")
    raise vlib.ToolError("replay: feed ['CASE', history, snap, handles, nodes] to `vh namerc-replay`: %r" % (hist,))
