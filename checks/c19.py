"""C19 — executable documents and field sets round-trip.

The monitor of C08 (Trace_RoundTrip) on typed values: every VALID document among the seeds, single and double
mutants of C17 (ExecRules / adoc), serialized from the typed ExecutableDocument under the 18 configurations,
re-parsed AND re-validated against the same schema, compared with the code's equality, re-serialized; the same for
valid field sets (with and without outer braces, fragments, aliases, directives) and for (schema, document) pairs
validated together from one mixed text (seed documents with the schema before or after, and every corpus file that
validates as a mixed document).
"""
import os

import vlib
from checks import c08

PREFIX = "C19"


def run(chk):
    raw = os.path.join(chk.work, "rt_typed.ndjson")
    vlib.vh(["rt-typed", "--seed", chk.seed, "--depth2", 60 if chk.quick else 3000, "--every", 4 if chk.quick else 1], stdout_path=raw, timeout=7000)
    rows = list(vlib.read_ndjson(raw))
    good, bad = c08.validate(chk, rows, parts=6)
    g = next(r for r in good if r["kind"] == "typed")
    g = {k: g[k] for k in c08.FIELDS}
    c1 = dict(g)
    c1["reparseOk"] = False
    can = os.path.join(chk.work, "canary_trace.ndjson")
    vlib.write_ndjson(can, [g, c1])
    cb = vlib.trace_validate(chk, "Trace_RoundTrip", "Trace_RoundTrip.cfg", can, 2, timeout=600, xmx="2g")
    if [b[0] for b in cb] != [2]:
        chk.canary_failed.append("canary (reparseOk flipped): got %s" % cb)
    c08.report(chk, rows, good, bad, PREFIX)
    for kind in ("typed", "fieldset", "mixed"):
        chk.cov["rows_" + kind] = sum(1 for r in good if r["kind"] == kind)
    chk.cov["rule"] = ("Valid documents among C17's seeds and mutants, 10 field sets, mixed texts (seeds + corpus), x 18 configurations; "
                       "non-trivial = distinct valid source texts.")
    chk.assumptions += ["equality is the code's own PartialEq on ExecutableDocument / SelectionSet / Schema", "one fixed schema for typed documents and field sets"]
    return chk.finish()


def replay(chk, path):
    return run(chk)
