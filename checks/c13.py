"""C13 — building from several sources is compositional.

SchemaBuilder.tla states the intended builder: an extension met before its definition is queued and applied when
the definition arrives exactly as if it had come after it (Commute), and the result does not depend on how the
item sequence is cut into sources (Chunking); both are model-checked for every history up to the bound.
spec -> impl: every history is built (a) from one concatenated text, (b) one source per item, (c) every two-way
cut — definitions, orders, serialization and diagnostic messages must coincide — and the built schema and the
multiset of diagnostics must equal the model's (which is how "moving an extension before its definition changes
nothing" is decided: the model is order-insensitive in exactly that way).  Executable builder: operations and
fragments over several sources vs their concatenation, and every history of DocBuilder.tla (kept definitions, build
errors) under every split into sources.  impl -> spec: corpus schemas cut at random definition
boundaries and with an extension moved before its definition, through Trace_Monitor.
"""
import json
import os

import vlib
import sbgroup


def run(chk):
    total, clean, bad = sbgroup.run_histories(chk)
    chk.stage("histories")
    n_rows, bad_rows = sbgroup.run_corpus(chk, 13)
    # executable documents
    etrace = os.path.join(chk.work, "exec.ndjson")
    vlib.vh(["exec-chunks", "--seed", chk.seed, "--count", 300 if chk.quick else 5000], stdout_path=etrace)
    erows = list(vlib.read_ndjson(etrace))
    epath = os.path.join(chk.work, "emonitor.ndjson")
    vlib.write_ndjson(epath, [{"kind": r["kind"], "pairs": r["pairs"], "flags": r["flags"]} for r in erows])
    ebad = vlib.trace_validate(chk, "Trace_Monitor", "Trace_Monitor.cfg", epath, len(erows), timeout=6000)
    # executable builder: every history of DocBuilder.tla under every split into sources (see X01)
    dcases = os.path.join(chk.work, "docb_cases.ndjson")
    with open(dcases, "w") as fo:
        def on_json(v):
            if v and v[0] == "CASE":
                fo.write(json.dumps(v, separators=(",", ":")) + "\n")
        r = vlib.tlc("MC_DocBuilder", "MC_DocBuilder_%s.cfg" % ("q" if chk.quick else "t"), chk.work, workers=8, on_json=on_json, timeout=3000)
    vlib.tlc_must_pass(r, "MC_DocBuilder")
    chk.add_tlc(r)
    dsummary, dbad = vlib.replay_cases(chk, ["docb-replay"], dcases)
    for row in dbad[:6]:
        chk.violation({"class": "executable-builder-history", "items": row["items"], "split_mask": row["split_mask"]}, {"got": row["got"], "want": row["want"]})
    chk.cov["executable_builder_runs"] = dsummary.get("runs", 0)
    chk.stage("corpus+executable")
    shown = 0
    for row in sorted(bad, key=lambda r: len(json.dumps(r["history"]))):
        if not row["why13"]:
            continue
        if chk.violation({"class": "builder", "history": row["sdl"], "why": [w[:160] for w in row["why13"][:2]]}, {"sdl": row["sdl"], "why": row["why13"]}):
            shown += 1
            if shown > 8:
                break
    for row, fails in bad_rows:
        chk.violation({"class": "corpus-" + row["kind"], "file": row["file"], "fails": fails}, {"what": row.get("what")})
    for l, fails in ebad:
        chk.violation({"class": "executable-" + erows[l - 1]["kind"], "fails": sorted(fails)}, {"sources": erows[l - 1].get("sources")})
    chk.sample({"executable_case": erows[0].get("sources")})
    chk.cov["traces_validated_against_impl"] = total + n_rows + len(erows)
    chk.cov["evaluations"] = total + n_rows + len(erows)
    chk.cov["distinct_nontrivial"] = total - clean
    chk.cov["exhaustive"] = True
    chk.cov["rule"] = ("All histories of distinct items up to the bound over five universes, each built three ways; corpus schemas cut "
                       "randomly and with extensions moved; generated executable documents over several sources. Non-trivial = the "
                       "history does not build cleanly (collisions, duplicates, kind mismatches, orphans).")
    chk.assumptions += ["diagnostic messages are compared as multisets between runs of the same code, and by kind/name against the model"]
    return chk.finish()


def replay(chk, path):
    d = json.load(open(path))
    sdl = (d.get("detail") or {}).get("sdl")
    raise vlib.ToolError("replay: build this SDL sequence one source per item and concatenated: %r" % (sdl,))
