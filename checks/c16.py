"""C16 — validation is idempotent.

BuiltinScalars.tla: the built-in-scalar bookkeeping of schema validation as a state machine (present, refs, valid)
with actions Validate / AddFieldRef / DropFieldRef; invariants ExactlyUsed (a valid schema holds exactly the
referenced built-in scalars), AlwaysThere (String, Boolean), RestoresExactly, IdempotentH, model-checked over all
histories up to the bound.  spec -> impl: every history is replayed on a real Schema (validate, into_inner, mutate
Query's fields, validate ...); after each validation the set of built-in scalars must equal the model's, and an
immediate re-validation must succeed and change nothing (equality, type-map order, serialization).
impl -> spec: every valid (schema, document) pair of the corpus is validated twice (Trace_Monitor).
"""
import json
import os

import vlib


def run(chk):
    work = chk.work
    cases = os.path.join(work, "cases.ndjson")
    n, r = vlib.tlc_emit_cases(chk, "MC_BuiltinScalars", "MC_BuiltinScalars_q.cfg" if chk.quick else "MC_BuiltinScalars_t.cfg", cases, timeout=6000, sample_every=2000)
    summary, bad = vlib.replay_cases(chk, ["scalars-replay"], cases)
    vlib.canary_replay(chk, ["scalars-replay"], ["CASE", [["add", "Int", []], ["validate", "", ["Boolean", "String"]]]], "Int missing from the expected set")
    chk.stage("histories")
    trace = os.path.join(work, "reval.ndjson")
    vlib.vh(["scalars-revalidate"], stdout_path=trace)
    rows = list(vlib.read_ndjson(trace))
    path = os.path.join(work, "monitor.ndjson")
    vlib.write_ndjson(path, [{"kind": r["kind"], "pairs": r["pairs"], "flags": r["flags"]} for r in rows])
    badl = vlib.trace_validate(chk, "Trace_Monitor", "Trace_Monitor.cfg", path, len(rows), timeout=6000)
    g = {"kind": rows[0]["kind"], "pairs": rows[0]["pairs"], "flags": rows[0]["flags"]}
    c = json.loads(json.dumps(g))
    c["flags"][0][1] = False
    vlib.canary_trace(chk, "Trace_Monitor", "Trace_Monitor.cfg", g, c, "re-validation flag cleared")
    chk.stage("corpus")
    for row in sorted(bad, key=lambda r: len(r["history"]))[:8]:
        if any(w.startswith("tool:") for w in row["why"]):
            raise vlib.ToolError(str(row["why"]))
        chk.violation({"class": "history", "history": [[s[0], s[1]] for s in row["history"]], "why": row["why"][:2]}, {"why": row["why"]})
    for l, fails in badl:
        chk.violation({"class": "revalidate", "file": rows[l - 1]["file"], "fails": sorted(fails)}, {})
    chk.cov["traces_validated_against_impl"] = summary["cases"] + len(rows)
    chk.cov["evaluations"] = summary["cases"] + len(rows)
    chk.cov["distinct_nontrivial"] = summary["nontrivial"] + len(rows)
    chk.cov["exhaustive"] = True
    chk.cov["rule"] = ("All histories up to the bound over {validate, add a field of type Int/Float/ID/String, drop such fields}; "
                       "non-trivial = at least two validations. Plus all valid corpus pairs validated twice.")
    chk.assumptions += ["String and Boolean are referenced by the introspection types / built-in directives of every schema"]
    return chk.finish()


def replay(chk, path):
    d = json.load(open(path))
    hist = d["core"].get("history")
    raise vlib.ToolError("replay: pipe ['CASE', history-with-expected-sets] into `vh scalars-replay`: %r" % (hist,))
