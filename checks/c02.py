"""C02 — the document syntax tree is lossless.

ParserCore.tla accounts for every lexer item: emitted prefix . pending . held . look-ahead . rest partition the
input; builder.token() is enabled only at offset emittedEnd; Done (document, no token limit) requires everything
lexed to be attached and nothing held back, plus the observations tree text = input and all ranges on char
boundaries.  spec -> impl: TLC-enumerated token strings with lexer-error / non-ASCII / ignored items at every
position, in type, argument, field-definition and variable-definition contexts.  impl -> spec: mutated corpus.
"""
import json
import os

import vlib
import parsergroup as pg

PREFIX = "C02"


def run(chk):
    work = chk.work
    cases = os.path.join(work, "cases.ndjson")
    # no token limit; the recursion limit may be set (a limit error must not cost any byte of the rest of the input)
    n_strings, n_cases = pg.token_string_cases(chk, ["items", "fields", "vars", "args"], cases, ["Document"], [(-1, -1)],
                                               extra_limits=[(-1, 0), (-1, 1)], extra_every=2)
    chk.stage("tlc-enumeration")
    res = os.path.join(work, "res.ndjson")
    pg.run_bulk(chk, cases, res)
    n_obs, uniq = pg.aggregate_obs(res)
    os.remove(res)
    chk.stage("replay")
    fz = os.path.join(work, "fuzz.ndjson")
    count = 30000 if chk.quick else 500000
    vlib.vh(["parse-gen", "--seed", chk.seed, "--count", count, "--mode", "lossless"], stdout_path=fz)
    pg.run_bulk(chk, fz, res, batch=2000)
    n_obs3, uniq3 = pg.aggregate_obs(res)
    os.remove(res)
    chk.stage("fuzz")
    allu = uniq + uniq3
    bad = pg.validate_obs(chk, allu)
    pg.obs_canary(chk, allu)
    rejected = pg.classify_bad_obs(chk, bad, PREFIX)
    chk.stage("obs-validation")
    tz = os.path.join(work, "tfuzz.ndjson")
    tcount = 500 if chk.quick else 8000
    vlib.vh(["parse-gen", "--seed", chk.seed + 11, "--count", tcount, "--mode", "lossless", "--trace", "--maxlen", 1500], stdout_path=tz)
    tr = os.path.join(work, "trace.ndjson")
    pg.run_bulk(chk, tz, tr)
    segs, events, rejected2 = pg.validate_traces(chk, tr)
    if not pg.trace_canary(chk, tr):
        chk.note("no segment suitable for the trace canary in this sample")
    chk.stage("trace-validation")
    n_rep = pg.report_rejections(chk, rejected + rejected2, PREFIX)
    # observation failures that tracing did not reject would be a hole in the binding: report them as such
    traced_texts = set(r["text"] for r in rejected)
    for u, f in bad:
        mine = [x for x in f if x.startswith(PREFIX)]
        if mine and u.get("e") == "Done" and u.get("text") not in traced_texts and u.get("text") in pg.EXAMINED:
            chk.violation({"class": "obs", "entry": u.get("entry"), "why": mine}, {"text": u.get("text")})
    total = n_obs + n_obs3
    chk.cov["traces_validated_against_impl"] = total + segs
    chk.cov["trace_events_validated"] = events
    chk.cov["evaluations"] = total + segs
    chk.cov["distinct_nontrivial"] = len(allu)
    chk.cov["token_strings_enumerated"] = n_strings
    chk.sample({"unique_observation": allu[len(allu) // 2]})
    chk.cov["rule"] = ("Documents without token limit: TLC-enumerated token strings (with lexer-error, non-ASCII, comma, comment "
                       "items; type / argument / variable / field-definition contexts) and seeded mutations of the corpus; "
                       "observations validated by Trace_ParseObs, primitive-operation traces by Trace_ParserCore. "
                       "distinct_nontrivial = distinct observation records.")
    chk.assumptions += ["rowan stores token text verbatim (observed: tree text is compared byte-wise with the input)"]
    return chk.finish()


def replay(chk, path):
    d = json.load(open(path))
    det = d.get("detail") or {}
    cases = os.path.join(chk.work, "c.ndjson")
    vlib.write_ndjson(cases, [{"id": 1, "entry": "Document", "text": det.get("text", ""), "tok": -1, "rec": -1, "trace": True}])
    tr = os.path.join(chk.work, "t.ndjson")
    pg.run_bulk(chk, cases, tr)
    segs, events, rejected = pg.validate_traces(chk, tr)
    pg.report_rejections(chk, rejected, PREFIX)
    chk.cov["traces_validated_against_impl"] = segs
    chk.sample({"replayed": det.get("text", "")[:200]})
    return chk.finish()
