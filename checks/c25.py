"""C25 — the introspection depth limit does not depend on fragments.

IntroDepth.tla: the reference (rejected iff, with fragments expanded, some path nests >= 3 list fields) and the
memoised algorithm of max_depth.rs as an implementation-shaped recursive operator; model level: the algorithm
equals the reference and inlining any spread does not change the verdict, for every enumerated operation.
spec -> impl: every operation (two chains over {list field, plain field, inline fragment}, each possibly ending in
a spread; fragment f1 possibly spreading f2; so reuse at different depths and nested reuse in both visiting orders)
is rendered against the introspection schema and passed to introspection::check_max_depth; verdicts must agree.
"""
import json
import os

import vlib


def run(chk):
    work = chk.work
    cases = os.path.join(work, "cases.ndjson")
    n, r = vlib.tlc_emit_cases(chk, "MC_IntroDepth", "MC_IntroDepth_q.cfg" if chk.quick else "MC_IntroDepth_t.cfg", cases, workers=10, timeout=6000, sample_every=20011)
    summary, bad = vlib.replay_cases(chk, ["introdepth-replay"], cases)
    vlib.canary_replay(chk, ["introdepth-replay"], ["CASE", [["list", [["list", [["list", []]]]]]], {"f1": [], "f2": []}, False], "three nested lists declared acceptable")
    for row in sorted(bad, key=lambda r: len(r["doc"]))[:8]:
        if row["why"][0].startswith("tool:"):
            raise vlib.ToolError(row["why"][0] + " :: " + row["doc"])
        chk.violation({"class": "depth-verdict", "op": row["op"], "frags": row["frags"]}, {"doc": row["doc"], "why": row["why"]})
    chk.cov["traces_validated_against_impl"] = summary["cases"]
    chk.cov["evaluations"] = summary["cases"]
    chk.cov["distinct_nontrivial"] = summary["nontrivial"]
    chk.cov["exhaustive"] = True
    chk.cov["rule"] = ("All operations of the bounded shape; non-trivial = uses at least one named fragment.")
    chk.assumptions += ["list fields are rendered as interfaces / possibleTypes, plain fields as ofType (all on __Type)"]
    return chk.finish()


def replay(chk, path):
    d = json.load(open(path))
    core = d["core"]
    cases = os.path.join(chk.work, "c.ndjson")
    # the reference verdict is recomputed by TLC only in a full run; here the recorded disagreement is re-run
    det = d.get("detail") or {}
    want = "reference = true" in (det.get("why") or [""])[0]
    vlib.write_ndjson(cases, [["CASE", core["op"], core["frags"], want]])
    summary, bad = vlib.replay_cases(chk, ["introdepth-replay"], cases)
    chk.cov["states"] = 1
    chk.cov["transitions"] = 1
    chk.sample({"case": core})
    for row in bad:
        chk.violation(core, {"doc": row["doc"], "why": row["why"]})
    return chk.finish()
