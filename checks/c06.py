"""C06 — string literals decode to their spec-defined values.

Strings.tla transcribes StringValue / BlockStringValue() from the specification.
spec -> impl: TLC enumerates literal interiors over character-class alphabets; the lexically valid ones are printed
with their reference value; the harness embeds each literal in 22 positions (descriptions of schema, types, fields,
arguments, enum values, directive definitions; argument values, defaults, nested list/object values), and compares
String::from(&cst::StringValue) and the compiler's AST strings with the reference.
impl -> spec: seeded random literals (long, mixed indentation, all line terminators, escapes) are recorded with the
values the real code produced and validated by TLC (Trace_Strings).
"""
import json
import os

import vlib


def run(chk):
    work = chk.work
    sfx = "_q" if chk.quick else "_t"
    total = 0
    nontrivial = 0
    bad = []
    for name in ("block", "blockws", "quoted"):
        cases = os.path.join(work, "cases.ndjson")
        n, r = vlib.tlc_emit_cases(chk, "MC_Strings", "MC_Strings_%s%s.cfg" % (name, sfx), cases, timeout=6000)
        summary, b = vlib.replay_cases(chk, ["str-replay"], cases)
        total += summary["cases"]
        nontrivial += summary["nontrivial"]
        bad += b
        with open(cases) as f:
            for k, line in enumerate(f):
                if k == n // 2:
                    v = json.loads(line)
        v[2] = v[2] + [97]
        vlib.canary_replay(chk, ["str-replay"], v, "expected value + 'a'")
        os.remove(cases)
    chk.stage("enumeration")
    count = 1500 if chk.quick else 40000
    trace = os.path.join(work, "trace.ndjson")
    vlib.vh(["str-record", "--seed", chk.seed, "--count", count], stdout_path=trace)
    rows = list(vlib.read_ndjson(trace))
    badl = vlib.trace_validate(chk, "Trace_Strings", "Trace_Strings.cfg", trace, len(rows))
    for l in badl:
        row = rows[l - 1]
        bad.append({"literal": "".join(map(chr, row["lit"])), "cps": row["lit"], "why": ["recorded values rejected by Trace_Strings"],
                    "values": row["values"]})
    good = [r for r in rows if r["values"] and not r["crash"]]
    c = json.loads(json.dumps(good[0]))
    c["values"] = [c["values"][0] + [97]]
    vlib.canary_trace(chk, "Trace_Strings", "Trace_Strings.cfg", good[0], c, "decoded value + 'a'")
    chk.sample({"recorded": good[len(good) // 2]})
    chk.stage("trace")
    bad.sort(key=lambda r: (len(r["cps"]), r["cps"]))
    for row in bad[:8]:
        chk.violation({"class": "string-value-differs", "literal": row["literal"]}, {"why": row["why"], "cps": row["cps"]})
    chk.cov["traces_validated_against_impl"] = total + len(rows)
    chk.cov["evaluations"] = total + len(rows)
    chk.cov["distinct_nontrivial"] = nontrivial
    chk.cov["exhaustive"] = True
    chk.cov["rule"] = ("All literal interiors up to the bound over {space, tab, LF, CR, a, quote, backslash, é} (block), "
                       "{space, tab, LF, a, NBSP, U+3000, BOM} (blockws: Unicode white space that is NOT GraphQL WhiteSpace) and "
                       "{a, quote, backslash, u, 0, A, n, /, é} (quoted) that are lexically valid, each in 22 positions; plus "
                       "seeded random literals. Non-trivial = the value differs from the raw interior.")
    chk.assumptions += ["Strings.tla transcribes section 2.9.4 (String Value) of the October 2021 specification"]
    return chk.finish()


def replay(chk, path):
    d = json.load(open(path))
    lit = d["core"]["literal"]
    raise vlib.ToolError("use: echo the literal into `vh str-record`; literal=%r" % lit)
