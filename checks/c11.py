"""C11 — source locations and line/column positions are correct.

LineCol.tla: byte offset -> (line, column) with LineTerminator = \\n | \\r\\n | \\r and columns counting Unicode
scalar values.  spec -> impl: every text up to the bound over {a, é, 中, 🚀, LF, CR, FF, U+2028, U+0085, space} x every
char-boundary offset against SourceFile::get_line_column / get_line_column_range.
impl -> spec: generated documents with multibyte text and unusual separators inside comments, strings and
descriptions are parsed into AST, Schema and ExecutableDocument; every node / name location reachable through
the public API and every diagnostic's positions (API, JSON, rendered header) are recorded; TLC (Trace_LineCol)
checks containment, exact name coverage and LineColumn.
"""
import json
import os

import vlib

ARIADNE_EXTRA = {0x0B, 0x0C, 0x85, 0x2028, 0x2029}


def run(chk):
    work = chk.work
    cases = os.path.join(work, "cases.ndjson")
    n, r = vlib.tlc_emit_cases(chk, "MC_LineCol", "MC_LineCol_q.cfg" if chk.quick else "MC_LineCol_t.cfg", cases, timeout=6000)
    summary, bad = vlib.replay_cases(chk, ["linecol-replay"], cases)
    vlib.canary_replay(chk, ["linecol-replay"], ["CASE", [233, 97], [[0, [1, 1]], [2, [1, 3]], [3, [1, 3]]]], "byte-based column expected")
    chk.stage("enumeration")
    trace = os.path.join(work, "trace.ndjson")
    vlib.vh(["linecol-record", "--seed", chk.seed, "--count", 300 if chk.quick else 6000], stdout_path=trace)
    rows = list(vlib.read_ndjson(trace))
    badl = vlib.trace_validate(chk, "Trace_LineCol", "Trace_LineCol.cfg", trace, len(rows), timeout=6000)
    n_spans = sum(len(r["names"]) + len(r["nodes"]) + len(r["diags"]) for r in rows)
    good = [r for r in rows if r["names"] and not r["crash"]]
    c = json.loads(json.dumps(good[0]))
    c["names"][0][1] += 1
    can = os.path.join(work, "canary.ndjson")
    vlib.write_ndjson(can, [good[0], c])
    cb = vlib.trace_validate(chk, "Trace_LineCol", "Trace_LineCol.cfg", can, 2, timeout=600, xmx="2g")
    f1 = [set(x[1]) for x in cb if x[0] == 1]
    f2 = [set(x[1]) for x in cb if x[0] == 2]
    if not f2 or "name-location" not in f2[0] or (f1 and "name-location" in f1[0]):
        chk.canary_failed.append("canary (a name span one byte too long) not rejected by Trace_LineCol")
    chk.sample({"recorded": {"len": good[0]["len"], "names": good[0]["names"][:4], "nodes": good[0]["nodes"][:4], "diags": good[0]["diags"][:2]}})
    chk.stage("trace")
    for row in sorted(bad, key=lambda r: len(r["cps"]))[:6]:
        chk.violation({"class": "line-column", "text": row["text"]}, {"why": row["why"]})
    for l, fails in badl:
        row = rows[l - 1]
        text = "".join(map(chr, row["text"]))
        for f in sorted(fails):
            core = {"class": f}
            if f == "rendered-header-position":
                # TLC rejected the line. Attribute it to ariadne's line table only if every diagnostic whose header
                # differs from the API position (which TLC checked separately) has one of ariadne's extra line
                # terminators before it; otherwise it is an unlisted violation.
                raw = text.encode("utf8")
                attributable = True
                for d in row["diags"]:
                    if d["header"] != d["lc"][:2]:
                        prefix = raw[:d["start"]].decode("utf8", "ignore")
                        if not any(ord(ch) in ARIADNE_EXTRA for ch in prefix):
                            attributable = False
                core["only_after_ariadne_extra_terminator"] = attributable
            chk.violation(core, {"text": text, "diags": row["diags"][:5], "what": row.get("what")})
    chk.cov["traces_validated_against_impl"] = summary["evals"] + n_spans
    chk.cov["evaluations"] = summary["evals"] + n_spans
    chk.cov["distinct_nontrivial"] = summary["nontrivial"] + len(rows)
    chk.cov["exhaustive"] = True
    chk.cov["rule"] = ("All texts up to the bound over 10 character classes x all char-boundary offsets; generated documents with "
                       "multibyte / unusual separators: every node and name span, every diagnostic position. Non-trivial text = "
                       "contains a multibyte character, CR or FF.")
    chk.assumptions += ["positions in rendered text are read from the `[ file:L:C ]` header line of the report"]
    return chk.finish()


def replay(chk, path):
    raise vlib.ToolError("replay: re-run bin/check C11 (cases are regenerated deterministically from the seed)")
