"""C20 — validating without a schema is a relaxation.

From the same documents as C17, both verdicts are recorded: ExecutableDocument::parse_and_validate against the
schema and ast::Document::validate_standalone_executable.  TLC (Trace_ExecRules) requires
  ok => standalone                       (the relaxation, the property's first sentence), and
  StandaloneValid(doc) => standalone     (standalone only rejects what is an error under every schema:
                                          StandaloneValid is the conjunction of the schema-independent rules).
The converse (standalone must report every schema-independent error) is NOT demanded — the property does not
state it.
"""
from checks import c17

PREFIX = "C20"


def run(chk):
    import execgroup
    rows, bad, crashes = execgroup.run_doc_cases(chk)
    c17.report(chk, rows, bad, crashes, PREFIX)
    return chk.finish()


def replay(chk, path):
    return run(chk)
