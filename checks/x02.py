"""X02 (beyond the listed properties) — ResponseBuilder::with_partial_data.

The flow of C33 with a partial response given to the builder: a first response is generated, pruned at random to a
partial response (objects lose keys, lists are kept), and a second response is generated over it.  TLC requires the
shape (ResponseConforms), reproduction by execution, and Response!Covers: wherever the overlay has a value at a
position of the response, the response carries it (leaves verbatim, lists with the overlay's length).

(C33's own description follows.)
C33 — generated responses match the operation's shape.

Response.tla states what a response for an operation must look like, over the operation / value representation and
CollectFields of Execution.tla: exactly the response keys collected for the concrete type of each object, never null
at a non-null position, lists nested exactly as the field type nests them, leaves of the right JSON kind, defined
enum values, __typename a possible concrete type.
Random valid operations without @skip / @include (aliases, merged fields, inline fragments and named fragments on
every overlapping type condition, __typename) over two schemas with every kind of type (nested lists up to depth 3 of
leaves, objects, interfaces, unions; interfaces implementing interfaces; custom scalar) are given to the real
ResponseBuilder with two randomness sources (a scripted RandomProvider, arbitrary::Unstructured over random bytes),
random list-size bounds and null ratios; TLC (Trace_Response) requires ResponseConforms for each.  For the half of
the operations in which every abstract selection set asks for __typename, the operation is executed by
apollo-compiler over resolvers that serve exactly the generated data (looked up by response key); the response must
equal the data with no errors.
"""
import os

import vlib

FIELDS = ("schema", "kind", "sels", "fragments", "data", "executed", "reproduced", "execErrors", "crash", "overlay")


def nested_list_of_objects(v, depth=0):
    if isinstance(v, list):
        return any(nested_list_of_objects(x, depth + 1) for x in v)
    if isinstance(v, dict):
        return depth >= 2 or any(nested_list_of_objects(x, 0) for x in v.values())
    return False


def l_ok(r, rows, bad):
    badlines = {b[0] for b in bad}
    return (rows.index(r) + 1) not in badlines


def cause_of(row, f):
    # overlaid_value recurses into one list level only: below a nested list the overlay is echoed verbatim
    if f in ("X02-shape", "X02-not-reproduced-by-execution") and nested_list_of_objects(row.get("overlayRaw")):
        return "overlay-covers-nested-list-of-objects"
    return "other"


def run(chk):
    raw = os.path.join(chk.work, "resp.ndjson")
    schemas = os.path.join(chk.work, "schemas.ndjson")
    vlib.vh(["resp-record", "--overlay", "--seed", chk.seed, "--count", 1500 if chk.quick else 60000, "--schemas-out", schemas], stdout_path=raw, timeout=7000)
    rows = list(vlib.read_ndjson(raw))
    bad = vlib.trace_validate_parallel(chk, "Trace_Response", "Trace_Response.cfg", [{k: r[k] for k in FIELDS} for r in rows], parts=10,
                                       env={"SCHEMAS": schemas}, timeout=7000)
    # canary: drop one key of a conforming object, and make a non-null list null
    g = next(r for r in rows if r["data"][0] == "obj" and len(r["data"][1]) >= 2 and not r["crash"] and l_ok(r, rows, bad))
    g = {k: g[k] for k in FIELDS}
    c1 = dict(g)
    c1["data"] = ["obj", g["data"][1][1:]]
    c2 = dict(g)
    c2["reproduced"] = False
    c2["executed"] = True
    can = os.path.join(chk.work, "canary_trace.ndjson")
    vlib.write_ndjson(can, [g, c1, c2])
    cb = vlib.trace_validate(chk, "Trace_Response", "Trace_Response.cfg", can, 3, timeout=600, xmx="2g", env={"SCHEMAS": schemas})
    got = {b[0]: set(b[1]) for b in cb}
    if 1 in got or got.get(2) != {"X02-shape"} or got.get(3) != {"X02-not-reproduced-by-execution"}:
        chk.canary_failed.append("canary (a response key dropped / reproduction flag cleared): got %s" % cb)
    seen = set()
    for l, fails in bad:
        row = rows[l - 1]
        for f in sorted(fails):
            key = (f, cause_of(row, f), row["schema"])
            if key in seen:
                continue
            seen.add(key)
            chk.violation({"class": f, "cause": cause_of(row, f), "schema": row["schema"], "source": row["source"]},
                          {"operation": row["text"], "data": row.get("raw"), "minList": row["minList"], "maxList": row["maxList"],
                           "errors": row.get("errorsText"), "panic": row.get("panic")})
    chk.cov["traces_validated_against_impl"] = len(rows)
    chk.cov["evaluations"] = len(rows)
    chk.cov["distinct_nontrivial"] = sum(1 for r in rows if r["executed"])
    chk.cov["executed_over_generated_data"] = sum(1 for r in rows if r["executed"])
    chk.cov["by_source"] = {s: sum(1 for r in rows if r["source"] == s) for s in ("script", "unstructured")}
    s = rows[len(rows) // 2]
    chk.sample({"operation": s["text"], "data": s.get("raw")})
    chk.cov["rule"] = ("Random valid operations over two schemas x randomness source x list bounds x null ratio; non-trivial = "
                       "operations also executed over resolvers serving the generated data.")
    chk.assumptions += ["Response.tla is the shape the property describes, over Execution.tla's CollectFields",
                        "execution reproduction is checked for operations whose abstract selection sets include __typename (the data must name its type)",
                        "two fixed schemas; no custom generators, no partial data"]
    return chk.finish()


def replay(chk, path):
    return run(chk)
