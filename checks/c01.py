"""C01 — parsing never panics, hangs or overflows the stack.

ParserCore.tla gives every primitive operation of the parser object an enabling condition that is exactly the
condition whose violation is a panic in the code; Crash/Hang have no action.
spec -> impl: the token strings enumerated by TLC (MC_Grammar: every string up to the bound, including lexically
invalid and non-ASCII fragments and ignored tokens) x the three entry points and the compiler's five parse
functions x token/recursion limits are run on the real code in child processes (2 MiB thread stack, watchdog).
impl -> spec: seeded fuzz (mutated corpus, deep nesting around and far above the limits, long flat inputs, random
fragments) is run the same way; a sample is recorded with the primitive-operation hooks and validated by TLC
against ParserCore (Trace_ParserCore); all runs' observations are validated by Trace_ParseObs.
"""
import json
import os

import vlib
import parsergroup as pg

PREFIX = "C01"
ENTRIES = ["Document", "FieldSet", "Type"]
CENTRIES = ["ast::Document::parse", "Schema::parse", "ExecutableDocument::parse", "Type::parse", "FieldSet::parse"]


def run(chk):
    work = chk.work
    # --- spec -> impl
    cases = os.path.join(work, "cases.ndjson")
    n_strings, n_cases = pg.token_string_cases(chk, ["full"], cases, ENTRIES,
                                               [(-1, -1), (2, 1)] if chk.quick else [(-1, -1), (1, 0), (3, 2)])
    icases = os.path.join(work, "icases.ndjson")
    n1s, n1 = pg.token_string_cases(chk, ["items"], icases, ENTRIES, pg.LIMITS_C01)
    n_strings += n1s
    with open(cases, "a", encoding="utf8") as fo:
        fo.write(open(icases, encoding="utf8").read())
    os.remove(icases)
    ccases = os.path.join(work, "ccases.ndjson")
    n2s, n2 = pg.token_string_cases(chk, ["items", "exec"], ccases, CENTRIES, [(-1, -1), (2, 1)], every=3)
    chk.stage("tlc-enumeration")
    res = os.path.join(work, "res.ndjson")
    pg.run_bulk(chk, cases, res)
    n_obs, uniq = pg.aggregate_obs(res)
    os.remove(res)
    pg.run_bulk(chk, ccases, res)
    n_obs2, uniq2 = pg.aggregate_obs(res)
    os.remove(res)
    chk.stage("replay")
    # --- impl -> spec (bulk fuzz, observations only)
    fz = os.path.join(work, "fuzz.ndjson")
    count = 30000 if chk.quick else 600000
    vlib.vh(["parse-gen", "--seed", chk.seed, "--count", count, "--mode", "all"], stdout_path=fz)
    pg.run_bulk(chk, fz, res, batch=2000)
    n_obs3, uniq3 = pg.aggregate_obs(res)
    os.remove(res)
    chk.stage("fuzz")
    allu = uniq + uniq2 + uniq3
    bad = pg.validate_obs(chk, allu)
    pg.obs_canary(chk, allu)
    chk.stage("obs-validation")
    # --- impl -> spec (primitive-operation traces)
    tz = os.path.join(work, "tfuzz.ndjson")
    tcount = 500 if chk.quick else 8000
    vlib.vh(["parse-gen", "--seed", chk.seed + 7, "--count", tcount, "--mode", "all", "--trace", "--maxlen", 1500], stdout_path=tz)
    tr = os.path.join(work, "trace.ndjson")
    pg.run_bulk(chk, tz, tr)
    segs, events, rejected = pg.validate_traces(chk, tr)
    if not pg.trace_canary(chk, tr):
        chk.note("no segment suitable for the trace canary in this sample")
    chk.stage("trace-validation")
    pg.report_rejections(chk, rejected, PREFIX)
    pg.report_bad_obs(chk, bad, PREFIX)
    # root-kind failures are observation failures of Done records
    for u, f in bad:
        if "C01-root-kind" in f:
            chk.violation({"class": "obs", "entry": u.get("entry"), "why": ["C01-root-kind"]}, {"text": u.get("text")})
    total = n_obs + n_obs2 + n_obs3
    chk.cov["traces_validated_against_impl"] = total + segs
    chk.cov["trace_events_validated"] = events
    chk.cov["evaluations"] = total + segs
    chk.cov["distinct_nontrivial"] = len(allu)
    chk.cov["exhaustive"] = False
    chk.cov["token_strings_enumerated"] = n_strings + n2s
    chk.sample({"unique_observation": {k: v for k, v in allu[len(allu) // 2].items()}})
    chk.cov["rule"] = ("Token strings enumerated by TLC (all strings up to the bound over the full alphabet and an alphabet with "
                       "lexer-error, non-ASCII and ignored items) x entry points x limits, plus seeded fuzz (mutated corpus, deep "
                       "nesting 1..2000 around the limit 500, long flat inputs); every run in a child process with a 2 MiB stack. "
                       "distinct_nontrivial = number of distinct observation records (entry, limits, error/limit counts, "
                       "high-water marks, flags) over all runs.")
    chk.assumptions += ["stack depth is observed with a 2 MiB thread stack (the default of Rust test threads), not modelled",
                        "wall-clock termination is observed with a per-batch watchdog"]
    return chk.finish()


def replay(chk, path):
    d = json.load(open(path))
    det = d.get("detail") or {}
    core = d["core"]
    cases = os.path.join(chk.work, "c.ndjson")
    vlib.write_ndjson(cases, [{"id": 1, "entry": core.get("entry", "Document"), "text": det.get("text", ""),
                               "tok": det.get("tokLimit", -1) if det.get("tokLimit") is not None else -1,
                               "rec": det.get("recLimit", -1) if det.get("recLimit") is not None else -1, "trace": "::" not in core.get("entry", "")}])
    tr = os.path.join(chk.work, "t.ndjson")
    pg.run_bulk(chk, cases, tr)
    if "::" in core.get("entry", ""):
        n, uniq = pg.aggregate_obs(tr)
        bad = pg.validate_obs(chk, uniq)
        pg.report_bad_obs(chk, bad, PREFIX)
        chk.cov["traces_validated_against_impl"] = n
    else:
        segs, events, rejected = pg.validate_traces(chk, tr)
        pg.report_rejections(chk, rejected, PREFIX)
        chk.cov["traces_validated_against_impl"] = segs
    chk.sample({"replayed": det.get("text", "")[:200]})
    return chk.finish()
