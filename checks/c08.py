"""C08 — AST serialization round-trips.

Specs: GrammarGen.tla (the reference grammar run forwards: a derivation machine whose terminal states are the
sentences of the language; generator \\subseteq recogniser is model-checked), Printer.tla (the serializer's layout
engine as a state machine, and LayoutOK / MustSeparate: what its output must look like; MustSeparate is validated
against LexGrammar in both directions), Trace_RoundTrip.tla (monitor).
spec -> impl: random derivations of GrammarGen (every production, keywords used as names wherever the grammar says
Name) are rendered with varied concrete literals (escapes, empty / long / quote-ended strings, block strings),
parsed by the real code, and for each of 18 configurations (indent off / prefixes "", " ", "  ", tab, " \\t" x
initial level 0, 1, 3) serialized, re-parsed, compared, re-serialized.
impl -> spec: the repository's corpus and token-level mutants that still parse, same procedure.
TLC (Trace_RoundTrip) requires for every line: re-parse without errors, equal AST, byte-identical second
serialization, no line break / block string with indentation off, trailing newline iff indentation on, and, on the
token / ignored-text items of the real output (every 3rd line), Printer!LayoutOK: indentation = prefix^(initial level
+ bracket depth), blank lines only between definitions, multi-line groups close on their own line, trailing comma
iff multi-line, and no two tokens glued that the lexical grammar would read differently.
"""
import os

import vlib
import parsergroup as pg

PREFIX = "C08"
FIELDS = ("kind", "cfg", "reparseOk", "equal", "text2Eq", "layout", "items", "nonempty", "endsNl", "hasNl", "hasBlock")
PRINTER_CFGS = ("Indent2", "TabL1", "EmptyL2", "NoIndent", "NoIndentL3")


def model_checks(chk):
    sfx = "_q" if chk.quick else "_t"
    for c in PRINTER_CFGS:
        r = vlib.tlc("MC_Printer", "MC_Printer_%s%s.cfg" % (c, sfx), chk.work, workers=8, timeout=3000)
        vlib.tlc_must_pass(r, "MC_Printer_" + c)
        chk.add_tlc(r)
    r = vlib.tlc("MC_GrammarGen", "MC_GrammarGen_bfs%s.cfg" % sfx, chk.work, workers=8, timeout=3000)
    vlib.tlc_must_pass(r, "MC_GrammarGen_bfs")
    chk.add_tlc(r)


def generated_cases(chk, n_traces):
    cases = os.path.join(chk.work, "gen_cases.ndjson")
    seen = set()
    import json
    with open(cases, "w") as fo:
        def on_json(v):
            if v and v[0] == "CASE":
                k = json.dumps(v)
                if k not in seen:
                    seen.add(k)
                    fo.write(k + "\n")
        r = vlib.tlc("MC_GrammarGen", "MC_GrammarGen_sim.cfg", chk.work, workers=1, simulate=n_traces, depth=3000,
                     seed=int(chk.seed), on_json=on_json, timeout=3000)
    vlib.tlc_must_pass(r, "MC_GrammarGen_sim")
    chk.add_tlc(r)
    return cases, len(seen)


def validate(chk, rows, parts=8):
    good = [r for r in rows if "kind" in r]
    bad = vlib.trace_validate_parallel(chk, "Trace_RoundTrip", "Trace_RoundTrip.cfg", [{k: r[k] for k in FIELDS} for r in good], parts=parts, timeout=6000)
    return good, bad


def canary(chk, good):
    g = next((r for r in good if r["layout"] and r["cfg"]["indent"] and any(i["nl"] > 0 for i in r["items"]) and len(r["items"]) < 60), None)
    if g is None:
        chk.canary_failed.append("no multi-line layout row to build the canary from")
        return
    g = {k: g[k] for k in FIELDS}
    c1 = dict(g)
    c1["equal"] = False
    c2 = dict(g)
    k = next(i for i, it in enumerate(g["items"]) if it["nl"] > 0)
    c2["items"] = [dict(it, ind=it["ind"] + " ") if i == k else it for i, it in enumerate(g["items"])]
    can = os.path.join(chk.work, "canary_trace.ndjson")
    vlib.write_ndjson(can, [g, c1, c2])
    cb = vlib.trace_validate(chk, "Trace_RoundTrip", "Trace_RoundTrip.cfg", can, 3, timeout=600, xmx="2g")
    got = {b[0]: set(b[1]) for b in cb}
    pfx = "C08" if g["kind"] == "ast" else "C19"
    if 1 in got or got.get(2) != {pfx + "-not-equal"} or got.get(3) != {pfx + "-layout"}:
        chk.canary_failed.append("canary (equal flipped / one indentation widened): got %s" % cb)


def report(chk, rows, good, bad, prefix):
    seen = set()
    for r in rows:
        if "crash" in r:
            chk.violation({"class": prefix + "-crash"}, {"origin": r["origin"], "text": r["text"], "panic": r["crash"], "cfg": r.get("cfg")})
    for l, fails in bad:
        row = good[l - 1]
        for f in sorted(fails):
            cause = "schema-without-root-operations" if row.get("schemaWithoutRoots") else "other"
            src = row["origin"].split(":")[0].split("-")[0]
            key = (f, cause, src, row["cfg"]["indent"])
            if key in seen:
                continue
            seen.add(key)
            chk.violation({"class": f, "cause": cause, "source": src, "indent": row["cfg"]["indent"]},
                          {"origin": row["origin"], "cfg": row["cfg"], "text": row["text"], "serialized": row["ser"]})
    chk.cov["traces_validated_against_impl"] = len(good)
    chk.cov["evaluations"] = len(good)
    chk.cov["distinct_nontrivial"] = len({r["text"] for r in good})
    chk.cov["layout_rows"] = sum(1 for r in good if r["layout"])
    chk.cov["skipped_syntax_errors"] = sum(1 for r in rows if "skipped" in r)
    s = good[len(good) // 2]
    chk.sample({"origin": s["origin"], "cfg": s["cfg"], "text": s["text"][:300], "serialized": s["ser"][:300]})


def run(chk):
    model_checks(chk)
    cases, n = generated_cases(chk, 250 if chk.quick else 20000)
    raw = os.path.join(chk.work, "rt_gen.ndjson")
    vlib.vh(["rt-replay", "--seed", chk.seed, "--layout-every", 3], stdin_path=cases, stdout_path=raw, timeout=7000)
    rows = list(vlib.read_ndjson(raw))
    raw2 = os.path.join(chk.work, "rt_rec.ndjson")
    vlib.vh(["rt-record", "--seed", chk.seed, "--mutants", 150 if chk.quick else 5000, "--layout-every", 6], stdout_path=raw2, timeout=7000)
    rows += list(vlib.read_ndjson(raw2))
    good, bad = validate(chk, rows, parts=8 if chk.quick else 14)
    canary(chk, good)
    report(chk, rows, good, bad, PREFIX)
    chk.note("%d generated sentences, %d documents in all" % (n, chk.cov["distinct_nontrivial"]))
    chk.cov["rule"] = ("Random derivations of the reference grammar (GrammarGen, all productions) + corpus + parsing mutants, x 18 "
                       "configurations; non-trivial = distinct documents.")
    chk.assumptions += ["AST equality is the code's own PartialEq (what the property states)",
                        "prefixes are strings of spaces and tabs of length <= 2; initial levels 0, 1, 3",
                        "concrete literals come from fixed pools per token class (string content is C06 / C09's subject)"]
    return chk.finish()


def replay(chk, path):
    return run(chk)
