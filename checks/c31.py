"""C31 — file ids are unique and shared state is thread-safe.

FileId.tla: the global counter as a W-bit register with every atomic primitive a separate action and the
allocation algorithm as a per-thread program; Unique / NotReserved / PackUnpack are model-checked for all
interleavings of 3 threads x 2 allocations from every initial register value up to the wrap point, and TLC refutes
the load-then-store variant (negative test of the specification).
spec -> impl: the hook swaps the NEXT static for a wrapper whose every atomic operation goes through a scheduler in
the harness; ALL interleavings of 2 threads x 2 allocations (from 3, 100, 2^63-2, 2^63-1) and sampled ones for
3 x 2 and 4 x 3 are forced on the real code; Trace_FileId validates register semantics of every recorded
operation (binding) and uniqueness / non-reservedness of returned ids (property).
Pack/unpack: ids with <= 3 bits set, boundaries and random 63-bit ids are installed in the counter; names parsed
under them (heap) and static names given their location must read back the same id, text and tag.
Shared state: 8 threads parse / validate / introspect against one shared Valid<Schema>; Trace_Monitor requires the
sequential digests.
"""
import json
import os

import vlib


def run(chk):
    work = chk.work
    r = vlib.tlc("MC_FileId", "MC_FileId.cfg", work, workers=8, timeout=1200)
    vlib.tlc_must_pass(r, "MC_FileId")
    chk.add_tlc(r)
    rn = vlib.tlc("MC_FileId", "MC_FileId_neg.cfg", work, workers=4, timeout=600)
    if rn.ok or rn.violated != "Inv":
        chk.canary_failed.append("negative test: TLC did not refute the load-then-store variant")
    chk.stage("model")
    trace = os.path.join(work, "sched.ndjson")
    vlib.vh(["fileid-schedules", "--seed", chk.seed, "--tier", chk.tier], stdout_path=trace, timeout=3000)
    rows = list(vlib.read_ndjson(trace))
    runs = sum(1 for r in rows if r["e"] == "Start") - 1
    fails = vlib.trace_validate(chk, "Trace_FileId", "Trace_FileId.cfg", trace, len(rows), timeout=3000)
    # canary: duplicate a Return line inside one run
    k = next(i for i, r in enumerate(rows) if r["e"] == "Return")
    can = os.path.join(work, "canary.ndjson")
    vlib.write_ndjson(can, rows[:k + 1] + [rows[k]])
    cf = vlib.trace_validate(chk, "Trace_FileId", "Trace_FileId.cfg", can, k + 2, timeout=600)
    if not any(f[2] == "duplicate-id" for f in cf):
        chk.canary_failed.append("canary (a returned id repeated) accepted by Trace_FileId")
    chk.sample({"forced_run": rows[:6]})
    chk.stage("schedules")
    p = vlib.vh(["fileid-pack", "--seed", chk.seed, "--count", 20000 if chk.quick else 1000000], timeout=3000)
    pack_rows = [json.loads(l) for l in p.stdout.decode().splitlines() if l.strip()]
    pack_summary = [r for r in pack_rows if r.get("summary")][0]
    strace = os.path.join(work, "shared.ndjson")
    vlib.vh(["fileid-shared", "--threads", 8 if chk.quick else 16], stdout_path=strace)
    srows = list(vlib.read_ndjson(strace))
    sbad = vlib.trace_validate(chk, "Trace_Monitor", "Trace_Monitor.cfg", strace, len(srows))
    chk.stage("pack+shared")
    seen = set()
    for run, l, why in fails:
        row = rows[l - 1]
        if why in seen:
            continue
        seen.add(why)
        # find the run's Start line for the schedule
        s = l - 1
        while rows[s]["e"] != "Start":
            s -= 1
        chk.violation({"class": why, "threads": rows[s]["threads"], "allocs": rows[s]["allocs"]},
                      {"start": rows[s], "line": row, "run": rows[s:s + 30]})
    for row in pack_rows:
        if row.get("bad") and not row.get("summary"):
            if any(w.startswith("tool:") for w in row["why"]):
                raise vlib.ToolError(str(row))
            chk.violation({"class": "pack-unpack", "why": [w.split(":")[0] for w in row["why"]][:2]}, {"id": row["id"], "why": row["why"]})
    for l, f in sbad:
        chk.violation({"class": "shared-schema-concurrent-result-differs"}, {"kind": srows[l - 1]["kind"]})
        break
    chk.cov["traces_validated_against_impl"] = runs + pack_summary["cases"] + len(srows)
    chk.cov["evaluations"] = runs + pack_summary["cases"] + len(srows)
    chk.cov["distinct_nontrivial"] = runs
    chk.cov["forced_schedules"] = runs
    chk.cov["rule"] = ("All interleavings of the counter's atomic operations for 2 threads x 2 allocations (4 start values), sampled "
                       "for 3x2 and 4x3, each forced on the real code; 63-bit ids with <= 3 bits set + boundaries + random for "
                       "pack/unpack; concurrent shared-schema workloads. distinct_nontrivial = number of forced schedules.")
    chk.assumptions += ["the hook serialises operations on the counter: hardware memory ordering (AcqRel / Release) is not checked"]
    return chk.finish()


def replay(chk, path):
    return run(chk)
