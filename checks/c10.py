"""C10 — names, numbers and type references are well-formed.

spec -> impl: TLC (MC_Names) enumerates every string up to the bound over {A, 1, 0, _, -, ., e, E, +, space, é}
with the reference verdicts IsName / IsIntLiteral / IsFloatLiteral (LexGrammar) — replayed on Name::new,
new_static, the four TryFrom impls, is_valid_syntax and serde Deserialize of Name / IntValue / FloatValue — and
every type reference up to the depth bound with its printed form (model-level: it lexes and is a Type of
Grammar.tla) — replayed on Display, serialize() and Type::parse.
impl -> spec: IntValue::from(i32) / FloatValue::from(f64) for boundary and seeded random numbers are recorded
(printed literal, converts-back flag) and validated by TLC (Trace_Names).
"""
import json
import os

import vlib


def run(chk):
    work = chk.work
    cases = os.path.join(work, "cases.ndjson")
    n = [0]
    with open(cases, "w") as fo:
        def on_json(v):
            if v and v[0] in ("STR", "TYPE"):
                fo.write(json.dumps(v, separators=(",", ":")) + "\n")
                n[0] += 1
                if n[0] in (500, 9000) or (v[0] == "TYPE" and n[0] % 50 == 0 and len(chk.cov["samples"]) < 3):
                    chk.sample({"tlc_case": v})
        sfx = "q" if chk.quick else "t"
        # all strings over the full alphabet, then all strings after the prefixes "1e" and "1." (exponent and fraction parts)
        for cfg in ("MC_Names_%s.cfg" % sfx, "MC_Names_exp_%s.cfg" % sfx, "MC_Names_frac_%s.cfg" % sfx):
            r = vlib.tlc("MC_Names", cfg, work, workers=8, on_json=on_json, timeout=6000)
            vlib.tlc_must_pass(r, cfg)
            chk.add_tlc(r)
    summary, bad = vlib.replay_cases(chk, ["names-replay"], cases)
    vlib.canary_replay(chk, ["names-replay"], ["STR", [65, 49], False, False, False], "IsName flipped")
    chk.stage("enumeration")
    trace = os.path.join(work, "trace.ndjson")
    vlib.vh(["names-record", "--seed", chk.seed, "--count", 1000 if chk.quick else 50000], stdout_path=trace)
    rows = list(vlib.read_ndjson(trace))
    badl = vlib.trace_validate(chk, "Trace_Names", "Trace_Names.cfg", trace, len(rows), timeout=6000)
    for l in badl:
        row = rows[l - 1]
        bad.append({"kind": row["kind"], "text": "".join(map(chr, row["lit"])), "cps": row["lit"],
                    "why": ["printed %s literal of %s rejected (not a valid literal or does not convert back)" % (row["kind"], row["src"])]})
    good = [r for r in rows if r["kind"] == "float" and r["back"]]
    c = dict(good[0])
    c["lit"] = c["lit"] + [101]
    vlib.canary_trace(chk, "Trace_Names", "Trace_Names.cfg", good[0], c, "literal + 'e'")
    chk.sample({"recorded": good[len(good) // 2]})
    chk.stage("trace")
    bad.sort(key=lambda r: (len(r["cps"]), r["cps"]))
    for row in bad[:8]:
        chk.violation({"class": "wellformedness-" + row["kind"], "text": row["text"]}, {"why": row["why"]})
    chk.cov["traces_validated_against_impl"] = summary["cases"] + len(rows)
    chk.cov["evaluations"] = summary["cases"] + len(rows)
    chk.cov["distinct_nontrivial"] = summary["nontrivial"] + len(rows)
    chk.cov["exhaustive"] = True
    chk.cov["rule"] = ("All strings up to the bound over 11 character classes; all type references up to the depth bound over two "
                       "names; i32 / f64 boundary values (MIN, MAX, -0.0, subnormals, powers of ten 1e-320..1e308, > 2^53) and seeded "
                       "random bit patterns. Non-trivial = string accepted by some predicate, any type, any number.")
    chk.assumptions += ["numeric identity f64 -> text -> f64 is observed (bit equality), the literal syntax is decided by LexGrammar"]
    return chk.finish()


def replay(chk, path):
    d = json.load(open(path))
    text = d["core"]["text"]
    cases = os.path.join(chk.work, "c.ndjson")
    # reference verdicts from TLC through MC is overkill for one string: use Trace_Names for literals
    rows = [{"kind": "int" if d["core"]["class"].endswith("int") else "float", "lit": [ord(c) for c in text], "back": True, "src": "replay"}]
    vlib.write_ndjson(cases, rows)
    badl = vlib.trace_validate(chk, "Trace_Names", "Trace_Names.cfg", cases, 1)
    chk.sample({"text": text, "rejected": bool(badl)})
    chk.cov["traces_validated_against_impl"] = 1
    if badl:
        chk.violation(d["core"], {})
    return chk.finish()
