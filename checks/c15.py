"""C15 — valid schemas are internally consistent.

WellFormed(schema) in SchemaRules.tla states the consequences listed in the property (query root exists; roots are
distinct object types; every reference resolves to the right kind; implementation contracts incl. transitive
interfaces and covariance; no non-null input cycle; no reserved user names) and Trace_SchemaRules adds "the type
map contains exactly the referenced built-in scalars".  Main direction impl -> spec: EVERY schema the real
validator accepts among the C14 cases — seeds, valid mutants, mutate-until-valid chains over invalid mutants,
corpus schemas — is projected to the abstract model and TLC evaluates WellFormed.
"""
import vlib
import rulesgroup
from checks.c14 import report


def run(chk):
    rows, bad = rulesgroup.run_schema_cases(chk)
    report(chk, rows, bad, "C15")
    return chk.finish()


def replay(chk, path):
    return run(chk)
