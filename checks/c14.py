"""C14 — schema validation agrees with the specification.

SchemaRules.tla: the type-system validation rules as predicates over an abstract schema (root operation types,
unique and reserved names, object / interface fields and arguments, output / input positions, interface
implementation incl. covariance via TypeCompat, transitive interfaces and cycles, unions, enums, input objects and
non-null cycles, directive definitions and their cycles, directive applications: defined, location, uniqueness,
arguments), with apollo-compiler's documented differences as named switches.
Cases: two seed schemas that together use every construct; EVERY single structure-aware mutation of each at every
position (remove / duplicate a component, rename, retarget or rewrap a type reference, change a kind, a default,
a root, add interfaces / members / locations / directive applications, change argument values), sampled double
mutations, mutate-until-valid chains, and the repository's corpus schemas projected to the abstract model.  The
real verdict (Schema::parse_and_validate: build + validation) is recorded; TLC (Trace_SchemaRules) evaluates the
full reference Valid(schema) for each and requires equality.
"""
import json

import vlib
import rulesgroup

PREFIX = "C14"


def run(chk):
    rows, bad = rulesgroup.run_schema_cases(chk)
    report(chk, rows, bad, PREFIX)
    return chk.finish()


def report(chk, rows, bad, prefix):
    seen = {}
    for l, fails in bad:
        row = rows[l - 1]
        for f in sorted(fails):
            if not f.startswith(prefix):
                continue
            if row.get("crash"):
                f = "C14-crash"
            # one violation per (failure, kind of mutation)
            what = row["origin"].split(":")[-1].split("=")[0] if ":" in row["origin"] else row["origin"]
            key = (f, what)
            if key in seen:
                continue
            seen[key] = True
            chk.violation({"class": f, "mutation": what if f not in ("C14-accepts-deprecated-on-required-argument-or-input-field",) else "any"},
                          {"origin": row["origin"], "sdl": row.get("sdl"), "ok": row["ok"]})
    n_valid = sum(1 for r in rows if r["ok"])
    chk.cov["traces_validated_against_impl"] = len(rows)
    chk.cov["evaluations"] = len(rows)
    chk.cov["distinct_nontrivial"] = n_valid if prefix == "C15" else len(rows) - n_valid
    chk.cov["accepted"] = n_valid
    chk.cov["rejected"] = len(rows) - n_valid
    chk.sample({"origin": rows[5]["origin"], "sdl": rows[5].get("sdl"), "ok": rows[5]["ok"]})
    chk.cov["rule"] = ("Seeds, all single mutations at all positions, sampled double mutations, mutate-until-valid chains, corpus "
                       "schemas; non-trivial = %s by the real validator." % ("accepted" if prefix == "C15" else "rejected"))
    chk.assumptions += ["SchemaRules.tla is my transcription of the type-system rules with graphql-js semantics where the text is silent",
                        "default values are not validated, built-in directives may be redefined once, schema directive arguments are type-checked (named switches)"]


def replay(chk, path):
    return run(chk)
