"""C22 — outputs are deterministic across processes.

Determinism.tla models the audited sites where a hash-ordered collection is iterated into something observable as a
choice of permutation; MC_Determinism proves the observable independent of the choice for the code as written
(Variant "indexset") and, as a negative test of the specification itself, that TLC refutes the HashSet variant.
impl: the harness command `digest` parses, builds, validates, serializes and introspects ~350 corpus inputs,
synthetic inputs aimed at the hash-ordered sites (many unused/undefined variables, merge conflicts, implementers),
the validate/unwrap/add/validate histories of C16 and apollo-smith byte strings, and prints one digest per output.
It is run in k independent processes (own ahash / RandomState seeds); TLC (Trace_Monitor) accepts the merged trace
only if every process printed the same digest for the same output.
"""
import json
import os
import subprocess

import vlib


def run(chk):
    work = chk.work
    r = vlib.tlc("MC_Determinism", "MC_Determinism.cfg", work, workers=4, timeout=600)
    vlib.tlc_must_pass(r, "MC_Determinism")
    chk.add_tlc(r)
    rn = vlib.tlc("MC_Determinism", "MC_Determinism_neg.cfg", work, workers=4, timeout=600)
    if rn.ok or rn.violated != "Deterministic":
        chk.canary_failed.append("negative test: TLC did not refute the HashSet variant of site A")
    chk.stage("model")
    k = 4 if chk.quick else 16
    outs = []
    procs = []
    for i in range(k):
        path = os.path.join(work, "digest_%d.ndjson" % i)
        f = open(path, "wb")
        p = subprocess.Popen([vlib.VH, "digest", "--seed", str(chk.seed), "--smith", "40" if chk.quick else "400"], stdout=f, stderr=subprocess.DEVNULL)
        procs.append((p, f, path))
    for p, f, path in procs:
        p.wait()
        f.close()
        if p.returncode != 0:
            raise vlib.ToolError("digest process failed")
        outs.append({r["id"]: r["digest"] for r in vlib.read_ndjson(path)})
    ids = sorted(outs[0].keys())
    rows = []
    for i in ids:
        rows.append({"kind": i, "pairs": [["process-%d" % j, outs[0].get(i), outs[j].get(i)] for j in range(1, k)], "flags": []})
    extra = set().union(*[set(o.keys()) for o in outs]) - set(ids)
    for i in sorted(extra):
        rows.append({"kind": i, "pairs": [], "flags": [["printed-by-every-process", False]]})
    path = os.path.join(work, "monitor.ndjson")
    vlib.write_ndjson(path, rows)
    badl = vlib.trace_validate(chk, "Trace_Monitor", "Trace_Monitor.cfg", path, len(rows), timeout=6000)
    c = json.loads(json.dumps(rows[0]))
    c["pairs"][0][2] = "0000000000000000:0"
    vlib.canary_trace(chk, "Trace_Monitor", "Trace_Monitor.cfg", rows[0], c, "one process's digest changed")
    chk.sample({"output": rows[len(rows) // 2]["kind"], "digests": rows[len(rows) // 2]["pairs"][:2]})
    chk.stage("processes")
    seen = set()
    for l, fails in badl:
        kind = rows[l - 1]["kind"]
        what = kind.split("/")[-1]
        inp = kind.split("/")[0]
        # one violation per kind of output and input family
        fam = "history" if inp.startswith("history-") else "smith" if inp.startswith("smith-") else "synthetic" if inp.startswith("synthetic-") else "corpus"
        if (fam, what) in seen:
            continue
        seen.add((fam, what))
        chk.violation({"class": "differs-across-processes", "output": what, "input_family": fam}, {"example": kind, "digests": rows[l - 1]["pairs"]})
    chk.cov["traces_validated_against_impl"] = len(rows) * k
    chk.cov["evaluations"] = len(rows) * k
    chk.cov["distinct_nontrivial"] = len(rows)
    chk.cov["processes"] = k
    chk.cov["rule"] = ("One digest per observable output (AST / schema / document serialization, diagnostics as text and JSON, type "
                       "map order, introspection JSON, implementers, smith document) per input; k independent processes. "
                       "distinct_nontrivial = number of distinct outputs compared.")
    chk.assumptions += ["process-level hash seeds cannot be enumerated: k processes miss a two-way order with probability 2^(1-k)"]
    return chk.finish()


def replay(chk, path):
    return run(chk)
