"""C03 — the lexer implements the GraphQL lexical grammar.

spec -> impl: TLC (MC_Lex over LexGrammar) enumerates every string up to a bound over alphabets of
class representatives and prints the reference tokenisation; the harness runs the real lexer on
each (and on a class-preserving variant) and compares.
impl -> spec: the harness records the real lexer on corpus + seeded random inputs; TLC
(Trace_Lex) checks each recorded run against LexGrammar.
"""
import json
import os

import vlib

CONFIGS = {
    "quick": ["MC_Lex_full_q.cfg", "MC_Lex_num_q.cfg", "MC_Lex_str_q.cfg", "MC_Lex_blk_q.cfg"],
    "thorough": ["MC_Lex_full_t.cfg", "MC_Lex_num_t.cfg", "MC_Lex_str_t.cfg", "MC_Lex_blk_t.cfg"],
}


def shortest(rows, n=5):
    rows = sorted(rows, key=lambda r: (len(r["cps"]), r["cps"]))
    return rows[:n]


def run(chk):
    work = chk.work
    total_cases = 0
    nontrivial = 0
    bad_rows = []
    for cfg in CONFIGS[chk.tier]:
        cases = os.path.join(work, cfg + ".cases.ndjson")
        with open(cases, "w") as fo:
            n = [0]

            def on_json(v, fo=fo, n=n):
                if v and v[0] == "CASE":
                    fo.write(json.dumps(v, separators=(",", ":")) + "\n")
                    n[0] += 1
                    if n[0] in (777, 3333):
                        chk.sample({"cps": v[1], "reference": v[2]})
            r = vlib.tlc("MC_Lex", cfg, work, workers=8, on_json=on_json, timeout=3000)
        vlib.tlc_must_pass(r, cfg)
        chk.add_tlc(r)
        if n[0] != r.distinct:
            raise vlib.ToolError("%s: %d cases printed for %d states" % (cfg, n[0], r.distinct))
        for variant in (0, 1):
            res = os.path.join(work, "res.ndjson")
            vlib.vh(["lex-replay", "--variant", variant], stdin_path=cases, stdout_path=res)
            for row in vlib.read_ndjson(res):
                if row.get("summary"):
                    total_cases += row["cases"]
                    nontrivial += row["nontrivial"] if variant == 0 else 0
                elif row.get("bad"):
                    bad_rows.append(row)
        # canary: flip the verdict of one case, the comparator must reject it
        can = os.path.join(work, "canary.ndjson")
        with open(cases) as f:
            lines = f.readlines()
        v = json.loads(lines[len(lines) // 2])
        v[2][0] = not v[2][0]
        open(can, "w").write(json.dumps(v) + "\n")
        p = vlib.vh(["lex-replay"], stdin_path=can)
        if b'"bad":true' not in p.stdout:
            chk.canary_failed.append("canary (flipped verdict) not rejected by the comparator")
        os.remove(cases)
    chk.cov["traces_validated_against_impl"] += total_cases

    # impl -> spec
    count = 4000 if chk.quick else 60000
    trace = os.path.join(work, "trace.ndjson")
    vlib.vh(["lex-record", "--seed", chk.seed, "--count", count,
             "--corpus", "/repo/crates/apollo-parser/test_data/lexer/ok",
             "--corpus2", "/repo/crates/apollo-parser/test_data/lexer/err"], stdout_path=trace)
    rows = list(vlib.read_ndjson(trace))
    result = []
    r = vlib.tlc("Trace_Lex", "Trace_Lex.cfg", work, consts_env={"TRACE": trace}, workers=1,
                 on_json=lambda v: result.append(v), timeout=3000, xmx="6g")
    vlib.tlc_must_pass(r, "Trace_Lex")
    chk.add_tlc(r)
    res = [v for v in result if v and v[0] == "RESULT"]
    if not res or res[0][1] != len(rows):
        raise vlib.ToolError("Trace_Lex consumed %s of %d lines" % (res[0][1] if res else None, len(rows)))
    chk.cov["traces_validated_against_impl"] += len(rows)
    for l in res[0][2]:
        row = rows[l - 1]
        bad_rows.append({"cps": row["cps"], "text": "".join(map(chr, row["cps"])),
                         "why": ["recorded lexer run rejected by Trace_Lex"], "items": row["items"]})
    chk.sample({"recorded": rows[len(rows) // 3]})
    # canary: corrupt one recorded item (length + 1) and require rejection of exactly that line
    cand = [i for i, row in enumerate(rows) if len(row["items"]) >= 2 and not row["crash"]]
    if cand:
        i = cand[len(cand) // 2]
        row = json.loads(json.dumps(rows[i]))
        row["items"][0][2] += 1
        can = os.path.join(work, "canary_trace.ndjson")
        vlib.write_ndjson(can, [rows[0], row])
        result2 = []
        r2 = vlib.tlc("Trace_Lex", "Trace_Lex.cfg", work, consts_env={"TRACE": can}, workers=1,
                      on_json=lambda v: result2.append(v), timeout=600, xmx="2g")
        res2 = [v for v in result2 if v and v[0] == "RESULT"]
        if not res2 or 2 not in res2[0][2]:
            chk.canary_failed.append("canary (corrupted item length) accepted by Trace_Lex")

    for row in shortest(bad_rows, 8):
        chk.violation({"class": "lexer-disagrees-with-grammar", "text": row["text"]},
                      {"why": row["why"], "items": row.get("items"), "reference": row.get("ref")})
    chk.cov["evaluations"] = total_cases + len(rows)
    chk.cov["distinct_nontrivial"] = nontrivial
    chk.cov["exhaustive"] = True
    chk.cov["rule"] = ("TLC enumerates every string up to the configured length over four alphabets of class "
                       "representatives (full alphabet; number characters; quoted-string interior; block-string "
                       "interior); each is replayed on apollo_parser::Lexer twice (representatives and a class-preserving "
                       "variant). Non-trivial = at least two reference tokens or a lexical error. Plus recorded lexer runs "
                       "on corpus and seeded random inputs validated by TLC against LexGrammar.")
    chk.assumptions += ["LexGrammar.tla is a faithful transcription of the October 2021 lexical grammar",
                        "SourceCharacter is taken as any Unicode scalar value inside comments and strings (DESIGN 2.4)"]
    return chk.finish()


def replay(chk, path):
    d = json.load(open(path))
    text = d["core"]["text"]
    cps = [ord(c) for c in text]
    trace = os.path.join(chk.work, "trace.ndjson")
    inp = os.path.join(chk.work, "in.txt")
    open(inp, "w", encoding="utf8").write(text)
    vlib.vh(["lex-record", "--count", 0, "--file", inp], stdout_path=trace)
    rows = list(vlib.read_ndjson(trace))
    result = []
    r = vlib.tlc("Trace_Lex", "Trace_Lex.cfg", chk.work, consts_env={"TRACE": trace}, workers=1,
                 on_json=lambda v: result.append(v), xmx="2g")
    vlib.tlc_must_pass(r, "Trace_Lex")
    chk.add_tlc(r)
    res = [v for v in result if v and v[0] == "RESULT"][0]
    chk.cov["traces_validated_against_impl"] = len(rows)
    chk.sample({"cps": cps, "items": rows[0]["items"]})
    if res[2]:
        chk.violation({"class": "lexer-disagrees-with-grammar", "text": text}, {"items": rows[0]["items"]})
    return chk.finish()
