"""C32 — apollo-smith generates valid documents deterministically.

SmithDoc.tla: the generator at the level that decides validity — the ORDER of generation phases, names never reused,
implements closure and inherited-field backfill (with extensions that add parents), fragments that spread only
earlier fragments, named operations when there are several, pruning of unreachable fragments — as a state machine;
MC_SmithDoc checks that every terminal state satisfies DocOK (unique names, lone anonymous operation, implements
closed and acyclic, inherited fields declared, spreads defined / acyclic / all fragments reachable).
impl -> spec: byte strings of many lengths and entropies (uniform, low entropy, repeated patterns, 0xFF-heavy), with
default and small `max_*` settings, are given to DocumentBuilder::build twice (determinism); the text is parsed and
validated as a mixed document, and its structural facts are read from the parsed text; operations are generated with
DocumentBuilder::with_document(..).operation_definition() against four parsed schemas and validated against them.
Each item runs in a process that is restarted when it dies (a stack overflow of the generator is data).  TLC
(Trace_Smith) requires for every line: same result twice, no syntax error, valid, and DocOK on the facts (which names
the broken structural guarantee when a document is invalid).
"""
import os

import vlib

FIELDS = ("what", "crash", "exhausted", "sameAgain", "parseOk", "valid", "facts")
EMPTY_FACTS = {"types": [], "directives": [], "impl": {}, "fields": {}, "frags": {}, "ops": []}


import re

SUBTYPE = re.compile(r"^interface field `(\w+)\.(\w+)` expects type `[^`]*` but `(\w+)\.(\w+)` of type `[^`]*` is not a proper subtype")
ARGS = re.compile(r"^interface field `(\w+)\.(\w+)` expects argument `\w+` but `(\w+)\.(\w+)` does not provide it")
REQUIRED = re.compile(r"^the required field `(\w+)\.(\w+)` is not provided")
CYCLE = re.compile(r"^`(\w+)` input object cannot reference itself")


def _blocks(text, keyword, name):
    """(header, body) of every `extend <keyword> <name> ...` in the text"""
    return [(m.group(1), m.group(2) or "") for m in re.finditer(r"^(extend %s %s\b[^\n{]*)(?:\{\n((?:.*\n)*?)\})?" % (keyword, name), text, flags=re.M)]


def _parents(text, name):
    out = set()
    for m in re.finditer(r"^(?:extend )?(?:interface|type) %s implements ([^{@\n]*)" % name, text, flags=re.M):
        out |= {x.strip() for x in m.group(1).split("&") if x.strip()}
    return out


def extension_after_use(r):
    """All these need a type EXTENSION generated after the type was used, and nothing else wrong in the document:
    an interface extension that adds a field (or a parent) to an interface some type already implements, an input
    extension that adds a required field after a literal was written, or that closes a non-null cycle."""
    errs = r.get("errors") or []
    text = r.get("text") or ""
    if not errs:
        return None
    if all(SUBTYPE.match(e) or ARGS.match(e) for e in errs):
        ok = True
        for e in errs:
            iface, field, impl, _ = (SUBTYPE.match(e) or ARGS.match(e)).groups()
            involved = _parents(text, impl) | {iface}
            # some interface the implementer answers to was extended with this field or with a new parent
            if not any(re.search(r"^\s+%s\b" % field, body, flags=re.M) or "implements" in header
                       for p in involved for header, body in _blocks(text, "interface", p)):
                ok = False
        if ok:
            return "interface-extension-field-after-implementer"
    if all(REQUIRED.match(e) for e in errs):
        if all(_blocks(text, "input", REQUIRED.match(e).group(1)) for e in errs):
            return "input-extension-required-field-after-literal"
    if all(CYCLE.match(e) for e in errs):
        names = [CYCLE.match(e).group(1) for e in errs]
        # the cycle goes through a field added by an extension of one of the types on it
        if any(re.search(r"^\s+\w+(\([^)]*\))?: (%s)!" % "|".join(names), body, flags=re.M) for n in names for _, body in _blocks(text, "input", n)):
            return "input-extension-closes-non-null-cycle"
    return None


def cause_of(r):
    if "died" in r:
        return "generator-stack-overflow"
    if r.get("what") == "document" and not r.get("crash") and not r.get("exhausted") and r.get("parseOk") and not r.get("valid"):
        c = extension_after_use(r)
        if c:
            return c
    if r.get("crash") and "need to implement for union" in (r.get("panic") or ""):
        return "union-typed-field-todo"
    if not r.get("crash") and not r.get("exhausted") and not r.get("valid") and r.get("depth", 0) > 100:
        return "selection-nesting"
    return "other"


def run(chk):
    sfx = "_q" if chk.quick else "_t"
    r = vlib.tlc("MC_SmithDoc", "MC_SmithDoc%s.cfg" % sfx, chk.work, workers=8, timeout=3000)
    vlib.tlc_must_pass(r, "MC_SmithDoc")
    chk.add_tlc(r)
    count, ops = (3000, 400) if chk.quick else (60000, 20000)
    raw = os.path.join(chk.work, "smith.ndjson")
    rows = vlib.vh_resumable(["smith-record", "--seed", chk.seed, "--count", count, "--ops", ops], count + ops, raw, timeout=7000)
    for r in rows:
        if "tool_error" in r:
            raise vlib.ToolError(r["tool_error"])
    trace = []
    for r in rows:
        t = {"what": r["what"], "crash": bool(r.get("crash") or "died" in r), "exhausted": bool(r.get("exhausted")), "sameAgain": bool(r.get("sameAgain", True)),
             "parseOk": bool(r.get("parseOk", True)), "valid": bool(r.get("valid", True)), "facts": r.get("facts") or EMPTY_FACTS}
        trace.append(t)
    bad = vlib.trace_validate_parallel(chk, "Trace_Smith", "Trace_Smith.cfg", trace, parts=8, timeout=7000)
    # canary: a document whose facts are corrupted (an implemented interface removed from a child) and a flipped verdict
    g = next((t for t in trace if t["what"] == "document" and not t["crash"] and not t["exhausted"] and t["valid"]
              and any(len(v) >= 1 and any(p in t["facts"]["impl"] and len(t["facts"]["impl"][p]) >= 1 for p in v) for v in t["facts"]["impl"].values())), None)
    if g is None:
        chk.canary_failed.append("no document with a two-level implements chain to build the canary from")
    else:
        import copy
        c1 = copy.deepcopy(g)
        child = next(n for n, v in g["facts"]["impl"].items() if any(p in g["facts"]["impl"] and g["facts"]["impl"][p] for p in v))
        parent = next(p for p in g["facts"]["impl"][child] if p in g["facts"]["impl"] and g["facts"]["impl"][p])
        grand = g["facts"]["impl"][parent][0]
        c1["facts"]["impl"][child] = [x for x in g["facts"]["impl"][child] if x != grand]
        c2 = dict(g)
        c2["valid"] = False
        can = os.path.join(chk.work, "canary_trace.ndjson")
        vlib.write_ndjson(can, [g, c1, c2])
        cb = vlib.trace_validate(chk, "Trace_Smith", "Trace_Smith.cfg", can, 3, timeout=600, xmx="2g")
        got = {b[0]: set(b[1]) for b in cb}
        if 1 in got or "C32-document-implements-closure" not in got.get(2, set()) or got.get(3) != {"C32-document-invalid"}:
            chk.canary_failed.append("canary (closure entry removed / verdict flipped): got %s" % cb)
    seen = set()
    for l, fails in bad:
        row = rows[l - 1]
        cause = cause_of(row)
        for f in sorted(fails):
            key = (f, cause, row.get("schema"))
            if key in seen:
                continue
            seen.add(key)
            chk.violation({"class": f, "what": row["what"], "cause": cause, "schema": row.get("schema", -1)},
                          {"reproduce": "vh smith-record --seed %s --count %d --ops %d --start %s (first line)" % (chk.seed, count, ops, row.get("item")), "bytes_hex_first_4000": row.get("bytes"), "len": row.get("len"), "limits": row.get("limits"), "message": row.get("message"), "panic": row.get("panic"),
                           "depth": row.get("depth"), "text": (row.get("text") or "")[:3000], "rc": row.get("rc")})
    docs = [r for r in rows if r["what"] == "document"]
    ops_rows = [r for r in rows if r["what"] == "operation"]
    chk.cov["traces_validated_against_impl"] = len(rows)
    chk.cov["evaluations"] = len(rows)
    chk.cov["documents_returned"] = sum(1 for r in docs if not r.get("exhausted") and "died" not in r and not r.get("crash"))
    chk.cov["documents_exhausted"] = sum(1 for r in docs if r.get("exhausted"))
    chk.cov["operations_returned"] = sum(1 for r in ops_rows if not r.get("exhausted") and "died" not in r and not r.get("crash"))
    chk.cov["processes_died"] = sum(1 for r in rows if "died" in r)
    chk.cov["distinct_nontrivial"] = chk.cov["documents_returned"] + chk.cov["operations_returned"]
    s = next(r for r in docs if r.get("text"))
    chk.sample({"len": s["len"], "limits": s["limits"], "text": s["text"][:400]})
    chk.cov["rule"] = "Byte strings of lengths 0..20000 in five entropy classes x default / small limits; operations against four parsed schemas; non-trivial = generation returned a document / operation."
    chk.assumptions += ["validity is apollo-compiler's own verdict (C14 / C17 decide that separately)",
                        "SmithDoc.tla abstracts field types, arguments, directives and values: it names the structural guarantee that broke, the verdicts decide"]
    return chk.finish()


def replay(chk, path):
    return run(chk)
