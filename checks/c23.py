"""C23 — schema coordinates parse, print and resolve correctly.

Coordinate.tla: the five coordinate forms over LexGrammar's Name, Parse / Print (model-level: mutually inverse on
every enumerated string) and Lookup in an abstract schema.
spec -> impl: every string up to the bound over {a, B, 1, _, ., @, (, ), :, é, space} with its reference parse —
SchemaCoordinate::from_str, the five specific FromStr impls, Display, re-parse — and every coordinate over a name
universe looked up in a fixed schema (element kind and names, or an error).
impl -> spec: longer seeded random strings with the real parse / print results validated by TLC.
"""
import json
import os

import vlib


def run(chk):
    work = chk.work
    cfgs = ["MC_Coordinate_q.cfg"] if chk.quick else ["MC_Coordinate_t2.cfg", "MC_Coordinate_t.cfg"]
    total = 0
    nontrivial = 0
    bad = []
    for cfg in cfgs:
        cases = os.path.join(work, "cases.ndjson")
        n = [0]
        with open(cases, "w") as fo:
            def on_json(v):
                if v and v[0] in ("STR", "LOOKUP"):
                    fo.write(json.dumps(v, separators=(",", ":")) + "\n")
                    n[0] += 1
                    if (v[0] == "LOOKUP" and n[0] % 37 == 0 and len(chk.cov["samples"]) < 2) or (v[0] == "STR" and v[2][0] != "invalid" and len(v[1]) > 4 and len(chk.cov["samples"]) < 4):
                        chk.sample({"tlc_case": v})
            r = vlib.tlc("MC_Coordinate", cfg, work, workers=10, on_json=on_json, timeout=6000)
        vlib.tlc_must_pass(r, cfg)
        chk.add_tlc(r)
        summary, b = vlib.replay_cases(chk, ["coord-replay"], cases)
        total += summary["cases"]
        nontrivial += summary["nontrivial"]
        bad += b
        os.remove(cases)
    vlib.canary_replay(chk, ["coord-replay"], ["STR", [97, 46, 97], ["invalid"]], "valid coordinate declared invalid")
    vlib.canary_replay(chk, ["coord-replay"], ["LOOKUP", ["type", "Q"], ["error"]], "existing type declared missing")
    chk.stage("enumeration")
    trace = os.path.join(work, "trace.ndjson")
    vlib.vh(["coord-record", "--seed", chk.seed, "--count", 3000 if chk.quick else 100000], stdout_path=trace)
    rows = list(vlib.read_ndjson(trace))
    badl = vlib.trace_validate(chk, "Trace_Coordinate", "Trace_Coordinate.cfg", trace, len(rows), timeout=6000)
    for l in badl:
        row = rows[l - 1]
        bad.append({"kind": "str-recorded", "text": "".join(map(chr, row["str"])), "cps": row["str"], "why": ["recorded parse/print result differs from the reference"]})
    good = [r for r in rows if r["parsed"][0] != "invalid"]
    c = json.loads(json.dumps(good[0]))
    c["parsed"] = ["invalid"]
    vlib.canary_trace(chk, "Trace_Coordinate", "Trace_Coordinate.cfg", good[0], c, "recorded parse dropped")
    chk.sample({"recorded": good[len(good) // 2]})
    chk.stage("trace")
    bad.sort(key=lambda r: (len(r["cps"]), r["cps"]))
    for row in bad[:8]:
        chk.violation({"class": "coordinate-" + row["kind"], "text": row["text"]}, {"why": row["why"]})
    chk.cov["traces_validated_against_impl"] = total + len(rows)
    chk.cov["evaluations"] = total + len(rows)
    chk.cov["distinct_nontrivial"] = nontrivial + len(good)
    chk.cov["exhaustive"] = True
    chk.cov["rule"] = ("All strings up to the bound over 11 character classes, all 7x4x3 + 3x3 + ... coordinates over a name universe "
                       "against a fixed schema, seeded random longer strings. Non-trivial = a valid coordinate or a lookup.")
    chk.assumptions += ["the fixed schema of the harness (coord.rs SDL) is the abstract TheSchema of MC_Coordinate.tla"]
    return chk.finish()


def replay(chk, path):
    d = json.load(open(path))
    text = d["core"]["text"]
    trace = os.path.join(chk.work, "t.ndjson")
    inp = os.path.join(chk.work, "in.ndjson")
    raise vlib.ToolError("replay: run `vh coord-record` on %r" % text)
