"""C27 — async execution does not depend on the schedule.

AsyncExec.tla: the executor is one task awaiting resolver futures / list-item streams in Execution.tla's call order;
future k returns Pending pending[k] times, registering the task's waker each time; Poll / Wake actions.  Model
checked for every pending assignment: NoLostWakeup, Sequential (a future is created only after all earlier ones
are ready — in particular mutation root fields), ScheduleIndependent (the observable log does not depend on the
pending counts) and termination under weak fairness.
spec -> impl: every pending assignment of the model is a schedule; for the requests of C26 the harness runs
execute_async on its own executor, which polls the task ONLY after its waker was invoked, with resolver futures
and list-item streams that return Pending the prescribed number of times; required: response = execute_sync's,
same resolver call order, never two resolver futures alive, no hang (a suspended task with no pending waker is a
lost wake-up).  impl -> spec: event traces (Create / Pending / Wake / Ready) validated by Trace_AsyncExec.
"""
import json
import os

import vlib


def run(chk):
    work = chk.work
    sched = os.path.join(work, "sched.ndjson")
    n_s, r = vlib.tlc_emit_cases(chk, "MC_AsyncExec", "MC_AsyncExec_q.cfg" if chk.quick else "MC_AsyncExec_t.cfg", sched, tag="SCHED", workers=4, timeout=3000, sample_every=40)
    cases = os.path.join(work, "cases.ndjson")
    n_c, r2 = vlib.tlc_emit_cases(chk, "MC_Execution", "MC_Execution.cfg", cases, timeout=3000, sample_every=100000)
    chk.stage("model")
    res = os.path.join(work, "res.ndjson")
    vlib.vh(["async-replay", "--schedules", sched, "--every", 5 if chk.quick else 1, "--trace", 3000 if chk.quick else 30000, "--seed", chk.seed],
            stdin_path=cases, stdout_path=res, timeout=7000)
    bad, traces, summary = [], [], {}
    for row in vlib.read_ndjson(res):
        if row.get("summary"):
            summary = row
        elif row.get("bad"):
            bad.append(row)
        elif row.get("trace"):
            traces.append({"events": row["events"], "hang": row["hang"]})
    tpath = os.path.join(work, "trace.ndjson")
    vlib.write_ndjson(tpath, traces)
    badl = vlib.trace_validate(chk, "Trace_AsyncExec", "Trace_AsyncExec.cfg", tpath, len(traces), timeout=6000)
    good = next(t for t in traces if any(e["e"] == "Pending" for e in t["events"]))
    c = json.loads(json.dumps(good))
    c["events"] = [e for e in c["events"] if e["e"] != "Wake"]
    vlib.canary_trace(chk, "Trace_AsyncExec", "Trace_AsyncExec.cfg", good, c, "Wake events removed")
    chk.sample({"trace": good["events"][:12]})
    chk.stage("replay")
    seen = set()
    for row in sorted(bad, key=lambda r: len(json.dumps(r["sels"]))):
        key = row["why"][0].split(":")[0][:60]
        if key in seen:
            continue
        seen.add(key)
        chk.violation({"class": key, "op": row["op"]}, {"schedule": row["schedule"], "sels": row["sels"], "world": row["world"], "why": row["why"]})
    for l, f in badl[:5]:
        chk.violation({"class": "trace-rejected", "fails": sorted(f)}, {"events": traces[l - 1]["events"][:40]})
    chk.cov["traces_validated_against_impl"] = summary.get("runs", 0) + len(traces)
    chk.cov["evaluations"] = summary.get("runs", 0)
    chk.cov["distinct_nontrivial"] = sum(1 for t in traces if any(e["e"] == "Pending" for e in t["events"]))
    chk.cov["schedules_from_model"] = n_s
    chk.cov["rule"] = ("Requests of C26 (every k-th in quick) x all pending assignments of the model (P+1)^K plus random long ones; "
                       "distinct_nontrivial = traced runs in which at least one future returned Pending.")
    chk.assumptions += ["the harness executor is the only executor: it polls exactly when the task's waker was invoked",
                        "wakes are delivered one at a time in FIFO order (there is at most one pending future because execution is sequential)"]
    return chk.finish()


def replay(chk, path):
    return run(chk)
