"""X03 (beyond the listed properties) — CoerceArgumentValues.

ArgCoercion.tla: section 6.4.1 of the October 2021 specification with the input coercion of literals that contain
variables (3.10, 3.11): an argument / input field whose value is a variable WITHOUT a runtime value counts as not
given (default value, error if required, absent otherwise); inside a list it is null.  TLC checks the reference's own
guarantee over the whole universe (what reaches a resolver conforms to the argument's type; a required argument is
never absent) and prints the expected outcome of every case; the harness renders schema + operation, lets the real
validator and the real CoerceVariableValues decide whether the case is a valid request at all, executes it, and compares
the arguments the resolver received (or the field error).
"""
import os

import vlib


def cause_of(row):
    """Model-level attribution: where does a variable without a runtime value stand in the literal?"""
    if row["prov"][0] != "missing" or row["decl"] != "Int":
        return "other"

    def positions(lit, inside):
        if lit[0] == "var":
            yield inside
        elif lit[0] == "list":
            for it in lit[1]:
                yield from positions(it, "list-item")
        elif lit[0] == "obj":
            for f in lit[1]:
                yield from positions(f[1], "input-field")
    pos = set(positions(row["usage"], "argument")) if row["usage"][0] != "absent" else set()
    return "missing-variable-in-input-field" if pos == {"input-field"} else "other"


def run(chk):
    cases = os.path.join(chk.work, "cases.ndjson")
    n, r = vlib.tlc_emit_cases(chk, "MC_ArgCoercion", "MC_ArgCoercion.cfg", cases, workers=2, timeout=1200, sample_every=40)
    summary, bad = vlib.replay_cases(chk, ["argc-replay"], cases)
    vlib.canary_replay(chk, ["argc-replay"],
                       ["CASE", {"type": ["named", "Int"], "default": ["some", ["int", 4]]}, ["absent"], "none", ["missing"], ["absent"]],
                       "default value removed from the expectation")
    seen = set()
    for row in bad:
        core = {"class": "argument-coercion", "cause": cause_of(row), "argtype": row["argdef"]["type"], "usage": row["usage"]}
        key = (core["cause"], str(core["argtype"]), str(core["usage"]))
        if key in seen:
            continue
        seen.add(key)
        chk.violation(core, {"decl": row["decl"], "prov": row["prov"], "want": row["want"], "got": row["got"], "why": row["why"]})
    valid = summary.get("cases", 0) - summary.get("skipped", 0)
    if valid < n // 3:
        raise vlib.ToolError("only %d of %d model cases are valid requests for the real validator" % (valid, n))
    chk.cov["traces_validated_against_impl"] = valid
    chk.cov["evaluations"] = valid
    chk.cov["distinct_nontrivial"] = valid
    chk.cov["model_cases"] = n
    chk.cov["skipped_invalid_for_the_real_validator"] = summary.get("skipped", 0)
    chk.cov["exhaustive"] = True
    chk.cov["rule"] = ("12 argument definitions x 20 ways of writing the argument (literals with a variable at argument, list-item and "
                       "input-field positions) x 4 variable declarations x 3 provided values, structurally typed; the real validator skips the rest.")
    chk.assumptions += ["validation (C17) and variable coercion (C28) are taken from the real code: a case they reject is not a request"]
    return chk.finish()


def replay(chk, path):
    return run(chk)
