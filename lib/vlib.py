"""Common machinery of the /verif checks: harness build, TLC runs, known findings, evidence.

Exit codes of a check: 0 property held on everything explored (KNOWN-FINDING lines allowed),
1 with a `VIOLATION property=<id> replay=<path>` line, 2 tool error.
"""
import fcntl
import hashlib
import json
import os
import re
import shutil
import subprocess
import sys
import time

VERIF = os.path.dirname(os.path.dirname(os.path.abspath(__file__)))
SPEC = os.path.join(VERIF, "spec")
HARNESS = os.path.join(VERIF, "harness")
VH = os.path.join(HARNESS, "target", "debug", "vh")
REPO = "/repo"


class ToolError(Exception):
    pass


def log(*a):
    print(*a, flush=True)


def sh(cmd, **kw):
    return subprocess.run(cmd, **kw)


# --------------------------------------------------------------------------- harness


def build_harness():
    """(Re)build the harness against /repo's current working tree, hooks on."""
    os.makedirs(os.path.join(VERIF, "work"), exist_ok=True)
    lock = open(os.path.join(VERIF, "work", ".build.lock"), "w")
    fcntl.flock(lock, fcntl.LOCK_EX)
    try:
        lockfile = os.path.join(HARNESS, "Cargo.lock")
        if not os.path.exists(lockfile):
            shutil.copy(os.path.join(REPO, "Cargo.lock"), lockfile)
        env = dict(os.environ, CARGO_NET_OFFLINE="true")
        t0 = time.time()
        p = sh(["cargo", "build", "--offline", "--quiet"], cwd=HARNESS, env=env,
               stdout=subprocess.PIPE, stderr=subprocess.STDOUT, text=True)
        if p.returncode != 0:
            log(p.stdout[-4000:])
            raise ToolError("harness build failed")
        return time.time() - t0
    finally:
        fcntl.flock(lock, fcntl.LOCK_UN)
        lock.close()


def vh(args, stdin_path=None, stdout_path=None, timeout=3600, env=None, check=True):
    """Run the harness binary. Returns CompletedProcess (stdout captured unless redirected)."""
    e = dict(os.environ)
    e.setdefault("RUST_BACKTRACE", "0")
    if env:
        e.update(env)
    fin = open(stdin_path, "rb") if stdin_path else subprocess.DEVNULL
    fout = open(stdout_path, "wb") if stdout_path else subprocess.PIPE
    try:
        p = sh([VH] + [str(a) for a in args], stdin=fin, stdout=fout, stderr=subprocess.PIPE,
               timeout=timeout, env=e)
    except subprocess.TimeoutExpired:
        raise ToolError("harness timed out: %s" % (args,))
    finally:
        if stdin_path:
            fin.close()
        if stdout_path:
            fout.close()
    if check and p.returncode != 0:
        sys.stderr.write(p.stderr.decode("utf8", "replace")[-4000:])
        raise ToolError("harness failed (%d): %s" % (p.returncode, args))
    return p


# --------------------------------------------------------------------------- TLC


class TLCResult:
    def __init__(self):
        self.generated = 0
        self.distinct = 0
        self.depth = 0
        self.ok = False
        self.violated = None  # name of violated invariant / property
        self.error_text = ""
        self.printed = []  # decoded JSON values printed with PrintT(ToJson(..))
        self.raw_path = None
        self.wall = 0.0
        self.coverage = {}  # action name -> (count, distinct)
        self.trace_text = ""


_STATS = re.compile(r"^(\d+) states generated, (\d+) distinct states found")
_SIMSTATS = re.compile(r"The number of states generated: (\d+)")
_DEPTH = re.compile(r"The depth of the complete state graph search is (\d+)")
_COV = re.compile(r"^<(\w+) line \d+, col \d+ to line \d+, col \d+ of module (\w+)>: (\d+):(\d+)")


def tlc(module, cfg, workdir, consts_env=None, workers=8, simulate=None, depth=None,
        timeout=1800, coverage=False, deque=False, xmx="8g", keep_printed=True, seed=None,
        extra=None, on_json=None):
    """Run TLC on spec/<module>.tla with spec/<cfg>. Output is streamed to a file and parsed.

    Lines printed by PrintT(ToJson(v)) are decoded and either kept in result.printed or handed
    to on_json(value).
    """
    os.makedirs(workdir, exist_ok=True)
    meta = os.path.join(workdir, "tlc_meta_%s" % os.path.splitext(os.path.basename(cfg))[0])
    shutil.rmtree(meta, ignore_errors=True)
    out_path = os.path.join(workdir, "tlc_%s.out" % os.path.splitext(os.path.basename(cfg))[0])
    jopts = "-Xss1g"
    if deque:
        jopts += " -Dtlc2.tool.queue.IStateQueue=StateDeque"
    env = dict(os.environ)
    env["JAVA_TOOL_OPTIONS"] = jopts
    if consts_env:
        env.update({k: str(v) for k, v in consts_env.items()})
    cmd = ["java", "-XX:+UseParallelGC", "-Xmx" + xmx,
           "-cp", "/opt/veriftools/tla/tla2tools.jar:/opt/veriftools/tla/CommunityModules-deps.jar",
           "-DTLA-Library=" + SPEC,
           "tlc2.TLC", "-workers", str(workers), "-metadir", meta, "-noGenerateSpecTE",
           "-config", os.path.join(SPEC, cfg)]
    if simulate:
        cmd += ["-simulate", "num=%d" % simulate]
        if depth:
            cmd += ["-depth", str(depth)]
        if seed is not None:
            cmd += ["-seed", str(seed)]
    if coverage:
        cmd += ["-coverage", "1"]
    if extra:
        cmd += extra
    cmd += [os.path.join(SPEC, module + ".tla")]
    r = TLCResult()
    r.raw_path = out_path
    t0 = time.time()
    with open(out_path, "wb") as fo:
        try:
            p = sh(cmd, stdout=fo, stderr=subprocess.STDOUT, env=env, cwd=workdir, timeout=timeout)
        except subprocess.TimeoutExpired:
            raise ToolError("TLC timed out on %s/%s" % (module, cfg))
    r.wall = time.time() - t0
    err_lines = []
    in_err = False
    with open(out_path, "r", errors="replace") as f:
        for line in f:
            if line.startswith('"') and line.rstrip().endswith('"'):
                try:
                    v = json.loads(json.loads(line))
                except Exception:
                    continue
                if on_json:
                    on_json(v)
                elif keep_printed:
                    r.printed.append(v)
                continue
            m = _STATS.match(line)
            if m:
                r.generated, r.distinct = int(m.group(1)), int(m.group(2))
                continue
            m = _SIMSTATS.search(line)
            if m:
                r.generated = r.distinct = int(m.group(1))
                continue
            m = _DEPTH.search(line)
            if m:
                r.depth = int(m.group(1))
                continue
            m = _COV.match(line)
            if m:
                name = m.group(1)
                c, d = int(m.group(3)), int(m.group(4))
                pc, pd = r.coverage.get(name, (0, 0))
                r.coverage[name] = (max(pc, c), max(pd, d))
                continue
            if line.startswith("Error:") or in_err:
                in_err = True
                err_lines.append(line)
                m2 = re.search(r"Invariant (\w+) is violated", line)
                if m2:
                    r.violated = m2.group(1)
                m2 = re.search(r"Action property (\w+) is violated|Temporal properties were violated", line)
                if m2:
                    r.violated = m2.group(1) or "temporal"
    r.error_text = "".join(err_lines)[:20000]
    text_ok = "Model checking completed. No error has been found." in open(out_path, errors="replace").read() \
        if not simulate else (p.returncode == 0)
    r.ok = (p.returncode == 0) and bool(text_ok) and not err_lines
    r.returncode = p.returncode
    shutil.rmtree(meta, ignore_errors=True)
    return r


_EVAL = re.compile(r"Attempted to (check equality|compare|apply|select|access)|which is out of bounds|was not in the domain|not enumerable")


def recorded_line_not_evaluable(chk, r, offset, what):
    """A TRACE specification met a recorded line it cannot evaluate (TLC raises an evaluation error, it does not answer
    FALSE, when for instance a record is compared with a string). On recorded output of the real code that is a
    disagreement between what the code produced and the shape the specification expects: it is reported as a violation
    naming the line, not as a tool error (on the unchanged tree it never happens; both would count against the check).
    Returns True if the failure of `r` is of that kind."""
    if r.ok or not _EVAL.search(r.error_text or ""):
        return False
    m = re.findall(r"/\\ l = (\d+)", r.error_text or "")
    line = (int(m[-1]) if m else 0) + offset
    msg = " ".join((r.error_text or "").split())[:600]
    chk.violation({"class": "%s-recorded-line-not-evaluable" % chk.pid, "spec": what}, {"line": line, "tlc_error": msg})
    chk.not_evaluable = True
    return True


def tlc_must_pass(r, what):
    if not r.ok:
        tail = ""
        try:
            tail = "".join(open(r.raw_path, errors="replace").readlines()[-40:])
        except Exception:
            pass
        raise ToolError("TLC did not complete cleanly for %s (rc=%s)\n%s\n%s" % (what, getattr(r, "returncode", "?"), r.error_text[:3000], tail[-3000:]))


# --------------------------------------------------------------------------- findings


def load_known():
    p = os.path.join(VERIF, "known_findings.json")
    if not os.path.exists(p):
        return {"findings": [], "fixed": []}
    return json.load(open(p))


def _match(pattern, core):
    for k, v in pattern.items():
        if k not in core:
            return False
        cv = core[k]
        if isinstance(v, dict) and "any_of" in v:
            if cv not in v["any_of"]:
                return False
        elif cv != v:
            return False
    return True


class Check:
    """One run of one property's check."""

    def __init__(self, pid, tier, seed):
        self.pid = pid
        self.tier = tier
        self.seed = seed
        self.t0 = time.time()
        self.work = os.path.join(VERIF, "work", pid)
        shutil.rmtree(self.work, ignore_errors=True)
        os.makedirs(self.work, exist_ok=True)
        os.makedirs(os.path.join(VERIF, "replays"), exist_ok=True)
        os.makedirs(os.path.join(VERIF, "evidence"), exist_ok=True)
        self.known = [f for f in load_known()["findings"] if f["property"] == pid]
        self.known_hit = {}
        self.violations = []
        self.cov = {"states": 0, "transitions": 0, "traces_validated_against_impl": 0,
                    "evaluations": 0, "distinct_nontrivial": 0, "samples": [], "rule": "",
                    "exhaustive": False}
        self.assumptions = []
        self.notes = []
        self.drift = []
        self.canary_failed = []   # a canary that is not rejected is a tool error unless real violations were found

    @property
    def quick(self):
        return self.tier == "quick"

    # -- accounting
    def add_tlc(self, r):
        self.cov["states"] += r.distinct
        self.cov["transitions"] += r.generated

    def sample(self, s, limit=6):
        if len(self.cov["samples"]) < limit:
            self.cov["samples"].append(s)

    def stage(self, name):
        now = time.time()
        last = getattr(self, "_stage_t", self.t0)
        self.cov.setdefault("stage_seconds", {})[name] = round(now - last, 1)
        self._stage_t = now

    def note(self, s):
        self.notes.append(s)
        log("  note:", s)

    def model_drift(self, s):
        self.drift.append(s)
        log("MODEL-DRIFT property=%s %s" % (self.pid, s))

    # -- violations
    def violation(self, core, detail=None):
        """Report an observed violation. `core` is the minimal, normalised description used for
        matching known findings; `detail` is anything useful to replay."""
        for f in self.known:
            if _match(f["match"], core):
                self.known_hit.setdefault(f["id"], [f, 0, core])
                self.known_hit[f["id"]][1] += 1
                return False
        key = hashlib.sha1(json.dumps(core, sort_keys=True).encode()).hexdigest()[:12]
        if any(v[0] == key for v in self.violations):
            return True
        path = os.path.join(VERIF, "replays", "%s-%s.json" % (self.pid, key))
        with open(path, "w") as f:
            json.dump({"property": self.pid, "core": core, "detail": detail, "seed": self.seed,
                       "tier": self.tier}, f, indent=1, ensure_ascii=False)
        self.violations.append((key, path, core))
        return True

    # -- finish
    def finish(self, level="model_checking", extra_cov=None):
        cov = dict(self.cov)
        if extra_cov:
            cov.update(extra_cov)
        if self.drift:
            cov["model_drift"] = self.drift[:20]
        if self.notes:
            cov["notes"] = self.notes[:40]
        cov["known_findings_hit"] = {k: v[1] for k, v in self.known_hit.items()}
        ev = {
            "property_id": self.pid,
            "tier": self.tier,
            "seed": self.seed,
            "level": level,
            "coverage": cov,
            "assumptions": self.assumptions,
            "wall_s": round(time.time() - self.t0, 2),
            "violations": len(self.violations),
        }
        # checks beyond the listed properties (ids X..) keep their evidence apart from the per-property evidence files
        edir = "evidence_extra" if self.pid.startswith("X") else "evidence"
        os.makedirs(os.path.join(VERIF, edir), exist_ok=True)
        with open(os.path.join(VERIF, edir, self.pid + ".json"), "w") as f:
            json.dump(ev, f, indent=1, ensure_ascii=False)
        for fid, (f, n, core) in sorted(self.known_hit.items()):
            log("KNOWN-FINDING: property=%s %s (%s; %d occurrence(s) this run)" % (self.pid, f["what"], fid, n))
        shown = 0
        for key, path, core in self.violations:
            if shown < 10:
                log("VIOLATION property=%s replay=%s" % (self.pid, path))
                log("  core: %s" % json.dumps(core, ensure_ascii=False)[:600])
            shown += 1
        if shown > 10:
            log("  ... %d violations in total" % shown)
        log("%s %s: states=%d transitions=%d validated=%d evaluations=%d violations=%d known=%d wall=%.1fs" % (
            self.pid, self.tier, cov["states"], cov["transitions"], cov["traces_validated_against_impl"],
            cov["evaluations"], len(self.violations), len(self.known_hit), time.time() - self.t0))
        shutil.rmtree(self.work, ignore_errors=True)
        if self.violations:
            return 1
        if self.canary_failed:
            raise ToolError("; ".join(self.canary_failed))
        return 0


def read_ndjson(path, tolerant=False):
    with open(path, "r", encoding="utf8", errors="replace") as f:
        for line in f:
            line = line.strip()
            if line:
                try:
                    yield json.loads(line)
                except ValueError:
                    if not tolerant:      # a truncated last line of a process that died
                        raise


def write_ndjson(path, rows):
    n = 0
    with open(path, "w", encoding="utf8") as f:
        for r in rows:
            f.write(json.dumps(r, ensure_ascii=False, separators=(",", ":")))
            f.write("\n")
            n += 1
    return n


# --------------------------------------------------------------------------- generic oracle flow


def tlc_emit_cases(chk, module, cfg, out_path, tag="CASE", workers=8, timeout=3000, sample_every=997, consts_env=None):
    """Run a case-emitting MC configuration, write the printed cases (one JSON per line)."""
    n = [0]
    with open(out_path, "w", encoding="utf8") as fo:
        def on_json(v):
            if v and v[0] == tag:
                fo.write(json.dumps(v, separators=(",", ":"), ensure_ascii=False) + "\n")
                n[0] += 1
                if n[0] % sample_every == 1:
                    chk.sample({"tlc_case": v[1:]})
        r = tlc(module, cfg, chk.work, workers=workers, on_json=on_json, timeout=timeout, consts_env=consts_env)
    tlc_must_pass(r, cfg)
    chk.add_tlc(r)
    return n[0], r


def replay_cases(chk, cmd, cases_path):
    """Harness replay: returns (summary dict, bad rows)."""
    res = os.path.join(chk.work, "replay_res.ndjson")
    vh(cmd, stdin_path=cases_path, stdout_path=res)
    summary = {}
    bad = []
    for row in read_ndjson(res):
        if row.get("summary"):
            summary = row
        elif row.get("bad"):
            bad.append(row)
    os.remove(res)
    return summary, bad


def trace_validate(chk, module, cfg, trace_path, n_rows, timeout=3000, xmx="6g", env=None):
    """Oracle-style trace spec printing ["RESULT", consumed, bad]; returns list of bad entries."""
    result = []
    e = {"TRACE": trace_path}
    if env:
        e.update(env)
    r = tlc(module, cfg, chk.work, consts_env=e, workers=1, on_json=lambda v: result.append(v),
            timeout=timeout, xmx=xmx)
    if recorded_line_not_evaluable(chk, r, 0, module):
        return []
    tlc_must_pass(r, module)
    chk.add_tlc(r)
    res = [v for v in result if v and v[0] == "RESULT"]
    if not res or res[0][1] != n_rows:
        raise ToolError("%s consumed %s of %d lines" % (module, res[0][1] if res else None, n_rows))
    return res[0][2]


def trace_validate_parallel(chk, module, cfg, rows, parts=8, timeout=3000, xmx="3g", env=None):
    """Split the rows over `parts` concurrent TLC runs (one worker each); bad entries get global 1-based lines."""
    import concurrent.futures
    n = len(rows)
    parts = max(1, min(parts, (n + 49) // 50))
    size = (n + parts - 1) // parts
    jobs = []
    for k in range(parts):
        chunk = rows[k * size:(k + 1) * size]
        if not chunk:
            continue
        wd = os.path.join(chk.work, "part%d" % k)
        os.makedirs(wd, exist_ok=True)
        tp = os.path.join(wd, "trace.ndjson")
        write_ndjson(tp, chunk)
        jobs.append((k * size, wd, tp, len(chunk)))

    def one(job):
        off, wd, tp, cnt = job
        result = []
        e = {"TRACE": tp}
        if env:
            e.update(env)
        r = tlc(module, cfg, wd, consts_env=e, workers=1, on_json=lambda v: result.append(v), timeout=timeout, xmx=xmx)
        if recorded_line_not_evaluable(chk, r, off, module):
            return r, []
        tlc_must_pass(r, module)
        res = [v for v in result if v and v[0] == "RESULT"]
        if not res or res[0][1] != cnt:
            raise ToolError("%s consumed %s of %d lines" % (module, res[0][1] if res else None, cnt))
        return r, [[b[0] + off, b[1]] for b in res[0][2]]

    bad = []
    with concurrent.futures.ThreadPoolExecutor(max_workers=len(jobs)) as ex:
        for r, b in ex.map(one, jobs):
            chk.add_tlc(r)
            bad += b
    return bad


def vh_resumable(args, total, out_path, timeout=3000):
    """Run a harness command that prints {"begin": k} before item k; when the process dies (stack overflow, abort) or
    hangs on an item, record {"died": k, ...begin fields} for it and restart at k + 1. Returns the rows."""
    rows = []
    start = 0
    while start < total:
        tmp = out_path + ".part"
        try:
            p = vh(args + ["--start", start], stdout_path=tmp, timeout=timeout, check=False)
            rc = p.returncode
        except ToolError:
            rc = -999
        last_begin = None
        pending = None
        for row in read_ndjson(tmp, tolerant=True):
            if "begin" in row:
                last_begin = row
                pending = row
                continue
            pending = None
            rows.append(row)
        if rc == 0:
            break
        if last_begin is None:
            raise ToolError("%s died (rc=%s) before its first item" % (args[0], rc))
        if pending is not None:
            d = dict(pending)
            d["died"] = d.pop("begin")
            d["rc"] = rc
            rows.append(d)
        start = last_begin["begin"] + 1
    return rows


def cached_trace_validate_parallel(chk, module, cfg, rows, spec_files, extra_files=(), group="group", **kw):
    """trace_validate_parallel whose verdict list is shared by the checks of one group (they evaluate the same specification
    on the same recorded lines). The key is made of the recorded lines — which contain everything the real code said —, the
    extra input files and the specification files; any change of code or specification changes the key."""
    import hashlib
    h = hashlib.sha256()
    h.update(json.dumps(rows, sort_keys=True).encode())
    for f in list(extra_files) + [os.path.join(SPEC, m) for m in list(spec_files) + [module + ".tla", cfg]]:
        h.update(open(f, "rb").read())
    cache_dir = os.path.join(VERIF, "work", "_cache")
    os.makedirs(cache_dir, exist_ok=True)
    cache = os.path.join(cache_dir, "%s_%s.json" % (group, h.hexdigest()[:32]))
    if os.path.exists(cache):
        c = json.load(open(cache))
        chk.cov["states"] += c["states"]
        chk.cov["transitions"] += c["transitions"]
        chk.note("TLC verdicts for these %d recorded lines reused from the %s cache (same lines, same specification)" % (len(rows), group))
        return c["bad"]
    s0, t0 = chk.cov["states"], chk.cov["transitions"]
    bad = trace_validate_parallel(chk, module, cfg, rows, **kw)
    if getattr(chk, "not_evaluable", False):
        return bad          # an incomplete verdict list is not shared with the other checks of the group
    tmp = cache + ".tmp%d" % os.getpid()
    json.dump({"bad": bad, "states": chk.cov["states"] - s0, "transitions": chk.cov["transitions"] - t0}, open(tmp, "w"))
    os.replace(tmp, cache)
    return bad


def canary_replay(chk, cmd, case, what):
    can = os.path.join(chk.work, "canary_case.ndjson")
    with open(can, "w", encoding="utf8") as f:
        f.write(json.dumps(case, ensure_ascii=False) + "\n")
    p = vh(cmd, stdin_path=can)
    if b'"bad":true' not in p.stdout:
        chk.canary_failed.append("canary (%s) not rejected by the comparator" % what)


def canary_trace(chk, module, cfg, good_row, bad_row, what, env=None):
    can = os.path.join(chk.work, "canary_trace.ndjson")
    write_ndjson(can, [good_row, bad_row])
    bad = trace_validate(chk, module, cfg, can, 2, timeout=600, xmx="2g", env=env)
    flat = [b[0] if isinstance(b, list) else b for b in bad]
    if flat != [2]:
        chk.canary_failed.append("canary (%s): expected exactly line 2 rejected, got %s" % (what, bad))
