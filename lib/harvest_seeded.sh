#!/bin/bash
# harvest_seeded.sh <ID> <demo-path-relative-to-worktree>... : copy an agent's change out of /tmp/wt/<ID> into /verif/seeded/<ID>/
set -eu
ID=$1; shift
WT=/tmp/wt/$ID
D=/verif/seeded/$ID
mkdir -p $D
git -C $WT diff -- . ':(exclude)crates/*/examples/*' > $D/patch.diff
for f in "$@"; do cp $WT/$f $D/; done
echo "patch: $(grep -c '^[-+][^-+]' $D/patch.diff) changed lines in $(grep -c '^diff' $D/patch.diff) file(s)"
