"""Shared flow for C17 / C18 / C20 (executable-document rules, ExecRules.tla)."""
import json
import os

import vlib

FIELDS = ("schema", "doc", "ok", "standalone", "typing", "iter")


def run_doc_cases(chk):
    raw = os.path.join(chk.work, "doc_cases.ndjson")
    schemas = os.path.join(chk.work, "schemas.ndjson")
    vlib.vh(["doc-cases", "--seed", chk.seed, "--depth2", 150 if chk.quick else 6000, "--every", 2 if chk.quick else 1, "--merge-every", 4 if chk.quick else 1,
             "--schemas-out", schemas], stdout_path=raw, timeout=7000)
    allrows = list(vlib.read_ndjson(raw))
    crashes = [r for r in allrows if "crash" in r]
    skipped = [r for r in allrows if "skipped" in r]
    rows = [r for r in allrows if "doc" in r]
    chk.note("%d documents; %d not expressible as text or syntactically rejected (skipped); %d crashes" % (len(rows), len(skipped), len(crashes)))
    bad = vlib.cached_trace_validate_parallel(chk, "Trace_ExecRules", "Trace_ExecRules.cfg", [{k: r[k] for k in FIELDS if k in r} for r in rows],
                                              ["ExecRules.tla", "SchemaRules.tla", "TypeCompat.tla"], extra_files=[schemas], group="C17-C18-C20",
                                              parts=12, env={"SCHEMAS": schemas}, timeout=7000)
    g = {k: rows[0][k] for k in FIELDS if k in rows[0]}
    c = dict(g)
    c["ok"] = not g["ok"]
    c["standalone"] = False
    k = next(i for i, f in enumerate(g["typing"]) if f[0] == "field")
    c["typing"] = [f if i != k else [f[0], f[1], f[2], ["named", "Nope"], f[4]] for i, f in enumerate(g["typing"])]
    can = os.path.join(chk.work, "canary_trace.ndjson")
    vlib.write_ndjson(can, [g, c])
    cb = vlib.trace_validate(chk, "Trace_ExecRules", "Trace_ExecRules.cfg", can, 2, timeout=600, xmx="2g", env={"SCHEMAS": schemas})
    got = {f for b in cb if b[0] == 2 for f in b[1]}
    if any(b[0] == 1 for b in cb) or not ({"C17-rejects-valid", "C20-standalone-rejects-valid", "C18-field-definition-or-selection-type"} <= got):
        chk.canary_failed.append("canary (verdicts and one typing fact of the first seed corrupted): got %s" % cb)
    return rows, bad, crashes
