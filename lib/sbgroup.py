"""Shared flow for C12 / C13 (schema builder histories)."""
import json
import os

import vlib

UNIVERSES = ["Object", "Interface", "UnionEnum", "ScalarInput", "Schema", "Directives"]


def run_histories(chk):
    sfx = "_q" if chk.quick else "_t"
    total = 0
    clean = 0
    bad = []
    for u in UNIVERSES:
        cases = os.path.join(chk.work, "cases.ndjson")
        n, r = vlib.tlc_emit_cases(chk, "MC_SchemaBuilder", "MC_SchemaBuilder_%s%s.cfg" % (u, sfx), cases, timeout=6000, sample_every=1500)
        summary, b = vlib.replay_cases(chk, ["sb-replay"], cases)
        total += summary["cases"]
        clean += summary["clean"]
        for row in b:
            row["universe"] = u
        bad += b
        if u == "Object":
            # canary: claim a different member order for one history with a clean build
            with open(cases) as f:
                for line in f:
                    v = json.loads(line)
                    if not v[2]["errors"] and v[2]["order"]["types"] and len(v[2]["order"]["types"][0]["mems"]) >= 2:
                        m = v[2]["order"]["types"][0]["mems"]
                        v[2]["order"]["types"][0]["mems"] = m[1:] + m[:1]
                        vlib.canary_replay(chk, ["sb-replay"], v, "rotated member order in the model's expectation")
                        break
        os.remove(cases)
    return total, clean, bad


def run_corpus(chk, prop):
    trace = os.path.join(chk.work, "corpus.ndjson")
    vlib.vh(["sb-corpus", "--seed", chk.seed, "--rounds", 2 if chk.quick else 12], stdout_path=trace)
    rows = [r for r in vlib.read_ndjson(trace) if r["prop"] in (prop, 0)]
    path = os.path.join(chk.work, "monitor.ndjson")
    vlib.write_ndjson(path, [{"kind": r["kind"], "pairs": r["pairs"], "flags": r["flags"]} for r in rows])
    badl = vlib.trace_validate(chk, "Trace_Monitor", "Trace_Monitor.cfg", path, len(rows), timeout=6000)
    good = [r for r in rows if r["pairs"]]
    if good:
        g = {"kind": good[0]["kind"], "pairs": good[0]["pairs"], "flags": good[0]["flags"]}
        c = json.loads(json.dumps(g))
        c["pairs"][0][2] = {"corrupted": True}
        vlib.canary_trace(chk, "Trace_Monitor", "Trace_Monitor.cfg", g, c, "one observation of a pair corrupted")
    out = []
    for l, fails in badl:
        out.append((rows[l - 1], sorted(fails)))
    return len(rows), out
