"""Shared flow for C14 / C15 (schema rules)."""
import json
import os

import vlib


def run_schema_cases(chk):
    raw = os.path.join(chk.work, "schema_cases.ndjson")
    vlib.vh(["schema-cases", "--seed", chk.seed, "--depth2", 60 if chk.quick else 3000, "--until-valid", 40 if chk.quick else 1500], stdout_path=raw, timeout=7000)
    rows = list(vlib.read_ndjson(raw))
    trace = os.path.join(chk.work, "schema_trace.ndjson")
    vlib.write_ndjson(trace, [{"schema": r["schema"], "ok": r["ok"], "presentScalars": r["presentScalars"], "checkScalars": r["checkScalars"]} for r in rows])
    bad = vlib.cached_trace_validate_parallel(chk, "Trace_SchemaRules", "Trace_SchemaRules.cfg", list(vlib.read_ndjson(trace)),
                                              ["SchemaRules.tla", "TypeCompat.tla"], group="C14-C15", parts=8, timeout=7000)
    # canary: flip the verdict of the first seed
    g = {"schema": rows[0]["schema"], "ok": rows[0]["ok"], "presentScalars": rows[0]["presentScalars"], "checkScalars": rows[0]["checkScalars"]}
    c = dict(g)
    c["ok"] = not g["ok"]
    c["checkScalars"] = False
    vlib.canary_trace(chk, "Trace_SchemaRules", "Trace_SchemaRules.cfg", g, c, "verdict of a valid seed flipped")
    return rows, bad
