#!/usr/bin/env python3
"""Regenerate the seeded-change table of DESIGN.md (section 11.6) from seeded/*/meta.json."""
import glob
import json
import os
import re

V = os.path.dirname(os.path.dirname(os.path.abspath(__file__)))
rows = []
for p in sorted(glob.glob(os.path.join(V, "seeded", "*", "meta.json"))):
    m = json.load(open(p))
    d = os.path.basename(os.path.dirname(p))
    rows.append("| `seeded/%s` | %s | %s | %s | %s |" % (d, m["breaks"], m["summary"].replace("|", "/"), m["needs"].replace("|", "/"),
                                                       ("caught on the first run" if m["first_run"] == "caught" else "**missed at first**; ") + (" — " if m["first_run"] == "caught" else "") + m["caught_by"].replace("|", "/")))
table = "| change | property | what it does | what it needs to show | caught by |\n|---|---|---|---|---|\n" + "\n".join(rows)
p = os.path.join(V, "DESIGN.md")
s = open(p).read()
if "<!-- seeded:begin -->" in s:
    s = re.sub(r"<!-- seeded:begin -->.*<!-- seeded:end -->", "<!-- seeded:begin -->\n" + table.replace("\\", "\\\\") + "\n<!-- seeded:end -->", s, flags=re.S)
else:
    s = s.replace("SEEDED_TABLE", "<!-- seeded:begin -->\n" + table + "\n<!-- seeded:end -->")
open(p, "w").write(s)
print("%d seeded changes" % len(rows))
