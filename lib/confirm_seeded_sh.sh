#!/bin/bash
# confirm_seeded_sh.sh <ID> <crate> <demo.rs> <demo.sh> : as confirm_seeded.sh, for demonstrations driven by a shell script
# (many processes of one example binary, e.g. C22's determinism demonstrations).
set -u
ID=$1; CRATE=$2; DEMO=$3; SH=$4
WT=/tmp/wtc/$ID
OUT=/verif/seeded/$ID/confirm.txt
mkdir -p /tmp/wtc
git -C /repo worktree add -q $WT HEAD || exit 2
cd $WT
{
echo "== confirm $ID at $(git -C /repo log --format=%h -1)"
git apply /verif/seeded/$ID/patch.diff && echo "patch applies: yes"
cp /verif/seeded/$ID/$DEMO /verif/seeded/$ID/$SH crates/$CRATE/examples/
chmod +x crates/$CRATE/examples/$SH
cargo nextest run --workspace --no-fail-fast --offline 2>&1 | tail -2
echo "-- demo WITH change:"
crates/$CRATE/examples/$SH 2>&1 | tail -3; echo "exit=${PIPESTATUS[0]}"
git apply -R /verif/seeded/$ID/patch.diff
echo "-- demo WITHOUT change:"
crates/$CRATE/examples/$SH 2>&1 | tail -3; echo "exit=${PIPESTATUS[0]}"
} > $OUT 2>&1
cd /
git -C /repo worktree remove --force $WT
git -C /repo worktree prune
