"""Shared flows for the parser properties C01, C02, C04, C05, C07."""
import json
import os
import sys
import re

import vlib


def tlc_cases(chk, module, cfg, out_path, tag="CASE", workers=10, timeout=3000, sample_at=(50, 5000)):
    """Run a case-emitting MC configuration; write printed cases to out_path; return count."""
    n = [0]
    with open(out_path, "w") as fo:
        def on_json(v):
            if v and v[0] == tag:
                fo.write(json.dumps(v, separators=(",", ":"), ensure_ascii=False) + "\n")
                n[0] += 1
                if n[0] in sample_at:
                    chk.sample({"tlc_case": v[1:]})
        r = vlib.tlc(module, cfg, chk.work, workers=workers, on_json=on_json, timeout=timeout)
    vlib.tlc_must_pass(r, cfg)
    chk.add_tlc(r)
    return n[0], r


CONCRETE = {"n1": "a", "n2": "b", "n3": "c", "int": "1", "float": "1.5", "str": '"s"', "bstr": '"""b"""',
            "bad": "%", "uni": "é", "ws": " ", "comma": ",", "comment": "#c\n"}


def render(toks):
    return " ".join(CONCRETE.get(t, t) for t in toks)


def obs_key(row):
    return json.dumps({k: v for k, v in row.items() if k not in ("id", "text", "len", "treeLen")}, sort_keys=True)


def run_bulk(chk, cases_path, res_path, batch=4000, timeout=600):
    vlib.vh(["parse-run", "--batch", batch, "--timeout", timeout], stdin_path=cases_path, stdout_path=res_path,
            timeout=7200)


def aggregate_obs(res_path):
    """Merge Reset+Done (or Crash/Hang/Call) lines into unique observation records."""
    uniq = {}
    n = 0
    reset = None
    for row in vlib.read_ndjson(res_path):
        e = row.get("e")
        if e == "Reset":
            reset = row
            continue
        if e in ("Done", "Crash", "Hang"):
            rec = dict(row)
            if reset is not None:
                for k in ("entry", "tokLimit", "recLimit"):
                    rec[k] = reset.get(k) if reset.get(k) is not None else -1
                rec["text"] = reset.get("text") if reset.get("text") is not None else row.get("text")
            n += 1
        elif e == "Call":
            rec = dict(row)
            n += 1
        else:
            continue
        k = obs_key(rec)
        if k not in uniq:
            rec["count"] = 0
            uniq[k] = rec
        u = uniq[k]
        u["count"] += 1
        t = rec.get("text") or ""
        if len(t) < len(u.get("text") or ""):
            u["text"] = t
    return n, list(uniq.values())


def validate_obs(chk, uniq, label="obs"):
    """TLC decides each unique observation record (Trace_ParseObs). Returns list of (record, fails)."""
    path = os.path.join(chk.work, label + ".ndjson")
    rows = []
    for u in uniq:
        r = {k: v for k, v in u.items() if k not in ("text", "what", "id", "count", "cps")}
        for k in ("tokLimit", "recLimit"):
            if r.get(k) is None:
                r[k] = -1
        rows.append(r)
    if not rows:
        return []
    vlib.write_ndjson(path, rows)
    result = []
    r = vlib.tlc("Trace_ParseObs", "Trace_ParseObs.cfg", chk.work, consts_env={"TRACE": path}, workers=1,
                 on_json=lambda v: result.append(v), timeout=3000, xmx="6g")
    vlib.tlc_must_pass(r, "Trace_ParseObs")
    chk.add_tlc(r)
    res = [v for v in result if v and v[0] == "RESULT"]
    if not res or res[0][1] != len(rows):
        raise vlib.ToolError("Trace_ParseObs consumed %s of %d lines" % (res[0][1] if res else None, len(rows)))
    out = []
    for l, fails in res[0][2]:
        out.append((uniq[l - 1], sorted(fails)))
    return out


def obs_canary(chk, uniq):
    """Corrupt one accepted observation (textEq / prefixOk) and require TLC to reject it."""
    good = [u for u in uniq if u.get("e") == "Done" and u.get("entry") == "Document" and u.get("tokLimit") == -1 and u.get("textEq")]
    if not good:
        return
    c = dict(good[0])
    c["textEq"] = False
    bad = validate_obs(chk, [good[0], c], label="obs_canary")
    if len(bad) != 1 or "C02-not-lossless" not in bad[0][1]:
        chk.canary_failed.append("canary (textEq flipped) not rejected by Trace_ParseObs")


def norm_msg(s):
    s = (s or "").split("\n")[0]
    return re.sub(r"\d+", "N", s)[:160]


# ------------------------------------------------------------------ primitive-operation traces


def split_segments(path):
    segs = []
    cur = None
    for line in open(path, encoding="utf8"):
        if line.startswith('{"e":"Reset"'):
            cur = [line]
            segs.append(cur)
        elif cur is not None:
            cur.append(line)
    return segs


def ty_drop_pattern(seg):
    """Known call site (C02): grammar/ty.rs `Err(Some(p.pop()))` — a Ckpt followed (possibly after lexer events of
    the peek) by a Pop whose token is never attached (the next event is not Tok)."""
    n = len(seg)
    for i in range(n - 2):
        if seg[i].startswith('{"e":"Ckpt"'):
            j = i + 1
            while j < n and (seg[j].startswith('{"e":"LexTok"') or seg[j].startswith('{"e":"LexErr"')):
                j += 1
            if j < n and seg[j].startswith('{"e":"Pop"'):
                k = j + 1
                while k < n and (seg[k].startswith('{"e":"LexTok"') or seg[k].startswith('{"e":"LexErr"')):
                    k += 1
                if k < n and not seg[k].startswith('{"e":"Tok"'):
                    return True
    return False


def validate_traces(chk, trace_path):
    """Trace_ParserCore over all segments in one pass (rejected segments are recorded and skipped).
    Returns (segments, events_validated, rejected[list of dict])."""
    segs = split_segments(trace_path)
    total = sum(len(s) for s in segs)
    if total == 0:
        return 0, 0, []
    cur = os.path.join(chk.work, "trace_all.ndjson")
    with open(cur, "w", encoding="utf8") as f:
        for s in segs:
            f.writelines(s)
    result = []
    r = vlib.tlc("Trace_ParserCore", "Trace_ParserCore.cfg", chk.work, consts_env={"TRACE": cur}, workers=1,
                 deque=True, timeout=3000, xmx="8g", on_json=lambda v: result.append(v))
    if r.violated:
        raise vlib.ToolError("Trace_ParserCore invariant violated (model error)\n%s" % r.error_text[:2000])
    vlib.tlc_must_pass(r, "Trace_ParserCore")
    chk.add_tlc(r)
    res = [v for v in result if v and v[0] == "RESULT"]
    if not res or res[0][1] != total:
        raise vlib.ToolError("Trace_ParserCore consumed %s of %d lines" % (res[0][1] if res else None, total))
    # map line numbers to segments
    starts = []
    acc = 0
    for s in segs:
        starts.append(acc)
        acc += len(s)
    import bisect
    rejected = []
    for l, evname, why in res[0][2]:
        k = bisect.bisect_right(starts, l - 1) - 1
        s = segs[k]
        off = l - 1 - starts[k]
        reset = json.loads(s[0])
        rejected.append({"event": evname, "why": sorted(why), "entry": reset.get("entry"), "text": reset.get("text"),
                         "tokLimit": reset.get("tokLimit"), "recLimit": reset.get("recLimit"), "at": off,
                         "line": json.loads(s[off]), "ty_drop": ty_drop_pattern(s)})
    return len(segs), total, rejected


def trace_canary(chk, trace_path):
    """Drop one Tok line of an accepted document segment: Trace_ParserCore must reject it."""
    segs = split_segments(trace_path)
    for s in segs:
        reset = json.loads(s[0])
        if reset.get("entry") != "Document" or reset.get("tokLimit") != -1 or not s[-1].startswith('{"e":"Done"'):
            continue
        toks = [i for i, l in enumerate(s) if l.startswith('{"e":"Tok"')]
        if len(toks) < 3 or ty_drop_pattern(s):
            continue
        bad = list(s)
        del bad[toks[len(toks) // 2]]
        p = os.path.join(chk.work, "trace_canary.ndjson")
        open(p, "w", encoding="utf8").writelines(bad)
        result = []
        r = vlib.tlc("Trace_ParserCore", "Trace_ParserCore.cfg", chk.work, consts_env={"TRACE": p}, workers=1,
                     deque=True, timeout=600, xmx="2g", on_json=lambda v: result.append(v))
        res = [v for v in result if v and v[0] == "RESULT"]
        if not res or not res[0][2]:
            chk.canary_failed.append("canary (dropped Tok event) accepted by Trace_ParserCore")
        return True
    return False


def report_rejections(chk, rejected, prefix):
    """Turn trace rejections whose violated condition belongs to property `prefix` (e.g. "C02") into
    violations / known findings. Rejections for other properties are left to those properties' checks."""
    n = 0
    for rj in sorted(rejected, key=lambda r: len(r["text"] or "")):
        mine = [w for w in rj["why"] if w.startswith(prefix)]
        if not mine:
            continue
        n += 1
        core = {"class": "trace-rejected", "event": rj["event"], "why": mine, "entry": rj["entry"],
                "pattern": "ty-parse-pop-without-attach" if rj["ty_drop"] else "none"}
        if rj["event"] in ("Crash", "Hang"):
            core["what"] = norm_msg(rj["line"].get("what"))
        chk.violation(core, {"text": rj["text"], "tokLimit": rj["tokLimit"], "recLimit": rj["recLimit"],
                             "rejected_line": rj["line"], "at": rj["at"]})
    return n


# ------------------------------------------------------------------ composite flows


LIMITS_C01 = [(-1, -1), (0, -1), (1, 0), (2, 1), (3, 2), (-1, 0), (-1, 1)]


def token_string_cases(chk, cfg_names, out_path, entries, limits, trace=False, every=1, extra_limits=(), extra_every=2, cap=None):
    """TLC (MC_Grammar) enumerates token strings; write parse-run cases for entries x limits.

    `cap` bounds the number of cases written (default: none in the quick tier, 2.5 million in the thorough tier, split
    evenly over the configurations): strings no longer than the QUICK bound of the configuration are always kept
    (that part stays exhaustive), the longer ones are taken with a fixed stride."""
    import math
    sys.path.insert(0, vlib.SPEC)
    from gen_cfgs import TABLE
    suffix = "_q" if chk.quick else "_t"
    if cap is None and not chk.quick:
        cap = 2500000
    n_cases = 0
    n_strings = 0
    with open(out_path, "w", encoding="utf8") as fo:
        for name in cfg_names:
            cases = os.path.join(chk.work, "tok_cases.ndjson")
            n, r = tlc_cases(chk, "MC_Grammar", "MC_Grammar_%s%s.cfg" % (name, suffix), cases, timeout=6000)
            stride, keep_len = 1, 0
            if cap:
                per = len(entries) * (len(limits) + len(extra_limits) / float(extra_every))
                budget = cap / float(len(cfg_names))
                if n / float(every) * per > budget:
                    stride = int(math.ceil(n / float(every) * per / budget))
                    minlen = None
                    with open(cases) as f:
                        for line in f:
                            l = len(json.loads(line)[1])
                            minlen = l if minlen is None else min(minlen, l)
                    keep_len = (minlen or 0) + TABLE[name][3]
                    chk.note("%s%s: %d strings, stride %d beyond %d tokens (cap %d cases)" % (name, suffix, n, stride, keep_len, cap))
            k = 0
            with open(cases) as f:
                for line in f:
                    k += 1
                    if k % every:
                        continue
                    toks = json.loads(line)[1]
                    if stride > 1 and len(toks) > keep_len and (k // every) % stride:
                        continue
                    text = render(toks)
                    n_strings += 1
                    lims = list(limits) + (list(extra_limits) if n_strings % extra_every == 0 else [])
                    for e in entries:
                        for (tl, rl) in lims:
                            n_cases += 1
                            fo.write(json.dumps({"id": n_cases, "entry": e, "text": text, "tok": tl, "rec": rl, "trace": trace},
                                                ensure_ascii=False, separators=(",", ":")) + "\n")
            os.remove(cases)
    return n_strings, n_cases


RECHECK_CAP = 6000
EXAMINED = set()    # inputs of the failing observation records that classify_bad_obs re-ran with tracing


def classify_bad_obs(chk, bad, prefix):
    """Bad observation records: re-run their example inputs with primitive-operation tracing so that the
    rejection is located (and attributed to a known call site when it matches)."""
    mine = [(u, f) for (u, f) in bad if any(x.startswith(prefix) for x in f)]
    if not mine:
        return []
    mine.sort(key=lambda uf: len(uf[0].get("text") or ""))
    cases = os.path.join(chk.work, "recheck.ndjson")
    rows = []
    global EXAMINED
    EXAMINED = set()
    if len(mine) > RECHECK_CAP:
        chk.note("%d failing observation records; the %d with the shortest inputs are re-run with tracing" % (len(mine), RECHECK_CAP))
    for k, (u, f) in enumerate(mine[:RECHECK_CAP]):
        EXAMINED.add(u.get("text"))
        if u.get("e") in ("Crash", "Hang") or u.get("e") == "Call":
            continue
        rows.append({"id": k, "entry": u["entry"], "text": u["text"], "tok": u.get("tokLimit", -1),
                     "rec": u.get("recLimit", -1), "trace": True})
    out = []
    if rows:
        vlib.write_ndjson(cases, rows)
        tr = os.path.join(chk.work, "recheck_trace.ndjson")
        run_bulk(chk, cases, tr)
        segs, events, rejected = validate_traces(chk, tr)
        out = rejected
    return out


def report_bad_obs(chk, bad, prefix):
    """Crash / Hang / Call records and observation failures that tracing could not attribute."""
    n = 0
    for u, f in sorted(bad, key=lambda uf: len(uf[0].get("text") or "")):
        mine = [x for x in f if x.startswith(prefix)]
        if not mine:
            continue
        if u.get("e") in ("Crash", "Hang"):
            core = {"class": u["e"].lower(), "entry": u.get("entry"), "what": norm_msg(u.get("what"))}
        elif u.get("e") == "Call":
            core = {"class": "compiler-call", "entry": u.get("entry"), "why": mine}
        else:
            continue
        n += 1
        chk.violation(core, {"text": u.get("text"), "tokLimit": u.get("tokLimit"), "recLimit": u.get("recLimit"), "what": u.get("what")})
    return n
