#!/usr/bin/env python3
"""Regenerates /verif/MANIFEST.json from the table below (single source of truth)."""
import json
import os

VERIF = os.path.dirname(os.path.dirname(os.path.abspath(__file__)))

# id -> (category, text, note, technique, design_ref)
CLAIMED = {
    "C03": ("model_checking",
            "Reference lexical grammar in TLA+ (LexGrammar.tla); TLC enumerates every string up to a bound over class "
            "representatives and the real lexer is replayed on each; recorded lexer runs on corpus and random inputs are "
            "validated by TLC against the same operators. Exhaustive within the bound, sampled beyond.",
            "Trusts that LexGrammar.tla transcribes the October 2021 lexical grammar; SourceCharacter taken as any scalar value.",
            "TLA+ reference grammar, TLC enumeration replayed on the lexer + TLC trace validation of recorded lexer runs",
            "DESIGN.md 5 C03"),
}

CLAIMED.update({
    "C01": ("model_checking",
            "ParserCore.tla models the parser object; each primitive operation's enabling condition is exactly the condition "
            "whose violation panics in the code. TLC-enumerated token strings x entry points x limits and seeded fuzz (deep "
            "nesting to 2000, long flat inputs, mutated corpus) run on the real code in child processes with a 2 MiB stack; "
            "hook-recorded primitive-operation traces are validated by TLC against ParserCore, all observations by Trace_ParseObs.",
            "Stack depth and wall-clock termination are observed (small stack, watchdog), not modelled; inputs beyond the bound are sampled.",
            "TLA+ state machine of the parser object + TLC trace validation of hook-recorded runs + replay of TLC-enumerated inputs",
            "DESIGN.md 5 C01, Appendix A"),
    "C02": ("model_checking",
            "ParserCore's accounting invariant (emitted prefix . pending . held . look-ahead . rest) and the Done condition for "
            "documents are evaluated by TLC at every step of hook-recorded traces of the real parser; tree text = input and "
            "char-boundary ranges are observed through the public API on every run.",
            "rowan's token text storage is trusted; one known call site (ty.rs) is listed in known_findings.json.",
            "TLC trace validation of recorded parser runs against ParserCore.tla; TLC-enumerated error shapes replayed",
            "DESIGN.md 5 C02"),
    "C04": ("model_checking",
            "LimitTracker model-checked (MC_Limits, all balanced call sequences); nests enumerated by TLC with reference depth and "
            "item count are parsed around every limit boundary; recorded traces with random limits validated against ParserCore.",
            "Rendering rule (one space between tokens) is cross-checked against the real lexer's unlimited item count on every case.",
            "TLA+ LimitTracker model + TLC-generated boundary cases replayed + TLC trace validation",
            "DESIGN.md 5 C04"),
    "C05": ("model_checking",
            "Grammar.tla holds the October 2021 document grammar as data with an EBNF interpreter; TLC decides every token string up "
            "to the bound (full alphabet and 13 focused contexts) and the real parser must agree on verdict and top-level "
            "definitions; recorded corpus mutants are decided by TLC.",
            "Grammar.tla is my transcription of Appendix B; token kinds of recorded documents come from the real lexer (C03).",
            "TLA+ reference grammar executed by TLC; exhaustive bounded enumeration replayed on the parser; TLC trace validation of recorded verdicts",
            "DESIGN.md 5 C05"),
    "C07": ("model_checking",
            "Grammar!IsTypeRef / IsFieldSet decide every enumerated token string (all prefix.core.suffix within the bound); "
            "parse_type, ast::Type::parse, parse_selection_set and FieldSet::parse must report no error only for members; "
            "ParserCore's Done requires, with no error, that the look-ahead is Eof (trace validation).",
            "Bounded enumeration; beyond the bound sampled traces.",
            "TLA+ reference grammar + TLC enumeration replayed on the standalone entry points + TLC trace validation",
            "DESIGN.md 5 C07"),
})

CLAIMED.update({
    "C06": ("model_checking",
            "Strings.tla transcribes StringValue / BlockStringValue(); TLC enumerates all lexically valid literals over character "
            "classes up to the bound with their reference value; the real code must produce that value in 22 CST/AST positions; "
            "recorded random literals are validated by TLC.",
            "Strings.tla is my transcription of section 2.9.4; literal validity is decided by LexGrammar (C03).",
            "TLA+ reference semantics executed by TLC; exhaustive bounded enumeration replayed + TLC trace validation",
            "DESIGN.md 5 C06"),
    "C09": ("model_checking",
            "Every string over 10 character classes up to the bound (and random Unicode strings) is put in 22 AST positions, serialized "
            "under all configurations and reparsed by the real code; TLC additionally decodes every printed literal with the "
            "specification's semantics (Strings.tla) and requires the original value and a single valid string token.",
            "The decoder is the TLA+ reference, independent of apollo's parser.",
            "TLC-enumerated values replayed through serializer+parser; printed literals validated by TLC against LexGrammar/Strings",
            "DESIGN.md 5 C09"),
    "C10": ("model_checking",
            "LexGrammar's IsName / IsIntLiteral / IsFloatLiteral decide every string up to the bound; all constructors and serde "
            "deserializers must agree; printed i32/f64 literals are validated by TLC; every type reference up to the depth bound "
            "prints to text that is a Type of Grammar.tla (model-level) and parses back (replay).",
            "IEEE-754 identity is observed as bit equality, not modelled.",
            "TLA+ predicates executed by TLC; exhaustive bounded enumeration replayed + TLC trace validation",
            "DESIGN.md 5 C10"),
})

CLAIMED.update({
    "C11": ("model_checking",
            "LineCol.tla gives (line, column) for every byte offset; TLC enumerates every text up to the bound over multibyte and "
            "separator classes and the real get_line_column must agree at every offset; recorded locations of every AST / schema / "
            "executable node and name and every diagnostic position of generated documents are validated by TLC.",
            "Rendered-text positions are read from the report header; one known finding (ariadne line table in rendered text).",
            "TLA+ reference function executed by TLC; exhaustive bounded enumeration replayed + TLC trace validation of recorded locations",
            "DESIGN.md 5 C11"),
    "C23": ("model_checking",
            "Coordinate.tla (parse / print / lookup; print-parse inverse checked in the model); every string up to the bound and every "
            "coordinate over a name universe replayed on the five FromStr impls, Display and lookup; recorded random strings validated by TLC.",
            "The harness's fixed SDL must match MC_Coordinate!TheSchema.",
            "TLA+ reference executed by TLC; exhaustive bounded enumeration replayed + TLC trace validation",
            "DESIGN.md 5 C23"),
    "C29": ("model_checking",
            "TypeCompat.tla transcribes the three spec algorithms; all pairs of type references up to the depth bound x defaults x "
            "subtype relations are enumerated by TLC (with cross-operator invariants) and replayed exhaustively; deep random pairs "
            "are validated by TLC.",
            "Two of the three predicates are observed through validation verdicts of minimal isolating inputs.",
            "TLA+ transcription of the spec algorithms; exhaustive TLC enumeration replayed + TLC trace validation",
            "DESIGN.md 5 C29"),
})

CLAIMED.update({
    "C12": ("model_checking",
            "SchemaBuilder.tla models builder and serializer; the intended round trip is model-checked on every history up to the "
            "bound over five item universes; each history is replayed on the real builder/serializer (orders, equality, byte-identical "
            "reserialization, validity); corpus schemas with random splits go through the TLC monitor.",
            "One known finding (extension discovery order), attributed only when the implementation-shaped model predicts the exact reordering.",
            "TLA+ state machine of the schema builder + serializer; TLC-enumerated histories replayed; TLC monitor on recorded round trips",
            "DESIGN.md 5 C12"),
    "C13": ("model_checking",
            "Commute and Chunking are model-checked for all histories up to the bound; every history is built three ways on the real "
            "builder and compared with the model's schema and diagnostics; corpus schemas and executable documents cut at random "
            "boundaries go through the TLC monitor.",
            "Diagnostics are compared as multisets (kind, name) against the model and as message multisets between real runs.",
            "TLA+ state machine; TLC-enumerated histories replayed; TLC monitor",
            "DESIGN.md 5 C13"),
    "C16": ("model_checking",
            "BuiltinScalars.tla (present / refs / valid) with invariants ExactlyUsed, RestoresExactly, IdempotentH model-checked over all "
            "histories; each replayed on a real Schema with re-validation after every validation; corpus pairs validated twice.",
            "Histories mutate only Query's fields; String/Boolean are always referenced.",
            "TLA+ state machine model-checked; histories replayed on the real schema; TLC monitor",
            "DESIGN.md 5 C16"),
    "C22": ("model_checking",
            "Determinism.tla turns hash-ordered iteration sites into permutation choices and TLC proves the observable independent of "
            "the choice (and refutes the HashSet variant); k independent processes print digests of every output for ~400 inputs "
            "and TLC's monitor accepts only identical digests.",
            "Process-level seeds are sampled (k = 4 quick, 16 thorough); the audited site list may be incomplete, the process comparison is not.",
            "TLA+ nondeterminism model + multi-process digest comparison validated by a TLC monitor",
            "DESIGN.md 5 C22"),
})

CLAIMED.update({
    "C30": ("model_checking",
            "NameRc.tla: reference counts, handles and copy-on-write nodes with one action per public operation; RcInv model-checked over "
            "all histories up to the bound (also interleaved over two threads); every history replayed on real values with a witness Arc "
            "making the strong count observable after every step, freeing checked at the end; free-running threads checked at quiescent "
            "points by the TLC monitor; thorough tier replays a sample under Miri.",
            "std's Arc atomicity and the hardware memory model are trusted; Miri only in the thorough tier.",
            "TLA+ reference-count state machine; TLC-enumerated histories replayed on real values; TLC monitor; Miri as substrate",
            "DESIGN.md 5 C30"),
    "C31": ("model_checking",
            "FileId.tla: register + per-thread allocation program, all interleavings model-checked (and the load-then-store variant "
            "refuted); a cfg-guarded wrapper around the real counter lets the harness force every interleaving of 2 threads x 2 "
            "allocations (sampled for more) and TLC validates each recorded run; pack/unpack observed through located names for "
            "63-bit ids; concurrent shared-schema workloads compared with sequential results by the TLC monitor.",
            "The hook serialises counter operations: memory ordering is argued, not checked.",
            "TLA+ model of the atomic counter; forced schedules on the real code validated by TLC trace validation",
            "DESIGN.md 5 C31"),
})

CLAIMED.update({
    "C21": ("model_checking",
            "Guards.tla: the recursion guards and a guarded walker as a stack machine; depth bound, no cycle followed, correct outcome and "
            "termination model-checked over every small graph; TLC-emitted shape descriptors around every internal limit plus random "
            "structure combinations run through the whole pipeline in a child process with a 1 MiB stack; TLC monitor requires no "
            "crash, sorted diagnostics and the prescribed limit diagnostics.",
            "Stack fit is observed, not modelled; the family -> limit table is recorded in MC_GuardShapes.tla.",
            "TLA+ model of the recursion guards; TLC-generated adversarial shapes replayed in isolated processes; TLC monitor",
            "DESIGN.md 5 C21"),
    "C25": ("model_checking",
            "IntroDepth.tla: reference (expanded paths) and the memoised algorithm; their equality and invariance under inlining are "
            "model-checked on every operation of the bounded shape; each operation is rendered and passed to check_max_depth.",
            "List fields rendered as interfaces/possibleTypes on __Type.",
            "TLA+ reference + implementation-shaped model compared by TLC; exhaustive bounded enumeration replayed",
            "DESIGN.md 5 C25"),
})

CLAIMED.update({
    "C26": ("model_checking",
            "Execution.tla transcribes the execution algorithm with apollo's documented choices as named operators; response invariants "
            "are checked on every enumerated world; 20 operations x all worlds over per-field outcome pools are executed on the real "
            "executor with resolvers built from the world and compared exactly (data) / as multisets (error paths); random operations "
            "and worlds are recomputed by TLC.",
            "One fixed schema family; apollo's choices (list item error nullifies the list, siblings aborted on propagation) are part of the reference.",
            "TLA+ reference executor evaluated by TLC; exhaustive bounded worlds replayed + TLC trace validation",
            "DESIGN.md 5 C26"),
    "C27": ("model_checking",
            "AsyncExec.tla (Poll / Wake over pending counts) model-checked for every pending assignment incl. liveness; each assignment is a "
            "schedule forced on execute_async through an executor that polls only after a wake, with pending-counting futures and "
            "streams; response, resolver order, single live future and absence of hangs compared with execute_sync; event traces "
            "validated by TLC.",
            "The harness executor and futures are the only scheduler; list item streams wake FIFO.",
            "TLA+ poll/wake state machine; model schedules forced on the real async executor; TLC trace validation",
            "DESIGN.md 5 C27"),
    "C28": ("model_checking",
            "Coercion.tla transcribes CoerceVariableValues with the documented scalar rules; every (type, default, provided value) of "
            "the bounded universe is replayed through coerce_variable_values; random recorded coercions are recomputed by TLC.",
            "Numbers are symbolic tags; the 2^53 Float bound is not exercised.",
            "TLA+ reference evaluated by TLC; exhaustive bounded enumeration replayed + TLC trace validation",
            "DESIGN.md 5 C28"),
})

CLAIMED.update({
    "C14": ("model_checking",
            "SchemaRules.tla: the type-system validation rules as predicates over an abstract schema, apollo's documented differences "
            "as named switches. Seed schemas using every construct, every single structure-aware mutation at every position, sampled "
            "double mutations, mutate-until-valid chains and projected corpus schemas are validated by the real code; TLC evaluates "
            "Valid(schema) for each and requires equality of verdicts.",
            "SchemaRules.tla is my transcription of the rules (graphql-js semantics where the text is silent); one known finding "
            "(@deprecated on required arguments / input fields accepted).",
            "TLA+ reference rules evaluated by TLC on recorded (schema, verdict) traces from structure-aware mutation",
            "DESIGN.md 5 C14"),
    "C15": ("model_checking",
            "The same traces as C14: for every schema the real validator ACCEPTS, TLC evaluates the guarantees a Valid<Schema> promises "
            "(every referenced type exists and has the right kind for its position, roots are distinct objects, interfaces implemented "
            "incl. transitively, unions non-empty of objects, no reserved names, directive applications defined and located) as "
            "separate invariants of SchemaRules.tla.",
            "Guarantees are those derivable from the rules of SchemaRules.tla.",
            "TLA+ invariants over accepted schemas evaluated by TLC on recorded traces",
            "DESIGN.md 5 C15"),
    "C17": ("model_checking",
            "ExecRules.tla: the operation-validation rules as predicates over an abstract executable document and abstract schema, "
            "apollo's named differences as switches. Seed documents using every construct, every single structure-aware mutation at "
            "every position and sampled double mutations are rendered, parsed, projected back (self-check) and validated by the real "
            "code; TLC evaluates Valid(doc) for each and requires equality of verdicts.",
            "One fixed schema; scalar literals abstracted to their kind (Int values kept); no @defer, no custom scalars.",
            "TLA+ reference rules evaluated by TLC on recorded (document, verdict) traces from structure-aware mutation",
            "DESIGN.md 5 C17"),
    "C18": ("model_checking",
            "From the documents of C17 (valid or not) the built document's typing facts (field definition and sub-selection type, "
            "inline fragment / fragment / operation selection-set types) and, for valid documents, the fields visited by "
            "root_fields / all_fields are recorded; TLC requires each fact to follow from the abstract schema, ValidGuarantees for "
            "accepted documents and bag-equality of the iterators with Walk(doc, sels, deep) of ExecRules.tla.",
            "Iterators compared as bags (order not demanded); one fixed schema.",
            "TLA+ typing and traversal operators evaluated by TLC on recorded facts of built documents",
            "DESIGN.md 5 C18"),
    "C20": ("model_checking",
            "From the documents of C17 both verdicts are recorded; TLC requires ok => standalone and StandaloneValid(doc) => standalone, "
            "StandaloneValid being the schema-independent rules of ExecRules.tla.",
            "The converse (standalone reports every schema-independent error) is not demanded: the property does not state it.",
            "TLA+ schema-independent rule set evaluated by TLC on recorded verdict pairs",
            "DESIGN.md 5 C20"),
})

CLAIMED.update({
    "C08": ("model_checking",
            "GrammarGen.tla runs the reference grammar forwards (generator within recogniser model-checked); Printer.tla models the "
            "serializer's layout engine and states what its output must look like (LayoutOK; MustSeparate validated against "
            "LexGrammar). Random derivations with varied literals, explicit-query placement variants, corpus and parsing mutants are "
            "serialized under 18 configurations by the real code, re-parsed, compared, re-serialized; TLC (Trace_RoundTrip) checks "
            "every line incl. the layout of the real output's token / ignored-text items.",
            "AST equality is the code's PartialEq; prefixes of spaces / tabs up to length 2, levels 0, 1, 3. One known finding "
            "(schema definition without root operations, a consequence of the C05 finding).",
            "TLA+ grammar-as-generator + layout state machine model-checked by TLC; TLC trace validation of recorded round trips and output layout",
            "DESIGN.md 5 C08"),
    "C19": ("model_checking",
            "The Trace_RoundTrip monitor on typed values: every valid document among C17's seeds and mutants, field sets and mixed "
            "(schema + document) texts, serialized from the typed value under 18 configurations, re-parsed and re-validated against "
            "the same schema, compared, re-serialized.",
            "Equality is the code's PartialEq; one fixed schema for documents and field sets, corpus for mixed texts.",
            "TLC trace validation of recorded typed round trips (documents generated from the ExecRules abstract model)",
            "DESIGN.md 5 C19"),
})

CLAIMED.update({
    "C33": ("model_checking",
            "Response.tla (over Execution.tla's CollectFields and value representation) states the shape of a response for an "
            "operation; random valid operations over two schemas are given to the real ResponseBuilder with two randomness sources, "
            "list bounds and null ratios; TLC (Trace_Response) requires ResponseConforms for each recorded response, and the "
            "operation executed over resolvers serving the generated data must reproduce it without errors.",
            "Two fixed schemas; reproduction by execution only where the data names its concrete types.",
            "TLA+ shape predicate evaluated by TLC on recorded generator outputs + execution over the generated data",
            "DESIGN.md 5 C33"),
})

CLAIMED.update({
    "C32": ("model_checking",
            "SmithDoc.tla models the generator's phases (order, fresh names, implements closure and backfill with extensions, "
            "fragments over earlier fragments, named operations, pruning); every terminal state satisfies DocOK (model-checked). "
            "Byte strings of many lengths and entropies are given to the real DocumentBuilder twice; the text is parsed, validated "
            "and projected to the facts DocOK talks about; operations are generated against parsed schemas. TLC (Trace_Smith) "
            "requires determinism, no syntax error, validity and DocOK on every line.",
            "Validity is apollo-compiler's verdict; SmithDoc abstracts types, arguments and values. Two known findings "
            "(unbounded selection nesting, todo!() on union-typed fields).",
            "TLA+ state machine of the generator model-checked by TLC; TLC trace validation of recorded generator outputs",
            "DESIGN.md 5 C32"),
})

CLAIMED.update({
    "C24": ("model_checking",
            "Introspection.tla gives the full introspection result as a function of an abstract schema (the reference, incl. "
            "canonical printing of coerced default values); random valid schemas using every listed construct are built and "
            "introspected by the real code; TLC (Trace_Introspection) computes the reference for each and names every disagreement, "
            "comparing types, directives and possibleTypes as sets and the rest in order.",
            "Built-in descriptions and the structure of the eight introspection types are not compared; one known finding "
            "(default values printed as written).",
            "TLA+ reference function evaluated by TLC on recorded introspection responses of generated schemas",
            "DESIGN.md 5 C24"),
})

NOT_APPLICABLE = {}

ALL = ["C%02d" % i for i in range(1, 34)]


def main():
    checks = []
    for pid in ALL:
        if pid not in CLAIMED:
            continue
        cat, text, note, tech, ref = CLAIMED[pid]
        checks.append({
            "property_id": pid,
            "quick_cmd": "bin/check %s --tier quick" % pid,
            "thorough_cmd": "bin/check %s --tier thorough" % pid,
            "evidence_file": "/verif/evidence/%s.json" % pid,
            "replay_cmd_template": "bin/check %s --replay {path}" % pid,
            "engine": "tlc+harness",
            "level_claimed": {"category": cat, "text": text, "design_ref": ref},
            "level_note": note,
            "technique": tech,
        })
    na = []
    for pid in ALL:
        if pid not in CLAIMED:
            na.append({"property_id": pid,
                       "reason": NOT_APPLICABLE.get(pid, "check not built yet (construction in progress; see DESIGN.md section 8)")})
    man = {
        "version": 1,
        "setup_cmd": "cd /verif/harness && (test -f Cargo.lock || cp /repo/Cargo.lock .) && CARGO_NET_OFFLINE=true cargo build --offline",
        "hooks": {
            "guard": "--cfg apollo_rs_verif",
            "enable": "harness/.cargo/config.toml sets rustflags = [\"--cfg\", \"apollo_rs_verif\"]; the harness crate has path dependencies on /repo/crates/*, so every check rebuilds /repo's working tree with hooks on",
            "baseline_off_cmd": "cd /repo && cargo nextest run --workspace --no-fail-fast --offline --test-threads 8",
            "source_commits": json.load(open(os.path.join(VERIF, "hooks.json")))["source_commits"],
            "add_only": True,
        },
        "engines": [
            {"name": "tlc+harness", "path": "/verif/bin/check",
             "serves_properties": [c["property_id"] for c in checks],
             "kind_free_text": "TLA+ specifications in /verif/spec checked with TLC; Rust harness /verif/harness replays TLC-generated cases on the real code and records traces of the real code that TLC validates"},
        ],
        "checks": checks,
        "not_applicable": na,
        "notes": "All checks: bin/check <ID> --tier quick|thorough. Known findings: /verif/known_findings.json.",
    }
    with open(os.path.join(VERIF, "MANIFEST.json"), "w") as f:
        json.dump(man, f, indent=1)
    print("MANIFEST.json: %d checks, %d not_applicable" % (len(checks), len(na)))


if __name__ == "__main__":
    main()
