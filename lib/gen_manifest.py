#!/usr/bin/env python3
"""Regenerates /verif/MANIFEST.json from the table below (single source of truth)."""
import json
import os

VERIF = os.path.dirname(os.path.dirname(os.path.abspath(__file__)))

# id -> (category, text, note, technique, design_ref)
CLAIMED = {
    "C03": ("model_checking",
            "Reference lexical grammar in TLA+ (LexGrammar.tla); TLC enumerates every string up to a bound over class "
            "representatives and the real lexer is replayed on each; recorded lexer runs on corpus and random inputs are "
            "validated by TLC against the same operators. Exhaustive within the bound, sampled beyond.",
            "Trusts that LexGrammar.tla transcribes the October 2021 lexical grammar; SourceCharacter taken as any scalar value.",
            "TLA+ reference grammar, TLC enumeration replayed on the lexer + TLC trace validation of recorded lexer runs",
            "DESIGN.md 5 C03"),
}

NOT_APPLICABLE = {}

ALL = ["C%02d" % i for i in range(1, 34)]


def main():
    checks = []
    for pid in ALL:
        if pid not in CLAIMED:
            continue
        cat, text, note, tech, ref = CLAIMED[pid]
        checks.append({
            "property_id": pid,
            "quick_cmd": "bin/check %s --tier quick" % pid,
            "thorough_cmd": "bin/check %s --tier thorough" % pid,
            "evidence_file": "/verif/evidence/%s.json" % pid,
            "replay_cmd_template": "bin/check %s --replay {path}" % pid,
            "engine": "tlc+harness",
            "level_claimed": {"category": cat, "text": text, "design_ref": ref},
            "level_note": note,
            "technique": tech,
        })
    na = []
    for pid in ALL:
        if pid not in CLAIMED:
            na.append({"property_id": pid,
                       "reason": NOT_APPLICABLE.get(pid, "check not built yet (construction in progress; see DESIGN.md section 8)")})
    man = {
        "version": 1,
        "setup_cmd": "cd /verif/harness && (test -f Cargo.lock || cp /repo/Cargo.lock .) && CARGO_NET_OFFLINE=true cargo build --offline",
        "hooks": {
            "guard": "--cfg apollo_rs_verif",
            "enable": "harness/.cargo/config.toml sets rustflags = [\"--cfg\", \"apollo_rs_verif\"]; the harness crate has path dependencies on /repo/crates/*, so every check rebuilds /repo's working tree with hooks on",
            "baseline_off_cmd": "cd /repo && cargo nextest run --workspace --no-fail-fast --offline --test-threads 8",
            "source_commits": json.load(open(os.path.join(VERIF, "hooks.json")))["source_commits"],
            "add_only": True,
        },
        "engines": [
            {"name": "tlc+harness", "path": "/verif/bin/check",
             "serves_properties": [c["property_id"] for c in checks],
             "kind_free_text": "TLA+ specifications in /verif/spec checked with TLC; Rust harness /verif/harness replays TLC-generated cases on the real code and records traces of the real code that TLC validates"},
        ],
        "checks": checks,
        "not_applicable": na,
        "notes": "All checks: bin/check <ID> --tier quick|thorough. Known findings: /verif/known_findings.json.",
    }
    with open(os.path.join(VERIF, "MANIFEST.json"), "w") as f:
        json.dump(man, f, indent=1)
    print("MANIFEST.json: %d checks, %d not_applicable" % (len(checks), len(na)))


if __name__ == "__main__":
    main()
