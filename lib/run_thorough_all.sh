#!/bin/bash
# run every thorough check once, sequentially, with a per-check cap; one line per check on stdout
cd "$(dirname "$0")/.."
for id in ${LIST:-C23 C29 C10 C06 C11 C16 C25 C28 C31 C30 C22 C21 C26 C27 C33 C24 C32 C19 C08 C09 C13 C12 C14 C15 C17 C18 C20 C03 C04 C07 C05 C02 C01}; do
  s=$(date +%s); timeout ${CAP:-5400} bin/check $id --tier thorough > /tmp/thor_$id.log 2>&1; rc=$?; e=$(date +%s)
  echo "$id rc=$rc $((e-s))s $(grep -E 'thorough:|TOOL-ERROR|VIOLATION' /tmp/thor_$id.log | tail -2 | tr '\n' ' ' | cut -c1-300)"
done
echo finished
