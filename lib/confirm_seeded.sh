#!/bin/bash
# confirm_seeded.sh <ID> <crate> <demo-file> : verify a seeded change in a scratch worktree
# (applies, builds, existing suite passes, demo fails with / passes without), then removes the worktree.
set -u
ID=$1; CRATE=$2; DEMO=$3
WT=/tmp/wtc/$ID
OUT=/verif/seeded/$ID/confirm.txt
mkdir -p /tmp/wtc
git -C /repo worktree add -q $WT HEAD || exit 2
cd $WT
{
echo "== confirm $ID at $(git -C /repo log --format=%h -1)"
git apply /verif/seeded/$ID/patch.diff && echo "patch applies: yes"
cp /verif/seeded/$ID/$DEMO crates/$CRATE/examples/
NAME=${DEMO%.rs}
cargo nextest run --workspace --no-fail-fast --offline 2>&1 | tail -2
echo "-- demo WITH change:"
cargo run -q --offline -p $CRATE --example $NAME > /dev/null 2>&1; echo "exit=$?"
git apply -R /verif/seeded/$ID/patch.diff
echo "-- demo WITHOUT change:"
cargo run -q --offline -p $CRATE --example $NAME > /dev/null 2>&1; echo "exit=$?"
} > $OUT 2>&1
cd /
git -C /repo worktree remove --force $WT
git -C /repo worktree prune
