//! X03: CoerceArgumentValues (ArgCoercion.tla).  Every case of MC_ArgCoercion is rendered as schema + operation,
//! validated by the real validator (invalid cases are skipped and counted), the variables go through the real
//! coerce_variable_values, and the operation is executed with a resolver that reports the arguments it received.
use crate::util::*;
use apollo_compiler::request::coerce_variable_values;
use apollo_compiler::resolvers::{Execution, FieldError, ObjectValue, ResolveInfo, ResolvedValue};
use apollo_compiler::response::JsonMap;
use apollo_compiler::{ExecutableDocument, Schema};
use serde_json::{json, Value as J};

fn ty_text(t: &J) -> String {
    match t[0].as_str().unwrap() {
        "named" => t[1].as_str().unwrap().to_string(),
        "nn" => format!("{}!", ty_text(&t[1])),
        _ => format!("[{}]", ty_text(&t[1])),
    }
}

fn lit_text(v: &J) -> String {
    match v[0].as_str().unwrap() {
        "null" => "null".into(),
        "int" => v[1].to_string(),
        "var" => "$v".into(),
        "list" => format!("[{}]", v[1].as_array().unwrap().iter().map(lit_text).collect::<Vec<_>>().join(", ")),
        _ => format!("{{{}}}", v[1].as_array().unwrap().iter().map(|f| format!("{}: {}", f[0].as_str().unwrap(), lit_text(&f[1]))).collect::<Vec<_>>().join(", ")),
    }
}

fn to_json(v: &J) -> J {
    match v[0].as_str().unwrap() {
        "null" => J::Null,
        "int" => v[1].clone(),
        "list" => J::Array(v[1].as_array().unwrap().iter().map(to_json).collect()),
        _ => J::Object(v[1].as_array().unwrap().iter().map(|f| (f[0].as_str().unwrap().to_string(), to_json(&f[1]))).collect()),
    }
}

struct Q;
impl ObjectValue for Q {
    fn type_name(&self) -> &str {
        "Query"
    }
    fn resolve_field<'a>(&'a self, info: &'a ResolveInfo<'a>) -> Result<ResolvedValue<'a>, FieldError> {
        // the field is a String: the arguments as the resolver sees them, as JSON text
        let args = serde_json::to_string(info.arguments()).unwrap();
        Ok(ResolvedValue::leaf(args))
    }
}

pub const INPUTS: &str = "input In { a: Int b: Int! = 5 c: Int = 7 }\ninput Req { r: Int! o: In }\n";

/// One case on the real code: Ok(None) = not a valid schema / document / variables (skipped), Ok(Some(outcome)).
fn run_case(ad: &J, usage: &J, decl: &str, prov: &J) -> Result<Option<J>, String> {
    let default = if ad["default"][0] == "some" { format!(" = {}", lit_text(&ad["default"][1])) } else { String::new() };
    let sdl = format!("type Query {{ f(x: {}{}): String }}\n{}", ty_text(&ad["type"]), default, INPUTS);
    let schema = match Schema::parse_and_validate(&sdl, "s.graphql") {
        Ok(s) => s,
        Err(e) => return Err(format!("tool: schema of the model is invalid: {}", e.errors)),
    };
    let args = if usage[0] == "absent" { String::new() } else { format!("(x: {})", lit_text(usage)) };
    let vars = if decl == "none" { String::new() } else { format!("($v: {decl})") };
    let text = format!("query{vars} {{ f{args} }}");
    let doc = match ExecutableDocument::parse_and_validate(&schema, &text, "q.graphql") {
        Ok(d) => d,
        Err(_) => return Ok(None),
    };
    let mut provided = JsonMap::new();
    if prov[0] == "val" {
        provided.insert("v", serde_json::from_value(to_json(&prov[1])).unwrap());
    }
    let op = doc.operations.get(None).map_err(|e| format!("tool: {e:?}"))?;
    let coerced = match coerce_variable_values(&schema, op, &provided) {
        Ok(c) => c,
        Err(_) => return Ok(None),
    };
    let resp = Execution::new(&schema, &doc).coerced_variable_values(&coerced).execute_sync(&Q).map_err(|e| format!("request error: {e:?}"))?;
    let data: J = serde_json::to_value(&resp.data).unwrap();
    let nerr = resp.errors.len();
    let f = &data["f"];
    Ok(Some(if f.is_null() {
        json!({"outcome": "error", "errors": nerr, "text": text, "message": resp.errors.first().map(|e| e.message.clone())})
    } else {
        let got: J = serde_json::from_str(f.as_str().unwrap()).unwrap();
        json!({"outcome": "args", "errors": nerr, "args": got, "text": text})
    }))
}

/// stdin: ["CASE", argdef, usage, decl, provision, outcome]
pub fn replay(_args: &[String]) {
    silence_panics();
    let mut out = Out::new();
    let (mut n, mut skipped, mut bad) = (0u64, 0u64, 0u64);
    read_lines(|v| {
        n += 1;
        let (ad, usage, decl, prov, want) = (&v[1], &v[2], v[3].as_str().unwrap(), &v[4], &v[5]);
        let r = guarded(std::panic::AssertUnwindSafe(|| run_case(ad, usage, decl, prov)));
        let mut why: Vec<String> = vec![];
        let mut got = J::Null;
        match r {
            Err(p) => why.push(format!("panic: {p}")),
            Ok(Err(e)) => why.push(e),
            Ok(Ok(None)) => skipped += 1,
            Ok(Ok(Some(g))) => {
                let want_args = match want[0].as_str().unwrap() {
                    "absent" => Some(json!({})),
                    "value" => Some(json!({"x": to_json(&want[1])})),
                    _ => None,
                };
                match (&want_args, g["outcome"].as_str().unwrap()) {
                    (None, "error") => {
                        if g["errors"] != 1 {
                            why.push(format!("a failed argument coercion is ONE field error, got {}", g["errors"]));
                        }
                    }
                    (None, _) => why.push("reference: field error; the resolver was called".into()),
                    (Some(_), "error") => why.push("reference: the resolver is called; got a field error".into()),
                    (Some(w), _) => {
                        if &g["args"] != w {
                            why.push(format!("resolver received {} , reference {}", g["args"], w));
                        }
                        if g["errors"] != 0 {
                            why.push("errors reported although the field resolved".into());
                        }
                    }
                }
                got = g;
            }
        }
        if !why.is_empty() {
            bad += 1;
            out.line(&json!({"bad": true, "argdef": ad, "usage": usage, "decl": decl, "prov": prov, "want": want, "got": got, "why": why}));
        }
    });
    out.line(&json!({"summary": true, "cases": n, "skipped": skipped, "bad": bad}));
}
