//! Generic mutable walk over an `ast::Document`: every description and every string value.
use apollo_compiler::ast::*;
use apollo_compiler::Node;

pub enum Slot<'a> {
    Description(&'a mut Option<Node<str>>),
    Value(&'a mut String),
}

fn value(v: &mut Node<Value>, f: &mut dyn FnMut(Slot)) {
    match v.make_mut() {
        Value::String(s) => f(Slot::Value(s)),
        Value::List(items) => {
            for i in items.iter_mut() {
                value(i, f)
            }
        }
        Value::Object(fields) => {
            for (_, i) in fields.iter_mut() {
                value(i, f)
            }
        }
        _ => {}
    }
}

fn directives(d: &mut DirectiveList, f: &mut dyn FnMut(Slot)) {
    for dir in d.0.iter_mut() {
        for a in dir.make_mut().arguments.iter_mut() {
            value(&mut a.make_mut().value, f)
        }
    }
}

fn input_value(iv: &mut Node<InputValueDefinition>, f: &mut dyn FnMut(Slot)) {
    let iv = iv.make_mut();
    f(Slot::Description(&mut iv.description));
    if let Some(d) = iv.default_value.as_mut() {
        value(d, f)
    }
    directives(&mut iv.directives, f);
}

fn field_def(fd: &mut Node<FieldDefinition>, f: &mut dyn FnMut(Slot)) {
    let fd = fd.make_mut();
    f(Slot::Description(&mut fd.description));
    for a in fd.arguments.iter_mut() {
        input_value(a, f)
    }
    directives(&mut fd.directives, f);
}

fn selections(sel: &mut Vec<Selection>, f: &mut dyn FnMut(Slot)) {
    for s in sel.iter_mut() {
        match s {
            Selection::Field(fl) => {
                let fl = fl.make_mut();
                for a in fl.arguments.iter_mut() {
                    value(&mut a.make_mut().value, f)
                }
                directives(&mut fl.directives, f);
                selections(&mut fl.selection_set, f);
            }
            Selection::FragmentSpread(fs) => directives(&mut fs.make_mut().directives, f),
            Selection::InlineFragment(inl) => {
                let inl = inl.make_mut();
                directives(&mut inl.directives, f);
                selections(&mut inl.selection_set, f);
            }
        }
    }
}

pub fn for_each_string(doc: &mut Document, f: &mut dyn FnMut(Slot)) {
    for def in doc.definitions.iter_mut() {
        match def {
            Definition::OperationDefinition(n) => {
                let n = n.make_mut();
                for v in n.variables.iter_mut() {
                    let v = v.make_mut();
                    if let Some(d) = v.default_value.as_mut() {
                        value(d, f)
                    }
                    directives(&mut v.directives, f);
                }
                directives(&mut n.directives, f);
                selections(&mut n.selection_set, f);
            }
            Definition::FragmentDefinition(n) => {
                let n = n.make_mut();
                directives(&mut n.directives, f);
                selections(&mut n.selection_set, f);
            }
            Definition::DirectiveDefinition(n) => {
                let n = n.make_mut();
                f(Slot::Description(&mut n.description));
                for a in n.arguments.iter_mut() {
                    input_value(a, f)
                }
            }
            Definition::SchemaDefinition(n) => {
                let n = n.make_mut();
                f(Slot::Description(&mut n.description));
                directives(&mut n.directives, f);
            }
            Definition::ScalarTypeDefinition(n) => {
                let n = n.make_mut();
                f(Slot::Description(&mut n.description));
                directives(&mut n.directives, f);
            }
            Definition::ObjectTypeDefinition(n) => {
                let n = n.make_mut();
                f(Slot::Description(&mut n.description));
                directives(&mut n.directives, f);
                for fd in n.fields.iter_mut() {
                    field_def(fd, f)
                }
            }
            Definition::InterfaceTypeDefinition(n) => {
                let n = n.make_mut();
                f(Slot::Description(&mut n.description));
                directives(&mut n.directives, f);
                for fd in n.fields.iter_mut() {
                    field_def(fd, f)
                }
            }
            Definition::UnionTypeDefinition(n) => {
                let n = n.make_mut();
                f(Slot::Description(&mut n.description));
                directives(&mut n.directives, f);
            }
            Definition::EnumTypeDefinition(n) => {
                let n = n.make_mut();
                f(Slot::Description(&mut n.description));
                directives(&mut n.directives, f);
                for v in n.values.iter_mut() {
                    let v = v.make_mut();
                    f(Slot::Description(&mut v.description));
                    directives(&mut v.directives, f);
                }
            }
            Definition::InputObjectTypeDefinition(n) => {
                let n = n.make_mut();
                f(Slot::Description(&mut n.description));
                directives(&mut n.directives, f);
                for fd in n.fields.iter_mut() {
                    input_value(fd, f)
                }
            }
            Definition::SchemaExtension(n) => directives(&mut n.make_mut().directives, f),
            Definition::ScalarTypeExtension(n) => directives(&mut n.make_mut().directives, f),
            Definition::ObjectTypeExtension(n) => {
                let n = n.make_mut();
                directives(&mut n.directives, f);
                for fd in n.fields.iter_mut() {
                    field_def(fd, f)
                }
            }
            Definition::InterfaceTypeExtension(n) => {
                let n = n.make_mut();
                directives(&mut n.directives, f);
                for fd in n.fields.iter_mut() {
                    field_def(fd, f)
                }
            }
            Definition::UnionTypeExtension(n) => directives(&mut n.make_mut().directives, f),
            Definition::EnumTypeExtension(n) => {
                let n = n.make_mut();
                directives(&mut n.directives, f);
                for v in n.values.iter_mut() {
                    let v = v.make_mut();
                    f(Slot::Description(&mut v.description));
                    directives(&mut v.directives, f);
                }
            }
            Definition::InputObjectTypeExtension(n) => {
                let n = n.make_mut();
                directives(&mut n.directives, f);
                for fd in n.fields.iter_mut() {
                    input_value(fd, f)
                }
            }
        }
    }
}

/// All strings (descriptions and string values) of a document, in walk order.
pub fn collect_strings(doc: &mut Document) -> Vec<String> {
    let mut out = vec![];
    for_each_string(doc, &mut |s| match s {
        Slot::Description(d) => {
            if let Some(d) = d {
                out.push(d.to_string())
            }
        }
        Slot::Value(v) => out.push(v.clone()),
    });
    out
}
