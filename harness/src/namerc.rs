//! C30: histories of operations on Name / Node values from MC_NameRc replayed on the real types.
use crate::util::*;
use apollo_compiler::parser::SourceSpan;
use apollo_compiler::{Name, Node};
use serde_json::{json, Value as J};
use std::collections::hash_map::DefaultHasher;
use std::hash::{Hash, Hasher};
use std::sync::{Arc, Weak};

enum H {
    Name(Name),
    Arc(Arc<str>),
    Dead,
}

struct World {
    hs: Vec<H>,
    kind: Vec<&'static str>, // "heap" | "static" | "arc" | "dead"
    alloc: Vec<usize>,       // 0 = none
    text: Vec<String>,
    loc: Vec<usize>,
    witness: Vec<Arc<str>>,  // one extra strong reference per allocation: real count = model count + 1
    weak: Vec<Weak<str>>,
    nodes: Vec<Option<Node<String>>>,
    nalloc: Vec<usize>,
    nvalue: Vec<String>, // per node allocation
    nlocid: Vec<usize>,  // per node allocation: which span it was created with (a copy made by make_mut inherits it)
    ncount: Vec<usize>,
    spans: Vec<SourceSpan>,
}

fn static_text(s: &str) -> &'static str {
    match s {
        "a" => "a",
        "b" => "b",
        _ => "c",
    }
}

fn spans_of(src: &str) -> Vec<SourceSpan> {
    let doc = apollo_compiler::ast::Document::parse(src.to_string(), "n.graphql").unwrap();
    let apollo_compiler::ast::Definition::ObjectTypeDefinition(t) = &doc.definitions[0] else { unreachable!() };
    vec![t.name.location().unwrap(), t.fields[0].name.location().unwrap()]
}

/// spans whose length equals the length of the names they are attached to (with_location asserts it)
fn spans() -> Vec<SourceSpan> {
    spans_pool(0)
}

/// two spans of length 1 out of a pool at different offsets / files, rotated by `k` (concretisation variety)
fn spans_pool(k: usize) -> Vec<SourceSpan> {
    let doc = apollo_compiler::ast::Document::parse("type A { a: Int b: Int c: Int d: Int e: Int f: Int g: Int h: Int }", "n.graphql").unwrap();
    let apollo_compiler::ast::Definition::ObjectTypeDefinition(t) = &doc.definitions[0] else { unreachable!() };
    let mut all: Vec<SourceSpan> = vec![t.name.location().unwrap()];
    all.extend(t.fields.iter().map(|f| f.name.location().unwrap()));
    vec![all[k % all.len()], all[(k + 1 + k / all.len()) % all.len()]]
}

fn hash_of<T: Hash>(t: &T) -> u64 {
    let mut h = DefaultHasher::new();
    t.hash(&mut h);
    h.finish()
}

impl World {
    fn new(k: usize) -> Self {
        let _ = spans();
        World { hs: vec![], kind: vec![], alloc: vec![], text: vec![], loc: vec![], witness: vec![], weak: vec![], nodes: vec![], nalloc: vec![], nvalue: vec![], nlocid: vec![], ncount: vec![], spans: spans_pool(k) }
    }
    fn push(&mut self, h: H, kind: &'static str, alloc: usize, text: &str, loc: usize) {
        self.hs.push(h);
        self.kind.push(kind);
        self.alloc.push(alloc);
        self.text.push(text.to_string());
        self.loc.push(loc);
    }
    fn new_alloc(&mut self, arc: Arc<str>) -> usize {
        self.weak.push(Arc::downgrade(&arc));
        self.witness.push(arc);
        self.witness.len()
    }
    fn apply(&mut self, op: &str, a: &J, b: &J) -> Result<(), String> {
        let idx = |v: &J| v.as_u64().unwrap_or(0) as usize;
        match op {
            "NewHeap" => {
                let s = a.as_str().unwrap();
                let n = Name::new(s).map_err(|e| e.to_string())?;
                let w = n.to_cloned_arc().ok_or("heap name has no Arc")?;
                let al = self.new_alloc(w);
                self.push(H::Name(n), "heap", al, s, 0);
            }
            "NewStatic" => {
                let s = a.as_str().unwrap();
                let n = Name::new_static(static_text(s)).map_err(|e| e.to_string())?;
                self.push(H::Name(n), "static", 0, s, 0);
            }
            "Clone" => {
                let h = idx(a) - 1;
                let c = match &self.hs[h] {
                    H::Name(n) => H::Name(n.clone()),
                    H::Arc(x) => H::Arc(x.clone()),
                    H::Dead => return Err("clone of dead handle".into()),
                };
                let (k, al, t, l) = (self.kind[h], self.alloc[h], self.text[h].clone(), self.loc[h]);
                self.push(c, k, al, &t, l);
            }
            "Drop" => {
                let h = idx(a) - 1;
                self.hs[h] = H::Dead;
                self.kind[h] = "dead";
            }
            "WithLocation" => {
                let h = idx(a) - 1;
                let l = idx(b);
                let old = std::mem::replace(&mut self.hs[h], H::Dead);
                let H::Name(n) = old else { return Err("with_location on non-name".into()) };
                self.hs[h] = H::Name(n.with_location(self.spans[l - 1]));
                self.loc[h] = l;
            }
            "ToClonedArc" => {
                let h = idx(a) - 1;
                let H::Name(n) = &self.hs[h] else { return Err("to_cloned_arc on non-name".into()) };
                let arc = n.to_cloned_arc().ok_or("to_cloned_arc returned None for a heap name")?;
                let (al, t) = (self.alloc[h], self.text[h].clone());
                self.push(H::Arc(arc), "arc", al, &t, 0);
            }
            "FromArc" => {
                let h = idx(a) - 1;
                let old = std::mem::replace(&mut self.hs[h], H::Dead);
                let H::Arc(arc) = old else { return Err("from_arc on non-arc".into()) };
                self.hs[h] = H::Name(Name::try_from(arc).map_err(|e| e.to_string())?);
                self.kind[h] = "heap";
            }
            "IntoArc" => {
                let h = idx(a) - 1;
                let old = std::mem::replace(&mut self.hs[h], H::Dead);
                let H::Name(n) = old else { return Err("into_arc on non-name".into()) };
                let was_static = self.kind[h] == "static";
                let arc: Arc<str> = n.into();
                if was_static {
                    let al = self.new_alloc(arc.clone());
                    self.alloc[h] = al;
                }
                self.hs[h] = H::Arc(arc);
                self.kind[h] = "arc";
                self.loc[h] = 0;
            }
            "NodeNew" => {
                let v = a.as_str().unwrap().to_string();
                // every node is created with a location: the id of its allocation picks the span
                let locid = self.nvalue.len() + 1;
                self.nodes.push(Some(Node::new_parsed(v.clone(), self.spans[(locid - 1) % self.spans.len()])));
                self.nvalue.push(v);
                self.nlocid.push(locid);
                self.ncount.push(1);
                self.nalloc.push(self.nvalue.len());
            }
            "NodeClone" => {
                let n = idx(a) - 1;
                let c = self.nodes[n].clone();
                self.nodes.push(c);
                let al = self.nalloc[n];
                self.nalloc.push(al);
                self.ncount[al - 1] += 1;
            }
            "NodeDrop" => {
                let n = idx(a) - 1;
                self.nodes[n] = None;
                let al = self.nalloc[n];
                self.ncount[al - 1] -= 1;
                self.nalloc[n] = 0;
            }
            "MakeMut" => {
                let n = idx(a) - 1;
                let v = b.as_str().unwrap().to_string();
                *self.nodes[n].as_mut().ok_or("make_mut on dead node")?.make_mut() = v.clone();
                let al = self.nalloc[n];
                if self.ncount[al - 1] == 1 {
                    self.nvalue[al - 1] = v;
                } else {
                    self.ncount[al - 1] -= 1;
                    self.nvalue.push(v);
                    self.ncount.push(1);
                    self.nlocid.push(self.nlocid[al - 1]);      // the copy keeps the location (NameRc!MakeMut)
                    self.nalloc[n] = self.nvalue.len();
                }
            }
            "GetMut" => {
                let n = idx(a) - 1;
                let v = b.as_str().unwrap().to_string();
                match self.nodes[n].as_mut().ok_or("get_mut on dead node")?.get_mut() {
                    Some(r) => *r = v.clone(),
                    None => return Err("get_mut returned None for a unique node".into()),
                }
                let al = self.nalloc[n];
                self.nvalue[al - 1] = v;
            }
            other => return Err(format!("unknown op {other}")),
        }
        Ok(())
    }

    /// everything observable through the public API must match the bookkeeping
    fn check(&mut self, why: &mut Vec<String>, step: usize) {
        for a in 0..self.witness.len() {
            let live = (0..self.hs.len()).filter(|h| matches!(self.kind[*h], "heap" | "arc") && self.alloc[*h] == a + 1).count();
            let real = Arc::strong_count(&self.witness[a]);
            if real != live + 1 {
                why.push(format!("step {step}: allocation {} has strong count {} but {} live handles (+1 witness)", a + 1, real, live));
            }
        }
        for h in 0..self.hs.len() {
            match &self.hs[h] {
                H::Name(n) => {
                    if n.as_str() != self.text[h] {
                        why.push(format!("step {step}: handle {} reads {:?}, supplied {:?}", h + 1, n.as_str(), self.text[h]));
                    }
                    let loc = n.location();
                    let want = if self.loc[h] == 0 { None } else { Some(self.spans[self.loc[h] - 1]) };
                    if loc != want {
                        why.push(format!("step {step}: handle {} location {:?}, supplied {:?}", h + 1, loc, want));
                    }
                    if n.as_static_str().is_some() != (self.kind[h] == "static") {
                        why.push(format!("step {step}: handle {} static-ness wrong", h + 1));
                    }
                }
                H::Arc(x) => {
                    if &**x != self.text[h].as_str() {
                        why.push(format!("step {step}: arc {} reads {:?}", h + 1, x));
                    }
                }
                H::Dead => {}
            }
        }
        // equality and hashing ignore locations
        let names: Vec<(usize, &Name)> = self.hs.iter().enumerate().filter_map(|(i, h)| if let H::Name(n) = h { Some((i, n)) } else { None }).collect();
        for (i, a) in &names {
            for (j, b) in &names {
                let same = self.text[*i] == self.text[*j];
                if (a == b) != same || (same && hash_of(a) != hash_of(b)) {
                    why.push(format!("step {step}: equality / hash of handles {} and {} disagrees with their texts", i + 1, j + 1));
                }
            }
        }
        // nodes
        for n in 0..self.nodes.len() {
            let al = self.nalloc[n];
            if let Some(node) = self.nodes[n].as_mut() {
                if **node != self.nvalue[al - 1] {
                    why.push(format!("step {step}: node {} reads {:?}, expected {:?}", n + 1, **node, self.nvalue[al - 1]));
                }
                let want = self.spans[(self.nlocid[al - 1] - 1) % self.spans.len()];
                if node.location() != Some(want) {
                    why.push(format!("step {step}: node {} location {:?}, supplied {:?}", n + 1, node.location(), want));
                }
                if node.get_mut().is_some() != (self.ncount[al - 1] == 1) {
                    why.push(format!("step {step}: node {} uniqueness (get_mut) disagrees with count {}", n + 1, self.ncount[al - 1]));
                }
            }
        }
        for i in 0..self.nodes.len() {
            for j in 0..self.nodes.len() {
                if let (Some(a), Some(b)) = (&self.nodes[i], &self.nodes[j]) {
                    if a.ptr_eq(b) != (self.nalloc[i] == self.nalloc[j]) {
                        why.push(format!("step {step}: ptr_eq of nodes {} and {} disagrees", i + 1, j + 1));
                    }
                    // equality and hashing of nodes ignore locations
                    let same = self.nvalue[self.nalloc[i] - 1] == self.nvalue[self.nalloc[j] - 1];
                    if (a == b) != same || (same && hash_of(a) != hash_of(b)) {
                        why.push(format!("step {step}: equality / hash of nodes {} and {} disagrees with their values", i + 1, j + 1));
                    }
                }
            }
        }
    }
}

/// stdin: ["CASE", hist, snap, handles, nodes]
pub fn replay(_args: &[String]) {
    silence_panics();
    let mut out = Out::new();
    let (mut n, mut bad) = (0u64, 0u64);
    read_lines(|v| {
        n += 1;
        let hist = v[1].as_array().unwrap().clone();
        let r = guarded(std::panic::AssertUnwindSafe(|| {
            let mut why: Vec<String> = vec![];
            let mut w = World::new(n as usize);
            for (i, st) in hist.iter().enumerate() {
                let t = st[0].as_u64().unwrap();
                let op = st[1].as_str().unwrap().to_string();
                let res = if t == 1 {
                    w.apply(&op, &st[2], &st[3])
                } else {
                    // performed by another OS thread (values cross threads: Send / Sync)
                    std::thread::scope(|s| s.spawn(|| w.apply(&op, &st[2], &st[3])).join().unwrap_or_else(|_| Err("panic in thread".into())))
                };
                if let Err(e) = res {
                    why.push(format!("step {}: {op}: {e}", i + 1));
                    break;
                }
                w.check(&mut why, i + 1);
                if !why.is_empty() {
                    break;
                }
            }
            if why.is_empty() {
                // binding with the model's final state
                let counts: Vec<u64> = v[2]["counts"].as_array().unwrap().iter().map(|c| c.as_u64().unwrap()).collect();
                let real: Vec<u64> = w.witness.iter().map(|a| Arc::strong_count(a) as u64 - 1).collect();
                if counts != real {
                    why.push(format!("final counts {real:?}, model {counts:?}"));
                }
                let kinds: Vec<String> = v[3].as_array().unwrap().iter().map(|h| h[0].as_str().unwrap().to_string()).collect();
                let realk: Vec<String> = w.kind.iter().map(|k| k.to_string()).collect();
                if kinds != realk {
                    why.push(format!("final handle kinds {realk:?}, model {kinds:?}"));
                }
                let ncounts: Vec<u64> = v[2]["ncounts"].as_array().unwrap().iter().map(|c| c.as_u64().unwrap()).collect();
                let realn: Vec<u64> = w.ncount.iter().map(|c| *c as u64).collect();
                if ncounts != realn {
                    why.push(format!("final node counts {realn:?}, model {ncounts:?}"));
                }
                // drop every handle: only the witnesses remain; drop them: everything is freed
                w.hs.clear();
                w.nodes.clear();
                for (a, wit) in w.witness.iter().enumerate() {
                    if Arc::strong_count(wit) != 1 {
                        why.push(format!("after dropping all handles allocation {} still has count {}", a + 1, Arc::strong_count(wit)));
                    }
                }
                w.witness.clear();
                for (a, wk) in w.weak.iter().enumerate() {
                    if wk.strong_count() != 0 {
                        why.push(format!("allocation {} leaked", a + 1));
                    }
                }
            }
            why
        }));
        let why = match r {
            Ok(w) => w,
            Err(p) => vec![format!("panic: {p}")],
        };
        if !why.is_empty() {
            bad += 1;
            out.line(&json!({"bad": true, "history": v[1], "why": why}));
        }
    });
    out.line(&json!({"summary": true, "cases": n, "bad": bad}));
}

/// impl -> spec: free-running threads; at quiescent points record per allocation the strong count and the
/// number of live handles (Trace_Monitor: equal).
pub fn stress(args: &[String]) {
    silence_panics();
    let seed = arg_num(args, "--seed", 1);
    let threads = arg_num(args, "--threads", 8) as usize;
    let ops = arg_num(args, "--ops", 10000) as usize;
    let mut out = Out::new();
    for round in 0..4 {
        let bases: Vec<Name> = vec![Name::new("alpha").unwrap(), Name::new("betaa").unwrap(), Name::new_static("gamma").unwrap()];
        let witnesses: Vec<Option<Arc<str>>> = bases.iter().map(|b| b.to_cloned_arc()).collect();
        let sp = spans_of("type Alpha { gamma: Int }");
        let mut hs = vec![];
        for t in 0..threads {
            let mine: Vec<Name> = bases.clone();
            let sp = sp.clone();
            hs.push(std::thread::spawn(move || {
                let mut rng = Rng::new(seed ^ (t as u64 * 7919 + round as u64));
                let mut live: Vec<Name> = mine;
                let mut arcs: Vec<Arc<str>> = vec![];
                let mut ok = true;
                for _ in 0..ops {
                    match rng.below(7) {
                        0 | 1 if !live.is_empty() => {
                            let c = live[rng.below(live.len())].clone();
                            live.push(c);
                        }
                        2 if live.len() > 1 => {
                            let i = rng.below(live.len());
                            live.swap_remove(i);
                        }
                        3 if !live.is_empty() => {
                            let i = rng.below(live.len());
                            let n = live.swap_remove(i);
                            let t0 = n.as_str().to_string();
                            let n = n.with_location(sp[rng.below(2)]);
                            ok &= n.as_str() == t0;
                            live.push(n);
                        }
                        4 if !live.is_empty() => {
                            if let Some(a) = live[rng.below(live.len())].to_cloned_arc() {
                                arcs.push(a);
                            }
                        }
                        5 if !arcs.is_empty() => {
                            let a = arcs.swap_remove(rng.below(arcs.len()));
                            live.push(Name::try_from(a).unwrap());
                        }
                        _ if !live.is_empty() => {
                            let n = &live[rng.below(live.len())];
                            ok &= matches!(n.as_str(), "alpha" | "betaa" | "gamma");
                        }
                        _ => {}
                    }
                    if live.len() > 64 {
                        live.truncate(8);
                    }
                }
                let per: Vec<usize> = ["alpha", "betaa"].iter().map(|t| live.iter().filter(|n| n.as_str() == *t).count() + arcs.iter().filter(|a| &***a == *t).count()).collect();
                (live, arcs, per, ok)
            }));
        }
        let mut total = vec![0usize; 2];
        let mut all_ok = true;
        let mut keep = vec![];
        for h in hs {
            match h.join() {
                Ok((live, arcs, per, ok)) => {
                    total[0] += per[0];
                    total[1] += per[1];
                    all_ok &= ok;
                    keep.push((live, arcs));
                }
                Err(_) => all_ok = false,
            }
        }
        // quiescent: every thread finished; handles still alive are in `keep`, plus the bases and the witnesses
        let observed: Vec<usize> = (0..2).map(|i| Arc::strong_count(witnesses[i].as_ref().unwrap())).collect();
        let expected: Vec<usize> = (0..2).map(|i| total[i] + 2).collect();
        out.line(&json!({"kind": format!("quiescent-round-{round}"), "pairs": [["strong-count-equals-live-handles", observed, expected]], "flags": [["texts-read-back", all_ok]]}));
        drop(keep);
        drop(bases);
        let after: Vec<usize> = (0..2).map(|i| Arc::strong_count(witnesses[i].as_ref().unwrap())).collect();
        out.line(&json!({"kind": format!("after-drop-round-{round}"), "pairs": [["only-the-witness-remains", after, [1, 1]]], "flags": []}));
    }
}
