//! C11: line/column positions and source locations.
use crate::util::*;
use apollo_compiler::ast;
use apollo_compiler::diagnostic::ToCliReport;
use apollo_compiler::parser::Parser as CParser;
use apollo_compiler::parser::SourceSpan;
use apollo_compiler::{ExecutableDocument, Schema};
use serde_json::{json, Value as J};

fn sources_of(text: &str) -> apollo_compiler::parser::SourceMap {
    match CParser::new().parse_ast(text.to_string(), "f.graphql") {
        Ok(d) => d.sources.clone(),
        Err(e) => e.partial.sources.clone(),
    }
}

/// stdin: ["CASE", text cps, [[byteOffset, [line, col]]...]]
pub fn replay(_args: &[String]) {
    silence_panics();
    let mut out = Out::new();
    let (mut n, mut bad, mut evals, mut nontrivial) = (0u64, 0u64, 0u64, 0u64);
    read_lines(|v| {
        n += 1;
        let cps = cps_from_json(&v[1]);
        let text = text_of(&cps);
        if cps.iter().any(|c| *c > 127 || *c == 13 || *c == 12) {
            nontrivial += 1;
        }
        let mut why: Vec<String> = vec![];
        let r = guarded(|| {
            let sources = sources_of(&text);
            let file = sources.values().next().cloned();
            let mut got = vec![];
            if let Some(file) = file {
                for p in v[2].as_array().unwrap() {
                    let off = p[0].as_u64().unwrap() as usize;
                    let lc = file.get_line_column(off);
                    let range = file.get_line_column_range(off..text.len());
                    got.push((off, lc.map(|x| (x.line, x.column)), range.map(|r| (r.start.line, r.start.column, r.end.line, r.end.column))));
                }
                let beyond = file.get_line_column(text.len() + 1).is_none();
                Some((got, beyond))
            } else {
                None
            }
        });
        match r {
            Err(p) => why.push(format!("panic: {p}")),
            Ok(None) => why.push("no source file".into()),
            Ok(Some((got, beyond))) => {
                if !beyond {
                    why.push("offset beyond the end is not rejected".into());
                }
                let arr = v[2].as_array().unwrap();
                let end_lc = arr.last().map(|p| (p[1][0].as_u64().unwrap() as usize, p[1][1].as_u64().unwrap() as usize)).unwrap();
                for (k, p) in arr.iter().enumerate() {
                    evals += 1;
                    let want = (p[1][0].as_u64().unwrap() as usize, p[1][1].as_u64().unwrap() as usize);
                    let (off, lc, range) = &got[k];
                    if *lc != Some(want) {
                        why.push(format!("offset {off}: got {lc:?}, reference {want:?}"));
                    }
                    if *range != Some((want.0, want.1, end_lc.0, end_lc.1)) {
                        why.push(format!("range {off}..end: got {range:?}"));
                    }
                }
            }
        }
        if !why.is_empty() {
            bad += 1;
            why.truncate(4);
            out.line(&json!({"bad": true, "text": text, "cps": cps, "why": why}));
        }
    });
    out.line(&json!({"summary": true, "cases": n, "bad": bad, "evals": evals, "nontrivial": nontrivial}));
}

// ---------------------------------------------------------------- locations of nodes and names (impl -> spec)

struct Spans {
    file_len: usize,
    text: String,
    names: Vec<J>,
    nodes: Vec<J>,
}
impl Spans {
    fn name(&mut self, n: &apollo_compiler::Name) {
        match n.location() {
            Some(l) => self.span_name(l, n.as_str()),
            None => self.names.push(json!([0, 0, n.len(), false, "nolocation"])),
        }
    }
    fn span_name(&mut self, l: SourceSpan, s: &str) {
        let (a, b) = (l.offset(), l.end_offset());
        let eq = self.text.get(a..b) == Some(s);
        self.names.push(json!([a, b, s.len(), eq]));
    }
    fn node(&mut self, l: Option<SourceSpan>) {
        match l {
            Some(l) => self.nodes.push(json!([l.offset(), l.end_offset(), self.text.is_char_boundary(l.offset().min(self.file_len)) && self.text.is_char_boundary(l.end_offset().min(self.file_len))])),
            None => self.nodes.push(json!([0, 0, false])),
        }
    }
}

fn walk_ast(doc: &ast::Document, sp: &mut Spans) {
    use ast::Definition as D;
    fn dirs(d: &ast::DirectiveList, sp: &mut Spans) {
        for x in d.iter() {
            sp.node(x.location());
            sp.name(&x.name);
            for a in &x.arguments {
                sp.node(a.location());
                sp.name(&a.name);
                sp.node(a.value.location());
            }
        }
    }
    fn ivd(x: &apollo_compiler::Node<ast::InputValueDefinition>, sp: &mut Spans) {
        sp.node(x.location());
        sp.name(&x.name);
        sp.node(x.ty.location());
        if let Some(d) = &x.description {
            sp.node(d.location());
        }
        if let Some(d) = &x.default_value {
            sp.node(d.location());
        }
        dirs(&x.directives, sp);
    }
    fn fd(x: &apollo_compiler::Node<ast::FieldDefinition>, sp: &mut Spans) {
        sp.node(x.location());
        sp.name(&x.name);
        if let Some(d) = &x.description {
            sp.node(d.location());
        }
        for a in &x.arguments {
            ivd(a, sp);
        }
        dirs(&x.directives, sp);
    }
    fn sels(s: &[ast::Selection], sp: &mut Spans) {
        for x in s {
            match x {
                ast::Selection::Field(f) => {
                    sp.node(f.location());
                    sp.name(&f.name);
                    if let Some(a) = &f.alias {
                        sp.name(a);
                    }
                    for a in &f.arguments {
                        sp.node(a.location());
                        sp.name(&a.name);
                        sp.node(a.value.location());
                    }
                    dirs(&f.directives, sp);
                    sels(&f.selection_set, sp);
                }
                ast::Selection::FragmentSpread(f) => {
                    sp.node(f.location());
                    sp.name(&f.fragment_name);
                    dirs(&f.directives, sp);
                }
                ast::Selection::InlineFragment(f) => {
                    sp.node(f.location());
                    if let Some(t) = &f.type_condition {
                        sp.name(t);
                    }
                    dirs(&f.directives, sp);
                    sels(&f.selection_set, sp);
                }
            }
        }
    }
    for def in &doc.definitions {
        sp.node(def.location());
        match def {
            D::OperationDefinition(x) => {
                if let Some(n) = &x.name {
                    sp.name(n);
                }
                for v in &x.variables {
                    sp.node(v.location());
                    sp.name(&v.name);
                    sp.node(v.ty.location());
                    if let Some(d) = &v.default_value {
                        sp.node(d.location());
                    }
                    dirs(&v.directives, sp);
                }
                dirs(&x.directives, sp);
                sels(&x.selection_set, sp);
            }
            D::FragmentDefinition(x) => {
                sp.name(&x.name);
                sp.name(&x.type_condition);
                dirs(&x.directives, sp);
                sels(&x.selection_set, sp);
            }
            D::DirectiveDefinition(x) => {
                sp.name(&x.name);
                if let Some(d) = &x.description {
                    sp.node(d.location());
                }
                for a in &x.arguments {
                    ivd(a, sp);
                }
            }
            D::SchemaDefinition(x) => {
                dirs(&x.directives, sp);
                for r in &x.root_operations {
                    sp.node(r.location());
                    sp.name(&r.1);
                }
            }
            D::ScalarTypeDefinition(x) => {
                sp.name(&x.name);
                dirs(&x.directives, sp);
            }
            D::ObjectTypeDefinition(x) => {
                sp.name(&x.name);
                if let Some(d) = &x.description {
                    sp.node(d.location());
                }
                for i in &x.implements_interfaces {
                    sp.name(i);
                }
                dirs(&x.directives, sp);
                for f in &x.fields {
                    fd(f, sp);
                }
            }
            D::InterfaceTypeDefinition(x) => {
                sp.name(&x.name);
                for i in &x.implements_interfaces {
                    sp.name(i);
                }
                dirs(&x.directives, sp);
                for f in &x.fields {
                    fd(f, sp);
                }
            }
            D::UnionTypeDefinition(x) => {
                sp.name(&x.name);
                dirs(&x.directives, sp);
                for m in &x.members {
                    sp.name(m);
                }
            }
            D::EnumTypeDefinition(x) => {
                sp.name(&x.name);
                if let Some(d) = &x.description {
                    sp.node(d.location());
                }
                dirs(&x.directives, sp);
                for v in &x.values {
                    sp.node(v.location());
                    sp.name(&v.value);
                    dirs(&v.directives, sp);
                }
            }
            D::InputObjectTypeDefinition(x) => {
                sp.name(&x.name);
                dirs(&x.directives, sp);
                for f in &x.fields {
                    ivd(f, sp);
                }
            }
            D::ObjectTypeExtension(x) => {
                sp.name(&x.name);
                dirs(&x.directives, sp);
                for f in &x.fields {
                    fd(f, sp);
                }
            }
            D::EnumTypeExtension(x) => {
                sp.name(&x.name);
                for v in &x.values {
                    sp.node(v.location());
                    sp.name(&v.value);
                }
            }
            _ => {}
        }
    }
}

fn walk_schema(schema: &Schema, sp: &mut Spans, file: apollo_compiler::parser::FileId) {
    use apollo_compiler::schema::ExtendedType as T;
    for (name, ty) in &schema.types {
        if ty.location().map(|l| l.file_id()) != Some(file) {
            continue;
        }
        sp.name(name);
        sp.node(ty.location());
        match ty {
            T::Object(o) => {
                for (n, f) in &o.fields {
                    sp.name(n);
                    sp.name(&f.name);
                    sp.node(f.location());
                    for a in &f.arguments {
                        sp.name(&a.name);
                    }
                }
                for i in &o.implements_interfaces {
                    sp.name(&i.name);
                }
            }
            T::Interface(o) => {
                for (n, f) in &o.fields {
                    sp.name(n);
                    sp.node(f.location());
                }
            }
            T::Enum(e) => {
                for (n, v) in &e.values {
                    sp.name(n);
                    sp.node(v.location());
                }
            }
            T::Union(u) => {
                for m in &u.members {
                    sp.name(&m.name);
                }
            }
            T::InputObject(o) => {
                for (n, f) in &o.fields {
                    sp.name(n);
                    sp.node(f.location());
                }
            }
            T::Scalar(_) => {}
        }
    }
    for (name, d) in &schema.directive_definitions {
        if d.location().map(|l| l.file_id()) == Some(file) {
            sp.name(name);
            sp.node(d.location());
        }
    }
}

fn walk_exec(doc: &ExecutableDocument, sp: &mut Spans) {
    use apollo_compiler::executable as ex;
    fn set(s: &ex::SelectionSet, sp: &mut Spans) {
        for sel in &s.selections {
            match sel {
                ex::Selection::Field(f) => {
                    sp.node(f.location());
                    sp.name(&f.name);
                    if let Some(a) = &f.alias {
                        sp.name(a);
                    }
                    for a in &f.arguments {
                        sp.name(&a.name);
                    }
                    set(&f.selection_set, sp);
                }
                ex::Selection::FragmentSpread(f) => {
                    sp.node(f.location());
                    sp.name(&f.fragment_name);
                }
                ex::Selection::InlineFragment(f) => {
                    sp.node(f.location());
                    if let Some(t) = &f.type_condition {
                        sp.name(t);
                    }
                    set(&f.selection_set, sp);
                }
            }
        }
    }
    for op in doc.operations.iter() {
        sp.node(op.location());
        if let Some(n) = &op.name {
            sp.name(n);
        }
        for v in &op.variables {
            sp.name(&v.name);
        }
        set(&op.selection_set, sp);
    }
    for (n, f) in &doc.fragments {
        sp.name(n);
        sp.node(f.location());
        set(&f.selection_set, sp);
    }
}

const NOISE: &[&str] = &["é", "中", "🚀", "\u{c}", "\u{2028}", "\u{85}", "\u{b}", "\t", " ", "x", "\u{2029}", "ß", "𝒳"];
const NOISE_NL: &[&str] = &["\n", "\r", "\r\n", "\n\n"];

fn noise(rng: &mut Rng, allow_nl: bool) -> String {
    let mut s = String::new();
    for _ in 0..rng.range(0, 6) {
        if allow_nl && rng.chance(1, 4) {
            s.push_str(*rng.pick(NOISE_NL));
        } else {
            s.push_str(*rng.pick(NOISE));
        }
    }
    s
}

fn gen_doc(rng: &mut Rng, invalid: bool) -> String {
    let nl = |rng: &mut Rng| rng.pick(&["\n", "\r\n", "\r", " "]).to_string();
    let mut s = String::new();
    s.push_str(&format!("#{}{}", noise(rng, false), nl(rng)));
    s.push_str(&format!("\"{}\" type Query {{{} \"{}\" f(a: String = \"{}\"): Int @deprecated(reason: \"{}\") g: Thing }} #{}{}",
        noise(rng, false), nl(rng), noise(rng, false), noise(rng, false), noise(rng, false), noise(rng, false), nl(rng)));
    s.push_str(&format!("\"\"\"{}\"\"\" enum Thing {{ A #{}{} B }}{}", noise(rng, true), noise(rng, false), nl(rng), nl(rng)));
    s.push_str(&format!("interface I {{ f: Int }} union U = Query input In {{ x: Int = 1 }} directive @d(a: In) on FIELD{}", nl(rng)));
    if invalid {
        s.push_str(&format!("query X($v: Int = 1) {{{} f(a: \"{}\") #{}{} nope{} ... on Query {{ alsoNope }} }}{}",
            nl(rng), noise(rng, false), noise(rng, false), nl(rng), nl(rng), nl(rng)));
        s.push_str(&format!("type Bad {{ f: Missing{} }}", nl(rng)));
    } else {
        s.push_str(&format!("query X($v: Int = 1) {{{} f(a: \"{}\") @d(a: {{x: $v}}) #{}{} g ... on Query {{ al: f }} ...F }}{}",
            nl(rng), noise(rng, false), noise(rng, false), nl(rng), nl(rng)));
        s.push_str("fragment F on Query { g }");
    }
    s
}

fn header_pos(rendered: &str) -> Option<(usize, usize)> {
    // "[ f.graphql:L:C ]"
    let i = rendered.find("f.graphql:")?;
    let rest = &rendered[i + "f.graphql:".len()..];
    let mut it = rest.split(|c: char| !c.is_ascii_digit());
    let l = it.next()?.parse().ok()?;
    let c = it.next()?.parse().ok()?;
    Some((l, c))
}

/// `linecol-record --seed S --count N`: one line per generated document
pub fn record(args: &[String]) {
    silence_panics();
    let seed = arg_num(args, "--seed", 1);
    let count = arg_num(args, "--count", 200) as usize;
    let mut rng = Rng::new(seed ^ 0xC11);
    let mut out = Out::new();
    for k in 0..count {
        let invalid = k % 2 == 1;
        let text = gen_doc(&mut rng, invalid);
        let r = guarded(|| {
            let mut sp = Spans { file_len: text.len(), text: text.clone(), names: vec![], nodes: vec![] };
            let mut diags: Vec<J> = vec![];
            let parsed = CParser::new().parse_ast(text.clone(), "f.graphql");
            let doc = match parsed {
                Ok(d) => d,
                Err(e) => e.partial,
            };
            walk_ast(&doc, &mut sp);
            let file_id = *doc.sources.keys().next().unwrap();
            let schema = match doc.to_schema() {
                Ok(s) => s,
                Err(e) => e.partial,
            };
            walk_schema(&schema, &mut sp, file_id);
            let mut all_diags = vec![];
            match schema.clone().validate() {
                Ok(valid) => match doc.to_executable_validate(&valid) {
                    Ok(ex) => walk_exec(&ex, &mut sp),
                    Err(e) => {
                        walk_exec(&e.partial, &mut sp);
                        all_diags.push(e.errors);
                    }
                },
                Err(e) => all_diags.push(e.errors),
            }
            for list in &all_diags {
                for d in list.iter() {
                    let Some(loc) = d.error.location() else { continue };
                    if loc.file_id() != file_id {
                        continue;
                    }
                    let lc = d.line_column_range();
                    let js = d.to_json();
                    let rendered = d.to_string();
                    let hp = header_pos(&rendered);
                    diags.push(json!({
                        "start": loc.offset(), "end": loc.end_offset(),
                        "lc": lc.map(|r| vec![r.start.line, r.start.column, r.end.line, r.end.column]).unwrap_or_default(),
                        "json": js.locations.first().map(|l| vec![l.line, l.column]).unwrap_or_default(),
                        "header": hp.map(|(l, c)| vec![l, c]).unwrap_or_default(),
                    }));
                }
            }
            (sp.names, sp.nodes, diags)
        });
        match r {
            Ok((names, nodes, diags)) => out.line(&json!({"text": cps_of(&text), "len": text.len(), "names": names, "nodes": nodes, "diags": diags, "crash": false})),
            Err(p) => out.line(&json!({"text": cps_of(&text), "len": text.len(), "names": [], "nodes": [], "diags": [], "crash": true, "what": p})),
        }
    }
}
