//! Abstract schema (the data model of SchemaRules.tla): render to SDL, project a real Schema, mutate.
use crate::util::*;
use apollo_compiler::ast;
use apollo_compiler::schema::ExtendedType;
use apollo_compiler::Schema;
use serde_json::{json, Value as J};

pub fn type_text(t: &J) -> String {
    match t[0].as_str().unwrap_or("named") {
        "named" => t[1].as_str().unwrap_or("X").to_string(),
        "list" => format!("[{}]", type_text(&t[1])),
        _ => format!("{}!", type_text(&t[1])),
    }
}

fn value_text(v: &J) -> String {
    match v[0].as_str().unwrap_or("null") {
        "int" => "1".into(),
        "float" => "1.5".into(),
        "str" => "\"s\"".into(),
        "bool" => "true".into(),
        "enum" => v[1].as_str().unwrap_or("A").to_string(),
        "list" => "[1]".into(),
        "obj" => "{a: 1}".into(),
        "var" => "$v".into(),
        _ => "null".into(),
    }
}

fn apps_text(apps: &J) -> String {
    let mut s = String::new();
    for a in apps.as_array().unwrap_or(&vec![]) {
        s.push_str(&format!(" @{}", a["name"].as_str().unwrap_or("d")));
        let args = a["args"].as_array().cloned().unwrap_or_default();
        if !args.is_empty() {
            let parts: Vec<String> = args.iter().map(|x| format!("{}: {}", x["name"].as_str().unwrap_or("a"), value_text(&x["value"]))).collect();
            s.push_str(&format!("({})", parts.join(", ")));
        }
    }
    s
}

fn default_literal(t: &J) -> &'static str {
    // some literal; defaults are not validated (Apollo_DefaultValuesNotValidated) but keep it plausible
    let mut u = t;
    while u[0] != "named" {
        u = &u[1];
    }
    match u[1].as_str().unwrap_or("") {
        "String" | "ID" => "\"s\"",
        "Boolean" => "true",
        "Float" => "1.5",
        "Int" => "1",
        _ => "1",
    }
}

fn ivds_text(ivds: &J, sep: &str) -> String {
    ivds.as_array().unwrap_or(&vec![]).iter().map(|i| {
        let d = match i["default"].as_str().unwrap_or("none") { "null" => " = null".to_string(), "value" => format!(" = {}", default_literal(&i["type"])), _ => String::new() };
        format!("{}: {}{}{}", i["name"].as_str().unwrap_or("a"), type_text(&i["type"]), d, apps_text(&i["dirs"]))
    }).collect::<Vec<_>>().join(sep)
}

pub fn render(s: &J) -> String {
    let mut out = String::new();
    let sd = &s["schemaDef"];
    if sd["explicit"].as_bool().unwrap_or(false) {
        let roots: Vec<String> = ["query", "mutation", "subscription"].iter().filter_map(|op| {
            let n = sd["roots"][*op].as_str().unwrap_or("");
            if n.is_empty() { None } else { Some(format!("{op}: {n}")) }
        }).collect();
        // an explicit schema definition needs at least one root operation syntactically
        if !roots.is_empty() {
            out.push_str(&format!("schema{} {{ {} }}\n", apps_text(&sd["dirs"]), roots.join(" ")));
        }
    }
    for d in s["directives"].as_array().unwrap_or(&vec![]) {
        let args = if d["args"].as_array().map(|a| a.is_empty()).unwrap_or(true) { String::new() } else { format!("({})", ivds_text(&d["args"], ", ")) };
        let locs: Vec<String> = d["locations"].as_array().unwrap_or(&vec![]).iter().map(|l| l.as_str().unwrap_or("FIELD").to_string()).collect();
        out.push_str(&format!("directive @{}{}{} on {}\n", d["name"].as_str().unwrap_or("d"), args,
            if d["repeatable"].as_bool().unwrap_or(false) { " repeatable" } else { "" }, if locs.is_empty() { "FIELD".to_string() } else { locs.join(" | ") }));
    }
    for t in s["types"].as_array().unwrap_or(&vec![]) {
        let name = t["name"].as_str().unwrap_or("X");
        let dirs = apps_text(&t["dirs"]);
        match t["kind"].as_str().unwrap_or("scalar") {
            k @ ("object" | "interface") => {
                let kw = if k == "object" { "type" } else { "interface" };
                let ifaces: Vec<String> = t["ifaces"].as_array().unwrap_or(&vec![]).iter().map(|x| x.as_str().unwrap_or("I").to_string()).collect();
                let imp = if ifaces.is_empty() { String::new() } else { format!(" implements {}", ifaces.join(" & ")) };
                let fields: Vec<String> = t["fields"].as_array().unwrap_or(&vec![]).iter().map(|f| {
                    let args = if f["args"].as_array().map(|a| a.is_empty()).unwrap_or(true) { String::new() } else { format!("({})", ivds_text(&f["args"], ", ")) };
                    format!("{}{}: {}{}", f["name"].as_str().unwrap_or("f"), args, type_text(&f["type"]), apps_text(&f["dirs"]))
                }).collect();
                if fields.is_empty() { out.push_str(&format!("{kw} {name}{imp}{dirs}\n")); } else { out.push_str(&format!("{kw} {name}{imp}{dirs} {{ {} }}\n", fields.join(" "))); }
            }
            "union" => {
                let ms: Vec<String> = t["members"].as_array().unwrap_or(&vec![]).iter().map(|x| x.as_str().unwrap_or("T").to_string()).collect();
                if ms.is_empty() { out.push_str(&format!("union {name}{dirs}\n")); } else { out.push_str(&format!("union {name}{dirs} = {}\n", ms.join(" | "))); }
            }
            "enum" => {
                let vs: Vec<String> = t["values"].as_array().unwrap_or(&vec![]).iter().map(|v| format!("{}{}", v["name"].as_str().unwrap_or("A"), apps_text(&v["dirs"]))).collect();
                if vs.is_empty() { out.push_str(&format!("enum {name}{dirs}\n")); } else { out.push_str(&format!("enum {name}{dirs} {{ {} }}\n", vs.join(" "))); }
            }
            "input" => {
                let fs = ivds_text(&t["inputFields"], " ");
                if fs.is_empty() { out.push_str(&format!("input {name}{dirs}\n")); } else { out.push_str(&format!("input {name}{dirs} {{ {fs} }}\n")); }
            }
            _ => out.push_str(&format!("scalar {name}{dirs}\n")),
        }
    }
    out
}

// ------------------------------------------------------------------ projection of a real schema

pub fn type_abs(t: &ast::Type) -> J {
    match t {
        ast::Type::Named(n) => json!(["named", n.as_str()]),
        ast::Type::NonNullNamed(n) => json!(["nonnull", ["named", n.as_str()]]),
        ast::Type::List(i) => json!(["list", type_abs(i)]),
        ast::Type::NonNullList(i) => json!(["nonnull", ["list", type_abs(i)]]),
    }
}

fn value_abs(v: &ast::Value) -> J {
    match v {
        ast::Value::Null => json!(["null"]),
        ast::Value::Enum(n) => json!(["enum", n.as_str()]),
        ast::Value::Variable(_) => json!(["var"]),
        ast::Value::String(_) => json!(["str"]),
        ast::Value::Float(_) => json!(["float"]),
        ast::Value::Int(_) => json!(["int"]),
        ast::Value::Boolean(_) => json!(["bool"]),
        ast::Value::List(_) => json!(["list"]),
        ast::Value::Object(_) => json!(["obj"]),
    }
}

fn apps_abs<'a>(dirs: impl Iterator<Item = &'a apollo_compiler::Node<ast::Directive>>) -> J {
    J::Array(dirs.map(|d| json!({"name": d.name.as_str(), "args": d.arguments.iter().map(|a| json!({"name": a.name.as_str(), "value": value_abs(&a.value)})).collect::<Vec<_>>()})).collect())
}

fn default_abs(d: &Option<apollo_compiler::Node<ast::Value>>) -> &'static str {
    match d {
        None => "none",
        Some(v) if v.is_null() => "null",
        Some(_) => "value",
    }
}

fn ivd_abs(i: &ast::InputValueDefinition) -> J {
    json!({"name": i.name.as_str(), "type": type_abs(&i.ty), "default": default_abs(&i.default_value), "dirs": apps_abs(i.directives.iter())})
}

/// Abstract schema of a real one (user-defined parts only) plus the built-in scalars present in the type map.
pub fn project(schema: &Schema) -> J {
    let mut types = vec![];
    let mut reserved: Vec<String> = vec![];
    let mut note = |n: &str, reserved: &mut Vec<String>| {
        if n.starts_with("__") && !reserved.iter().any(|r| r == n) {
            reserved.push(n.to_string());
        }
    };
    for (name, ty) in &schema.types {
        if ty.is_built_in() {
            continue;
        }
        note(name.as_str(), &mut reserved);
        let dirs = apps_abs(ty.directives().iter().map(|c| &c.node));
        let base = |kind: &str| json!({"kind": kind, "name": name.as_str(), "dirs": dirs.clone(), "ifaces": [], "fields": [], "members": [], "values": [], "inputFields": []});
        let fields_abs = |fields: &apollo_compiler::collections::IndexMap<apollo_compiler::Name, apollo_compiler::schema::Component<ast::FieldDefinition>>, reserved: &mut Vec<String>| -> J {
            J::Array(fields.values().map(|f| {
                if f.name.starts_with("__") && !reserved.iter().any(|r| r == f.name.as_str()) { reserved.push(f.name.to_string()); }
                for a in &f.arguments { if a.name.starts_with("__") && !reserved.iter().any(|r| r == a.name.as_str()) { reserved.push(a.name.to_string()); } }
                json!({"name": f.name.as_str(), "type": type_abs(&f.ty), "args": f.arguments.iter().map(|a| ivd_abs(a)).collect::<Vec<_>>(), "dirs": apps_abs(f.directives.iter())})
            }).collect())
        };
        let mut t = match ty {
            ExtendedType::Scalar(_) => base("scalar"),
            ExtendedType::Object(o) => {
                let mut t = base("object");
                t["ifaces"] = J::Array(o.implements_interfaces.iter().map(|i| json!(i.name.as_str())).collect());
                t["fields"] = fields_abs(&o.fields, &mut reserved);
                t
            }
            ExtendedType::Interface(o) => {
                let mut t = base("interface");
                t["ifaces"] = J::Array(o.implements_interfaces.iter().map(|i| json!(i.name.as_str())).collect());
                t["fields"] = fields_abs(&o.fields, &mut reserved);
                t
            }
            ExtendedType::Union(u) => {
                let mut t = base("union");
                t["members"] = J::Array(u.members.iter().map(|m| json!(m.name.as_str())).collect());
                t
            }
            ExtendedType::Enum(e) => {
                let mut t = base("enum");
                t["values"] = J::Array(e.values.values().map(|v| json!({"name": v.value.as_str(), "dirs": apps_abs(v.directives.iter())})).collect());
                t
            }
            ExtendedType::InputObject(o) => {
                let mut t = base("input");
                for f in o.fields.values() { if f.name.starts_with("__") && !reserved.iter().any(|r| r == f.name.as_str()) { reserved.push(f.name.to_string()); } }
                t["inputFields"] = J::Array(o.fields.values().map(|f| ivd_abs(f)).collect());
                t
            }
        };
        t["dirs"] = dirs;
        types.push(t);
    }
    let mut directives = vec![];
    for (name, d) in &schema.directive_definitions {
        if d.is_built_in() {
            continue;
        }
        note(name.as_str(), &mut reserved);
        directives.push(json!({"name": name.as_str(), "args": d.arguments.iter().map(|a| ivd_abs(a)).collect::<Vec<_>>(), "repeatable": d.repeatable,
            "locations": d.locations.iter().map(|l| l.name()).collect::<Vec<_>>()}));
    }
    let sd = &schema.schema_definition;
    let root = |r: &Option<apollo_compiler::schema::ComponentName>| r.as_ref().map(|c| c.name.to_string()).unwrap_or_default();
    let present: Vec<String> = schema.types.keys().filter(|k| matches!(k.as_str(), "Int" | "Float" | "String" | "Boolean" | "ID")).map(|k| k.to_string()).collect();
    json!({
        "schemaDef": {"explicit": true, "dirs": apps_abs(sd.directives.iter().map(|c| &c.node)), "roots": {"query": root(&sd.query), "mutation": root(&sd.mutation), "subscription": root(&sd.subscription)}},
        "directives": directives, "types": types, "reserved": reserved, "presentScalars": present,
    })
}

macro_rules! lazy_push {
    ($out:ident, $counter:ident, $only:ident, $label:expr, $make:expr) => {{
        match $only {
            None => $out.push(($label, $make)),
            Some(k) if k == $counter => $out.push(($label, $make)),
            Some(_) => {}
        }
        $counter += 1;
    }};
}

// ------------------------------------------------------------------ seeds and mutation

pub const SEEDS: &[&str] = &[
    // A: objects with arguments and defaults, interface hierarchy, union, enum, input objects, custom directives
    "schema { query: Q mutation: M }
directive @d(a: Int!, b: String = \"x\") repeatable on OBJECT | FIELD_DEFINITION | ARGUMENT_DEFINITION
directive @e on ENUM_VALUE | INPUT_FIELD_DEFINITION | UNION | SCALAR | INTERFACE | ENUM | INPUT_OBJECT | SCHEMA
type Q implements I & J @d(a: 1) { f(x: Int = 1, y: In): T g: [U!]! i: I @d(a: 2) l: [T] ll: [[T]!] lu: [Q!]! }
type M { m(in: In!): Int }
interface I implements J { f(x: Int): T i: I l: [T] ll: [[T]] lu: [U] }
interface J { i: J }
type T { t: Int e: E s: S }
union U @e = Q | T
enum E @e { A @e B }
input In @e { a: Int! = 1 b: [In] c: E @e }
scalar S @e",
    // B: implicit schema definition, subscription, deprecations, specifiedBy, non-null input chains
    "type Query { a(x: [Int!] @deprecated): Int @deprecated(reason: \"r\") n: Node }
type Mutation { b: Boolean }
type Subscription { c: ID }
interface Node { id: ID! }
type Thing implements Node { id: ID! other: Thing }
input A { b: B! x: Int }
input B { a: [A!] y: Float = 1.5 @deprecated }
scalar Url @specifiedBy(url: \"https://x\")
enum Color { RED @deprecated GREEN }
directive @only(x: Color = RED, y: A) on FIELD | QUERY",
];

fn name_pool(s: &J) -> Vec<String> {
    let mut v: Vec<String> = s["types"].as_array().unwrap().iter().map(|t| t["name"].as_str().unwrap().to_string()).collect();
    v.extend(["Int", "String", "Nope", "__x"].iter().map(|x| x.to_string()));
    v
}

/// All single mutations of an abstract schema (structure-aware, every position).
pub fn mutants(s: &J) -> Vec<(String, J)> {
    mutants_sel(s, None).0
}

/// Number of single mutations of `s` (cheap: nothing is materialised).
pub fn count_mutants(s: &J) -> usize {
    mutants_sel(s, Some(usize::MAX)).1
}

/// The k-th single mutation only.
pub fn nth_mutant(s: &J, k: usize) -> Option<(String, J)> {
    mutants_sel(s, Some(k)).0.into_iter().next()
}

fn mutants_sel(s: &J, only: Option<usize>) -> (Vec<(String, J)>, usize) {
    let mut out: Vec<(String, J)> = vec![];
    let mut counter: usize = 0;
    let names = name_pool(s);
    fn walk(cur: &J, path: &mut Vec<String>, paths: &mut Vec<Vec<String>>) {
        paths.push(path.clone());
        match cur {
            J::Array(a) => {
                for (i, x) in a.iter().enumerate() {
                    path.push(i.to_string());
                    walk(x, path, paths);
                    path.pop();
                }
            }
            J::Object(m) => {
                for (k, x) in m {
                    if k == "reserved" || k == "presentScalars" {
                        continue;
                    }
                    path.push(k.clone());
                    walk(x, path, paths);
                    path.pop();
                }
            }
            _ => {}
        }
    }
    let mut paths = vec![];
    walk(s, &mut vec![], &mut paths);
    let get = |root: &J, p: &[String]| -> J {
        let mut c = root;
        for k in p {
            c = match c { J::Array(a) => &a[k.parse::<usize>().unwrap()], J::Object(m) => &m[k], _ => c };
        }
        c.clone()
    };
    let set = |root: &J, p: &[String], v: J| -> J {
        fn rec(c: &mut J, p: &[String], v: J) {
            if p.is_empty() { *c = v; return; }
            match c {
                J::Array(a) => rec(&mut a[p[0].parse::<usize>().unwrap()], &p[1..], v),
                J::Object(m) => rec(m.get_mut(&p[0]).unwrap(), &p[1..], v),
                _ => {}
            }
        }
        let mut r = root.clone();
        rec(&mut r, p, v);
        r
    };
    for p in &paths {
        let cur = get(s, p);
        let last = p.last().cloned().unwrap_or_default();
        let pstr = p.join("/");
        let is_type_ref = cur.is_array() && cur.as_array().map(|a| !a.is_empty() && matches!(a[0].as_str(), Some("named" | "list" | "nonnull"))).unwrap_or(false)
            && (last == "type" || p.len() >= 2 && { let parent = get(s, &p[..p.len() - 1]); parent.is_array() && matches!(parent[0].as_str(), Some("list" | "nonnull")) });
        let is_value = last == "value";
        if is_type_ref {
            if cur[0] == "nonnull" { lazy_push!(out, counter, only, format!("{pstr}:drop-nonnull"), set(s, p, cur[1].clone())); } else { lazy_push!(out, counter, only, format!("{pstr}:add-nonnull"), set(s, p, json!(["nonnull", cur.clone()]))); }
            if cur[0] != "nonnull" { lazy_push!(out, counter, only, format!("{pstr}:wrap-list"), set(s, p, json!(["list", cur.clone()]))); }
            if cur[0] == "list" { lazy_push!(out, counter, only, format!("{pstr}:unwrap-list"), set(s, p, cur[1].clone())); }
            if cur[0] == "named" {
                for n in &names {
                    if Some(n.as_str()) != cur[1].as_str() {
                        lazy_push!(out, counter, only, format!("{pstr}:named={n}"), set(s, p, json!(["named", n])));
                    }
                }
            }
            continue;
        }
        if is_value {
            for k in ["int", "str", "null", "bool"] {
                if cur[0] != k { lazy_push!(out, counter, only, format!("{pstr}:value={k}"), set(s, p, json!([k]))); }
            }
            continue;
        }
        match &cur {
            J::Array(a) if !is_type_ref && last != "value" => {
                // element removal / duplication / swap (also lists of names: ifaces, members, locations)
                for i in 0..a.len() {
                    let mut b = a.clone();
                    b.remove(i);
                    lazy_push!(out, counter, only, format!("{pstr}:remove[{i}]"), set(s, p, J::Array(b)));
                    let mut c = a.clone();
                    c.push(a[i].clone());
                    lazy_push!(out, counter, only, format!("{pstr}:duplicate[{i}]"), set(s, p, J::Array(c)));
                }
                if matches!(last.as_str(), "ifaces" | "members") {
                    for n in &names {
                        let mut c = a.clone();
                        c.push(json!(n));
                        lazy_push!(out, counter, only, format!("{pstr}:add={n}"), set(s, p, J::Array(c)));
                    }
                }
                if last == "locations" {
                    for l in ["OBJECT", "FIELD_DEFINITION", "QUERY"] {
                        let mut c = a.clone();
                        c.push(json!(l));
                        lazy_push!(out, counter, only, format!("{pstr}:add={l}"), set(s, p, J::Array(c)));
                    }
                }
                // a new argument on a field or directive DEFINITION (the parent has a type or locations): optional,
                // required, required with a default (an implementing field may only add the first and the last kind)
                let parent_is_def = p.len() >= 1 && { let par = get(s, &p[..p.len() - 1]); par.get("type").is_some() && par.get("args").is_some() && par.get("default").is_none() || par.get("locations").is_some() };
                if last == "args" && parent_is_def {
                    for (what, ty, default) in [("optional", json!(["named", "Int"]), "none"), ("required", json!(["nonnull", ["named", "Int"]]), "none"), ("defaulted", json!(["nonnull", ["named", "Int"]]), "value")] {
                        let mut c = a.clone();
                        c.push(json!({"name": "zz", "type": ty, "default": default, "dirs": []}));
                        lazy_push!(out, counter, only, format!("{pstr}:add-{what}-argument"), set(s, p, J::Array(c)));
                    }
                }
                if last == "dirs" {
                    for d in ["d", "e", "deprecated", "skip", "undefinedDirective", "specifiedBy"] {
                        let mut c = a.clone();
                        c.push(json!({"name": d, "args": []}));
                        lazy_push!(out, counter, only, format!("{pstr}:apply=@{d}"), set(s, p, J::Array(c)));
                    }
                }
            }
            J::String(st) => {
                if last == "name" {
                    for n in &names {
                        if n != st { lazy_push!(out, counter, only, format!("{pstr}:rename={n}"), set(s, p, json!(n))); }
                    }
                    lazy_push!(out, counter, only, format!("{pstr}:rename=zz"), set(s, p, json!("zz")));
                } else if last == "default" {
                    for d in ["none", "null", "value"] {
                        if d != st { lazy_push!(out, counter, only, format!("{pstr}:default={d}"), set(s, p, json!(d))); }
                    }
                } else if last == "kind" {
                    for k in ["object", "interface", "union", "enum", "input", "scalar"] {
                        if k != st { lazy_push!(out, counter, only, format!("{pstr}:kind={k}"), set(s, p, json!(k))); }
                    }
                } else if matches!(last.as_str(), "query" | "mutation" | "subscription") {
                    for n in names.iter().map(|x| x.as_str()).chain([""]) {
                        if n != st { lazy_push!(out, counter, only, format!("{pstr}:root={n}"), set(s, p, json!(n))); }
                    }
                } else if p.len() >= 2 && matches!(p[p.len() - 2].as_str(), "ifaces" | "members") {
                    for n in &names {
                        if n != st { lazy_push!(out, counter, only, format!("{pstr}:ref={n}"), set(s, p, json!(n))); }
                    }
                }
            }
            J::Bool(b) => lazy_push!(out, counter, only, format!("{pstr}:toggle"), set(s, p, json!(!b))),
            _ => {}
        }
    }
    (out, counter)
}

fn has_double_nonnull(c: &J) -> bool {
    match c {
        J::Array(a) => {
            if a.len() == 2 && a[0] == "nonnull" && a[1].is_array() && a[1][0] == "nonnull" {
                return true;
            }
            a.iter().any(has_double_nonnull)
        }
        J::Object(m) => m.values().any(has_double_nonnull),
        _ => false,
    }
}

/// Normalise a mutated schema to what the renderer can express (otherwise model and text would differ):
/// component lists that do not belong to the kind are emptied, an implicit schema definition has no directives.
fn normalise(s: &mut J) {
    if !s["schemaDef"]["explicit"].as_bool().unwrap_or(false) {
        s["schemaDef"]["dirs"] = json!([]);
    }
    if let Some(types) = s["types"].as_array_mut() {
        for t in types {
            let kind = t["kind"].as_str().unwrap_or("scalar").to_string();
            let keep: &[&str] = match kind.as_str() {
                "object" | "interface" => &["ifaces", "fields"],
                "union" => &["members"],
                "enum" => &["values"],
                "input" => &["inputFields"],
                _ => &[],
            };
            for k in ["ifaces", "fields", "members", "values", "inputFields"] {
                if !keep.contains(&k) {
                    t[k] = json!([]);
                }
            }
        }
    }
}

fn finish(mut s: J) -> J {
    normalise(&mut s);
    // recompute the reserved-name list of a mutated schema
    let mut reserved: Vec<String> = vec![];
    fn walk(c: &J, reserved: &mut Vec<String>) {
        match c {
            J::Array(a) => a.iter().for_each(|x| walk(x, reserved)),
            J::Object(m) => {
                if let Some(J::String(n)) = m.get("name") {
                    if n.starts_with("__") && !reserved.contains(n) && m.get("args").map(|a| a.as_array().map(|x| x.iter().all(|y| y.get("value").is_none())).unwrap_or(true)).unwrap_or(true) {
                        reserved.push(n.clone());
                    }
                }
                m.iter().filter(|(k, _)| k.as_str() != "dirs").for_each(|(_, x)| walk(x, reserved));
            }
            _ => {}
        }
    }
    walk(&json!({"t": s["types"], "d": s["directives"]}), &mut reserved);
    s["reserved"] = json!(reserved);
    s
}

fn verdict(sdl: &str) -> Result<(bool, Vec<String>), String> {
    guarded(|| match Schema::parse_and_validate(sdl.to_string(), "s.graphql") {
        Ok(v) => (true, v.types.keys().filter(|k| matches!(k.as_str(), "Int" | "Float" | "String" | "Boolean" | "ID")).map(|k| k.to_string()).collect()),
        Err(_) => (false, vec![]),
    })
}

/// `schema-cases --seed S --depth2 N`: one Trace_SchemaRules line per seed / mutant / corpus schema
pub fn cases(args: &[String]) {
    silence_panics();
    let seed = arg_num(args, "--seed", 1);
    let depth2 = arg_num(args, "--depth2", 300) as usize;
    let mut rng = Rng::new(seed ^ 0xC14);
    let mut out = Out::new();
    let mut emit = |out: &mut Out, s: J, origin: String| {
        if has_double_nonnull(&s) {
            return; // `T!!` is not a type reference
        }
        // an explicit schema definition without any root operation cannot be written down
        if s["schemaDef"]["explicit"].as_bool().unwrap_or(false) && ["query", "mutation", "subscription"].iter().all(|op| s["schemaDef"]["roots"][*op].as_str().unwrap_or("").is_empty()) {
            return;
        }
        let s = finish(s);
        let sdl = render(&s);
        match verdict(&sdl) {
            Ok((ok, present)) => out.line(&json!({"origin": origin, "schema": s, "ok": ok, "presentScalars": present, "checkScalars": ok, "sdl": sdl, "crash": false})),
            Err(p) => out.line(&json!({"origin": origin, "schema": s, "ok": false, "presentScalars": [], "checkScalars": false, "sdl": sdl, "crash": true, "what": p})),
        }
    };
    for (k, sdl) in SEEDS.iter().enumerate() {
        // the seed is projected from what was built even if the code under test rejects it (its verdict is data)
        let real = match Schema::parse_and_validate(sdl.to_string(), "seed.graphql") {
            Ok(v) => v.into_inner(),
            Err(e) => e.partial,
        };
        let mut abs = project(&real);
        if k == 1 {
            abs["schemaDef"]["explicit"] = json!(false);
        }
        emit(&mut out, abs.clone(), format!("seed-{k}"));
        let ms = mutants(&abs);
        for (what, m) in &ms {
            emit(&mut out, m.clone(), format!("seed-{k}:{what}"));
        }
        // depth 2: a sample of mutants of mutants (in particular: mutate until valid again)
        for _ in 0..depth2 {
            let (w1, m1) = &ms[rng.below(ms.len())];
            let n2 = count_mutants(m1);
            if n2 == 0 {
                continue;
            }
            let Some((w2, m2)) = nth_mutant(m1, rng.below(n2)) else { continue };
            emit(&mut out, m2, format!("seed-{k}:{w1}+{w2}"));
        }
    }
    // C15: mutate invalid schemas until the real validator accepts them again
    let until_valid = arg_num(args, "--until-valid", 100) as usize;
    for (k, sdl) in SEEDS.iter().enumerate() {
        // the seed is projected from what was built even if the code under test rejects it (its verdict is data)
        let real = match Schema::parse_and_validate(sdl.to_string(), "seed.graphql") {
            Ok(v) => v.into_inner(),
            Err(e) => e.partial,
        };
        let abs = project(&real);
        let ms = mutants(&abs);
        let mut found = 0;
        let mut tries = 0;
        while found < until_valid && tries < until_valid * 30 {
            tries += 1;
            let (w1, m1) = &ms[rng.below(ms.len())];
            let m1 = finish(m1.clone());
            if has_double_nonnull(&m1) || verdict(&render(&m1)).map(|v| v.0).unwrap_or(true) {
                continue; // start from an invalid one
            }
            let mut cur = m1;
            let mut trail = w1.clone();
            for _ in 0..3 {
                let n2 = count_mutants(&cur);
                if n2 == 0 {
                    break;
                }
                let Some((w2, m2)) = nth_mutant(&cur, rng.below(n2)) else { break };
                let m2 = finish(m2);
                if has_double_nonnull(&m2) {
                    continue;
                }
                trail = format!("{trail}+{w2}");
                cur = m2;
                if verdict(&render(&cur)).map(|v| v.0).unwrap_or(false) {
                    found += 1;
                    emit(&mut out, cur.clone(), format!("seed-{k}:until-valid:{trail}"));
                    break;
                }
            }
        }
    }
    // impl -> spec: corpus schemas projected
    for dir in ["/repo/crates/apollo-compiler/test_data/ok", "/repo/crates/apollo-compiler/test_data/diagnostics", "/repo/crates/apollo-compiler/test_data/serializer/ok", "/repo/crates/apollo-compiler/test_data/introspection"] {
        if let Ok(rd) = std::fs::read_dir(dir) {
            let mut es: Vec<_> = rd.filter_map(|e| e.ok()).map(|e| e.path()).collect();
            es.sort();
            for e in es {
                if e.extension().map(|x| x == "graphql").unwrap_or(false) {
                    if let Ok(src) = std::fs::read_to_string(&e) {
                        let r = guarded(|| {
                            let ast = ast::Document::parse(src.clone(), "c.graphql").ok()?;
                            if ast.definitions.iter().any(|d| d.is_extension_definition()) {
                                return None; // extensions are not part of the abstract model
                            }
                            let schema = ast.to_schema().ok()?;
                            let ok = schema.clone().validate();
                            let (okb, present) = match &ok {
                                Ok(v) => (true, v.types.keys().filter(|k| matches!(k.as_str(), "Int" | "Float" | "String" | "Boolean" | "ID")).map(|k| k.to_string()).collect::<Vec<_>>()),
                                Err(_) => (false, vec![]),
                            };
                            let mut abs = project(&schema);
                            // was the schema definition explicit in the source?
                            abs["schemaDef"]["explicit"] = json!(ast.definitions.iter().any(|d| matches!(d, ast::Definition::SchemaDefinition(_))));
                            Some((abs, okb, present))
                        });
                        if let Ok(Some((abs, ok, present))) = r {
                            let name = e.file_name().unwrap().to_string_lossy().to_string();
                            out.line(&json!({"origin": format!("corpus:{name}"), "schema": abs, "ok": ok, "presentScalars": present, "checkScalars": ok, "sdl": "", "crash": false}));
                        }
                    }
                }
            }
        }
    }
}
