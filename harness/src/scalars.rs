//! C16: validation is idempotent; built-in scalars present = referenced.
use crate::util::*;
use apollo_compiler::ast::{FieldDefinition, Type};
use apollo_compiler::schema::{Component, ExtendedType};
use apollo_compiler::{ExecutableDocument, Name, Schema};
use serde_json::{json, Value as J};

const BUILTIN: &[&str] = &["Int", "Float", "String", "Boolean", "ID"];

fn present(schema: &Schema) -> Vec<String> {
    schema.types.keys().filter(|k| BUILTIN.contains(&k.as_str())).map(|k| k.to_string()).collect()
}

/// stdin: ["CASE", [[op, arg, presentAfter]...]]
pub fn replay(_args: &[String]) {
    silence_panics();
    let mut out = Out::new();
    let (mut n, mut bad, mut nontrivial) = (0u64, 0u64, 0u64);
    read_lines(|v| {
        n += 1;
        let steps = v[1].as_array().unwrap().clone();
        if steps.iter().filter(|s| s[0] == "validate").count() >= 2 {
            nontrivial += 1;
        }
        let r = guarded(|| {
            let mut why: Vec<String> = vec![];
            let mut schema = Schema::parse("type Query { base: Boolean }", "s.graphql").map_err(|e| e.errors.to_string())?;
            let mut k = 0;
            for (i, st) in steps.iter().enumerate() {
                match st[0].as_str().unwrap() {
                    "add" => {
                        let s = st[1].as_str().unwrap();
                        k += 1;
                        let fname = Name::new(&format!("f{k}")).unwrap();
                        let ExtendedType::Object(q) = schema.types.get_mut("Query").unwrap() else { unreachable!() };
                        q.make_mut().fields.insert(
                            fname.clone(),
                            Component::new(FieldDefinition {
                                description: None,
                                name: fname,
                                arguments: vec![],
                                ty: Type::Named(Name::new(s).unwrap()),
                                directives: Default::default(),
                            }),
                        );
                    }
                    "drop" => {
                        let s = st[1].as_str().unwrap();
                        let ExtendedType::Object(q) = schema.types.get_mut("Query").unwrap() else { unreachable!() };
                        q.make_mut().fields.retain(|name, f| name.as_str() == "base" || f.ty.inner_named_type().as_str() != s);
                    }
                    _ => {
                        let mut expect: Vec<String> = st[2].as_array().unwrap().iter().map(|x| x.as_str().unwrap().to_string()).collect();
                        expect.sort();
                        match schema.clone().validate() {
                            Err(e) => {
                                why.push(format!("step {i}: validation fails: {}", e.errors.to_string().lines().next().unwrap_or("")));
                                break;
                            }
                            Ok(valid) => {
                                let mut got = present(&valid);
                                let order1 = got.clone();
                                got.sort();
                                if got != expect {
                                    why.push(format!("step {i}: built-in scalars present {got:?}, referenced {expect:?}"));
                                }
                                // idempotence: unwrap, validate again, nothing changes
                                let inner = valid.into_inner();
                                match inner.clone().validate() {
                                    Err(_) => why.push(format!("step {i}: re-validating the unwrapped valid schema fails")),
                                    Ok(again) => {
                                        if present(&again) != order1 {
                                            why.push(format!("step {i}: re-validation changed the built-in scalars: {:?} -> {:?}", order1, present(&again)));
                                        }
                                        if *again != inner {
                                            why.push(format!("step {i}: re-validated schema is not equal"));
                                        }
                                        if again.types.keys().collect::<Vec<_>>() != inner.types.keys().collect::<Vec<_>>() {
                                            why.push(format!("step {i}: re-validation changed the order of the type map"));
                                        }
                                        if again.to_string() != inner.to_string() {
                                            why.push(format!("step {i}: re-validation changed the serialization"));
                                        }
                                    }
                                }
                                schema = inner;
                            }
                        }
                    }
                }
            }
            Ok::<_, String>(why)
        });
        let why = match r {
            Err(p) => vec![format!("panic: {p}")],
            Ok(Err(e)) => vec![format!("tool: {e}")],
            Ok(Ok(w)) => w,
        };
        if !why.is_empty() {
            bad += 1;
            out.line(&json!({"bad": true, "history": v[1], "why": why}));
        }
    });
    out.line(&json!({"summary": true, "cases": n, "bad": bad, "nontrivial": nontrivial}));
}

fn mixed_files() -> Vec<String> {
    let mut out = vec![];
    for d in ["/repo/crates/apollo-compiler/test_data/ok", "/repo/crates/apollo-compiler/test_data/serializer/ok"] {
        if let Ok(rd) = std::fs::read_dir(d) {
            let mut es: Vec<_> = rd.filter_map(|e| e.ok()).map(|e| e.path()).collect();
            es.sort();
            for e in es {
                if e.extension().map(|x| x == "graphql").unwrap_or(false) {
                    if let Ok(s) = std::fs::read_to_string(&e) {
                        out.push(s);
                    }
                }
            }
        }
    }
    out
}

/// Trace_Monitor lines: every valid corpus (schema, document) pair validated twice.
pub fn revalidate(_args: &[String]) {
    silence_panics();
    let mut out = Out::new();
    for (fi, src) in mixed_files().iter().enumerate() {
        let r = guarded(|| {
            let Ok((schema, doc)) = apollo_compiler::parser::Parser::new().parse_mixed_validate(src.clone(), "m.graphql") else { return None };
            let schema_text = schema.to_string();
            let inner = schema.clone().into_inner();
            let again = inner.clone().validate();
            let (ok2, same, text2) = match &again {
                Ok(a) => (true, **a == inner, a.to_string()),
                Err(_) => (false, false, String::new()),
            };
            let doc_inner: ExecutableDocument = doc.clone().into_inner();
            let doc_again = doc_inner.clone().validate(&schema);
            let (dok, dsame, dtext) = match &doc_again {
                Ok(d) => (true, **d == doc_inner, d.to_string()),
                Err(_) => (false, false, String::new()),
            };
            Some(json!({"kind": "revalidate", "file": fi,
                "pairs": [["schema-serialization", schema_text, text2], ["document-serialization", doc.to_string(), dtext],
                          ["type-map-order", schema.types.keys().map(|k| k.to_string()).collect::<Vec<_>>(),
                           again.as_ref().map(|a| a.types.keys().map(|k| k.to_string()).collect::<Vec<_>>()).unwrap_or_default()]],
                "flags": [["schema-revalidates", ok2], ["schema-unchanged", same], ["document-revalidates", dok], ["document-unchanged", dsame]]}))
        });
        match r {
            Ok(Some(l)) => out.line(&l),
            Ok(None) => {}
            Err(p) => out.line(&json!({"kind": "crash", "file": fi, "pairs": [], "flags": [["no-panic", false]], "what": p})),
        }
    }
    let _ = J::Null;
}
