//! C13 (executable builder): several sources vs their concatenation.
use crate::util::*;
use apollo_compiler::validation::DiagnosticList;
use apollo_compiler::{ExecutableDocument, Schema};
use serde_json::json;

const SCHEMA: &str = "type Query { a: Int b: Query c(x: Int): Int } type Mutation { m: Int } interface I { a: Int }";

const DEFS: &[&str] = &[
    "query A { a }",
    "query A { b { a } }",
    "query B { c(x: 1) ...F }",
    "{ a }",
    "{ b { ...G } }",
    "mutation M { m }",
    "mutation A { m }",
    "fragment F on Query { a }",
    "fragment F on Query { b { a } }",
    "fragment G on Query { a ...F }",
    "query C { nope }",
    "fragment H on Nope { a }",
    "subscription S { a }",
];

fn build(chunks: &[String], with_schema: bool) -> (String, Vec<String>, Vec<String>) {
    let schema = Schema::parse_and_validate(SCHEMA, "schema.graphql").unwrap();
    let mut errors = DiagnosticList::new(Default::default());
    let mut b = ExecutableDocument::builder(if with_schema { Some(&schema) } else { None }, &mut errors);
    for (k, c) in chunks.iter().enumerate() {
        b = b.parse(c.clone(), format!("q{k}.graphql"));
    }
    let doc = b.build();
    let mut names: Vec<String> = vec![];
    if doc.operations.anonymous.is_some() {
        names.push("<anonymous>".into());
    }
    names.extend(doc.operations.named.keys().map(|k| format!("op {k}")));
    names.extend(doc.fragments.keys().map(|k| format!("fragment {k}")));
    let mut msgs: Vec<String> = errors.iter().map(|d| d.error.to_string()).collect();
    msgs.sort();
    (doc.to_string(), names, msgs)
}

pub fn chunks(args: &[String]) {
    silence_panics();
    let seed = arg_num(args, "--seed", 1);
    let count = arg_num(args, "--count", 300) as usize;
    let mut rng = Rng::new(seed ^ 0xC13);
    let mut out = Out::new();
    for _ in 0..count {
        let n = rng.range(1, 4);
        let defs: Vec<String> = (0..n).map(|_| rng.pick(DEFS).to_string()).collect();
        let with_schema = rng.chance(3, 4);
        let mut chunks: Vec<String> = vec![];
        let mut cur = String::new();
        for d in &defs {
            cur.push_str(d);
            cur.push('\n');
            if rng.chance(1, 2) {
                chunks.push(std::mem::take(&mut cur));
            }
        }
        if !cur.is_empty() {
            chunks.push(cur);
        }
        let r = guarded(|| {
            let whole = build(&[defs.join("\n") + "\n"], with_schema);
            let parts = build(&chunks, with_schema);
            (whole, parts)
        });
        match r {
            Ok((w, p)) => out.line(&json!({"kind": "chunking", "sources": chunks, "pairs": [
                ["definitions-in-order", w.1, p.1], ["serialization", w.0, p.0], ["diagnostics", w.2, p.2]], "flags": []})),
            Err(e) => out.line(&json!({"kind": "crash", "sources": chunks, "pairs": [], "flags": [["no-panic", false]], "what": e})),
        }
    }
}
