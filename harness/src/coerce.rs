//! C28: variable coercion vs Coercion.tla.
use crate::util::*;
use apollo_compiler::request::coerce_variable_values;
use apollo_compiler::response::JsonMap;
use apollo_compiler::{ExecutableDocument, Schema};
use serde_json::{json, Value as J};

const SDL: &str = "enum E { V W } input In { d: Int = 7 l: [Int] n: In r: Int! } type Query { f(a: Int, b: Float, c: ID, d: String, e: Boolean, g: E, h: In): Int }";

fn num(tag: &str) -> J {
    match tag {
        "i32max" => json!(2147483647i64),
        "i32max+1" => json!(2147483648i64),
        "i32min" => json!(-2147483648i64),
        "i32min-1" => json!(-2147483649i64),
        "1.5" => json!(1.5),
        t => json!(t.parse::<i64>().unwrap()),
    }
}

/// abstract JSON value -> serde_json value
pub fn concrete(v: &J) -> J {
    match v[0].as_str().unwrap() {
        "null" => J::Null,
        "bool" => json!(v[1].as_bool().unwrap()),
        "num" => num(v[1].as_str().unwrap()),
        "str" => json!(v[1].as_str().unwrap()),
        "list" => J::Array(v[1].as_array().unwrap().iter().map(concrete).collect()),
        _ => {
            let mut m = serde_json::Map::new();
            for p in v[1].as_array().unwrap() {
                m.insert(p[0].as_str().unwrap().to_string(), concrete(&p[1]));
            }
            J::Object(m)
        }
    }
}

fn literal(v: &J) -> String {
    match v[0].as_str().unwrap() {
        "null" => "null".into(),
        "bool" => v[1].to_string(),
        "num" => num(v[1].as_str().unwrap()).to_string(),
        "str" => if matches!(v[1].as_str().unwrap(), "V" | "W") { v[1].as_str().unwrap().to_string() } else { format!("{:?}", v[1].as_str().unwrap()) },
        "list" => format!("[{}]", v[1].as_array().unwrap().iter().map(literal).collect::<Vec<_>>().join(", ")),
        _ => format!("{{{}}}", v[1].as_array().unwrap().iter().map(|p| format!("{}: {}", p[0].as_str().unwrap(), literal(&p[1]))).collect::<Vec<_>>().join(", ")),
    }
}

pub fn type_text(t: &J) -> String {
    match t[0].as_str().unwrap() {
        "named" => t[1].as_str().unwrap().to_string(),
        "list" => format!("[{}]", type_text(&t[1])),
        _ => format!("{}!", type_text(&t[1])),
    }
}

fn canon(v: &J) -> J {
    match v {
        J::Array(a) => J::Array(a.iter().map(canon).collect()),
        J::Object(m) => {
            let mut keys: Vec<&String> = m.keys().collect();
            keys.sort();
            let mut out = serde_json::Map::new();
            for k in keys {
                out.insert(k.clone(), canon(&m[k]));
            }
            J::Object(out)
        }
        other => other.clone(),
    }
}

/// stdin: ["CASE", type, hasDefault, default, provided | ["absent"], expected]
pub fn replay(_args: &[String]) {
    silence_panics();
    let schema = Schema::parse_and_validate(SDL, "s.graphql").unwrap();
    let mut out = Out::new();
    let (mut n, mut bad, mut nontrivial) = (0u64, 0u64, 0u64);
    read_lines(|v| {
        n += 1;
        let ty = type_text(&v[1]);
        let has_default = v[2].as_bool().unwrap();
        let is_enum_default = v[3][0] == "str" && v[3][1] == "V";
        let default_lit = if is_enum_default { "V".to_string() } else if v[3][0] == "str" { format!("{:?}", v[3][1].as_str().unwrap()) } else { literal(&v[3]) };
        let doc = format!("query(${}: {ty}{}) {{ f }}", "v", if has_default { format!(" = {default_lit}") } else { String::new() });
        let mut vars = serde_json::Map::new();
        if v[4][0] != "absent" {
            vars.insert("v".to_string(), concrete(&v[4]));
        }
        let expect = &v[5];
        if expect[0] == "ok" {
            nontrivial += 1;
        }
        let r = guarded(|| {
            let d = match ExecutableDocument::parse(&schema, doc.clone(), "q.graphql") {
                Ok(d) => d,
                Err(e) => return Err(format!("tool: operation does not build: {}", e.errors.to_string().lines().next().unwrap_or(""))),
            };
            let op = d.operations.get(None).map_err(|_| "tool: no operation".to_string())?;
            let map: JsonMap = serde_json::from_value(J::Object(vars.clone())).map_err(|e| format!("tool: {e}"))?;
            Ok(match coerce_variable_values(&schema, op, &map) {
                Ok(valid) => {
                    let j: J = serde_json::to_value(&*valid).unwrap();
                    match j.get("v") {
                        Some(x) => json!(["ok", ["present", canon(x)]]),
                        None => json!(["ok", ["absent"]]),
                    }
                }
                Err(_) => json!(["err"]),
            })
        });
        let why = match r {
            Err(p) => Some(format!("panic: {p}")),
            Ok(Err(e)) => Some(e),
            Ok(Ok(got)) => {
                let want = if expect[0] == "ok" {
                    if expect[1][0] == "present" { json!(["ok", ["present", canon(&concrete(&expect[1][1]))]]) } else { json!(["ok", ["absent"]]) }
                } else {
                    json!(["err"])
                };
                if got != want { Some(format!("coerced {got}, reference {want}")) } else { None }
            }
        };
        if let Some(w) = why {
            bad += 1;
            out.line(&json!({"bad": true, "doc": doc, "variables": vars, "case": v, "why": [w]}));
        }
    });
    out.line(&json!({"summary": true, "cases": n, "bad": bad, "nontrivial": nontrivial}));
}

fn abstract_of(v: &J) -> Option<J> {
    Some(match v {
        J::Null => json!(["null"]),
        J::Bool(b) => json!(["bool", b]),
        J::String(s) => json!(["str", s]),
        J::Number(n) => {
            let tag = match n.as_i64() {
                Some(0) => "0", Some(1) => "1", Some(-1) => "-1", Some(5) => "5", Some(7) => "7",
                Some(2147483647) => "i32max", Some(2147483648) => "i32max+1", Some(-2147483648) => "i32min", Some(-2147483649) => "i32min-1",
                Some(_) => return None,
                None => if n.as_f64() == Some(1.5) { "1.5" } else { return None },
            };
            json!(["num", tag])
        }
        J::Array(a) => J::Array(vec![json!("list"), J::Array(a.iter().map(abstract_of).collect::<Option<Vec<_>>>()?)]),
        J::Object(m) => {
            let mut keys: Vec<&String> = m.keys().collect();
            keys.sort();
            let mut pairs = vec![];
            for k in keys {
                pairs.push(json!([k, abstract_of(&m[k])?]));
            }
            json!(["obj", pairs])
        }
    })
}

fn random_value(rng: &mut Rng, depth: usize) -> J {
    match rng.below(if depth == 0 { 8 } else { 11 }) {
        0 => J::Null,
        1 => json!(true),
        2 => json!(*rng.pick(&[0i64, 1, -1, 5, 7, 2147483647, 2147483648, -2147483648, -2147483649])),
        3 => json!(1.5),
        4 => json!(*rng.pick(&["s", "V", "W", "1"])),
        5 | 6 | 7 => json!(*rng.pick(&[0i64, 1, 7])),
        8 => J::Array((0..rng.range(0, 3)).map(|_| random_value(rng, depth - 1)).collect()),
        _ => {
            let mut m = serde_json::Map::new();
            for k in ["d", "l", "n", "r", "x"] {
                if rng.chance(1, 2) {
                    m.insert(k.to_string(), random_value(rng, depth - 1));
                }
            }
            J::Object(m)
        }
    }
}

/// impl -> spec: random types and JSON values; the real result is recorded for Trace_Coercion
pub fn record(args: &[String]) {
    silence_panics();
    let seed = arg_num(args, "--seed", 1);
    let count = arg_num(args, "--count", 1000) as usize;
    let mut rng = Rng::new(seed ^ 0xC28);
    let schema = Schema::parse_and_validate(SDL, "s.graphql").unwrap();
    let mut out = Out::new();
    let names = ["Int", "Float", "String", "Boolean", "ID", "E", "In"];
    let mut emitted = 0;
    while emitted < count {
        let mut t = json!(["named", *rng.pick(&names)]);
        for _ in 0..rng.range(0, 3) {
            t = if t[0] != "nonnull" && rng.chance(1, 3) { json!(["nonnull", t]) } else { json!(["list", t]) };
        }
        let provided = if rng.chance(1, 8) { None } else { Some(random_value(&mut rng, 3)) };
        let abs = match &provided { None => Some(json!(["absent"])), Some(v) => abstract_of(v) };
        let Some(abs) = abs else { continue };
        let doc = format!("query(${}: {}) {{ f }}", "v", type_text(&t));
        let mut vars = serde_json::Map::new();
        if let Some(v) = &provided {
            vars.insert("v".into(), v.clone());
        }
        let r = guarded(|| {
            let d = ExecutableDocument::parse(&schema, doc.clone(), "q.graphql").ok()?;
            let op = d.operations.get(None).ok()?;
            let map: JsonMap = serde_json::from_value(J::Object(vars.clone())).ok()?;
            Some(match coerce_variable_values(&schema, op, &map) {
                Ok(valid) => {
                    let j: J = serde_json::to_value(&*valid).unwrap();
                    match j.get("v") {
                        Some(x) => match abstract_of(&canon(x)) { Some(a) => json!(["ok", ["present", a]]), None => json!(["unrepresentable"]) },
                        None => json!(["ok", ["absent"]]),
                    }
                }
                Err(_) => json!(["err"]),
            })
        });
        match r {
            Ok(Some(got)) => {
                if got[0] == "unrepresentable" { continue }
                out.line(&json!({"type": t, "provided": abs, "got": got, "crash": false}));
            }
            Ok(None) => continue,
            Err(_) => out.line(&json!({"type": t, "provided": abs, "got": ["err"], "crash": true})),
        }
        emitted += 1;
    }
}
