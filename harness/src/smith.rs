//! C32: apollo-smith's DocumentBuilder on arbitrary bytes; facts of each generated document for SmithDoc.tla.
use crate::util::*;
use apollo_compiler::ast;
use apollo_compiler::{ExecutableDocument, Schema};
use apollo_smith::DocumentBuilder;
use arbitrary::Unstructured;
use serde_json::{json, Value as J};

fn bytes_for(rng: &mut Rng, k: usize) -> Vec<u8> {
    let len = match k % 6 {
        0 => rng.range(0, 64),
        1 => rng.range(64, 600),
        2 => rng.range(600, 4000),
        3 => rng.range(4000, 20000),
        _ => rng.range(0, 2500),
    };
    match k % 11 {
        // mostly zero with sparse small values: the input lasts into interfaces, objects, extensions and operations
        // instead of being consumed by names (a seeded change showed that high-entropy bytes end in the all-defaults tail)
        5 | 8 => { let len = len.max(256); (0..len).map(|_| if rng.chance(1, 8) { (rng.next() % 6) as u8 } else { 0 }).collect() }
        6 | 9 => { let len = len.max(256); (0..len).map(|_| if rng.chance(1, 4) { (rng.next() % 16) as u8 } else { 0 }).collect() }
        7 | 10 => { let len = len.max(512); (0..len).map(|_| if rng.chance(1, 16) { rng.next() as u8 } else if rng.chance(1, 3) { 1 } else { 0 }).collect() }
        // dictionary: a sparse background with the byte encodings of awkward NAMES spliced in (a length byte, then one
        // index per character into apollo-smith's name alphabets): reserved words followed by underscores, words that
        // differ from a reserved word in the last character, built-in type names
        4 => {
            let len = len.max(384);
            let mut v: Vec<u8> = (0..len).map(|_| if rng.chance(1, 10) { (rng.next() % 6) as u8 } else { 0 }).collect();
            const HEAD: &[u8] = b"ABCDEFGHIJKLMNOPQRSTUVWXYZabcdefghijklmnopqrstuvwxyz";
            const BODY: &[u8] = b"ABCDEFGHIJKLMNOPQRSTUVWXYZabcdefghijklmnopqrstuvwxyz_0123456789";
            const WORDS: &[&str] = &["on_", "Int_", "Float__", "String_", "Boolean_", "ID_", "on", "Int", "Inu", "query_", "true_", "null_", "fragment_", "type_", "Query_", "__a", "a__"];
            let mut i = rng.range(0, 12);
            while i + 12 < v.len() {
                let w = WORDS[rng.below(WORDS.len())].as_bytes();
                v[i] = (w.len() - 1) as u8;
                for (j, c) in w.iter().enumerate() {
                    let set = if j == 0 { HEAD } else { BODY };
                    v[i + 1 + j] = set.iter().position(|x| x == c).unwrap_or(0) as u8;
                }
                i += w.len() + 1 + rng.range(0, 24);
            }
            v
        }
        0 => (0..len).map(|_| rng.next() as u8).collect(),
        1 => (0..len).map(|_| (rng.next() % 4) as u8).collect(),                     // low entropy
        2 => { let pat: Vec<u8> = (0..rng.range(1, 7)).map(|_| rng.next() as u8).collect(); (0..len).map(|i| pat[i % pat.len()]).collect() }
        3 => (0..len).map(|i| if i % 3 == 0 { 255 } else { rng.next() as u8 }).collect(),
        _ => (0..len).map(|_| if rng.chance(1, 2) { 1 } else { rng.next() as u8 }).collect(),
    }
}

fn build(bytes: &[u8], limits: Option<usize>) -> Result<String, String> {
    let mut u = Unstructured::new(bytes);
    let mut b = DocumentBuilder::new(&mut u);
    if let Some(m) = limits {
        b = b.max_scalar_types(m).max_enum_types(m).max_interface_types(m).max_object_types(m).max_union_types(m)
            .max_input_object_types(m).max_fragment_definitions(m).max_directive_definitions(m).max_operation_definitions(m);
    }
    match b.build() {
        Ok(d) => Ok(String::from(d)),
        Err(e) => Err(format!("{e:?}")),
    }
}

fn brace_depth(text: &str) -> usize {
    let (mut d, mut m) = (0usize, 0usize);
    for c in text.chars() {
        match c {
            '{' | '[' | '(' => { d += 1; m = m.max(d); }
            '}' | ']' | ')' => d = d.saturating_sub(1),
            _ => {}
        }
    }
    m
}

fn spreads(sels: &[ast::Selection], acc: &mut Vec<String>) {
    for s in sels {
        match s {
            ast::Selection::Field(f) => spreads(&f.selection_set, acc),
            ast::Selection::InlineFragment(i) => spreads(&i.selection_set, acc),
            ast::Selection::FragmentSpread(f) => {
                if !acc.contains(&f.fragment_name.to_string()) {
                    acc.push(f.fragment_name.to_string());
                }
            }
        }
    }
}

/// the facts SmithDoc!DocOK talks about, read from the parsed text (definitions and extensions merged)
fn facts(doc: &ast::Document) -> J {
    let mut types = vec![];
    let mut directives = vec![];
    let mut imp: indexmap::IndexMap<String, Vec<String>> = Default::default();
    let mut fields: indexmap::IndexMap<String, Vec<String>> = Default::default();
    let mut frags = serde_json::Map::new();
    let mut ops = vec![];
    macro_rules! obj_like {
        ($d: expr, $is_def: expr) => {{
            if $is_def {
                types.push($d.name.to_string());
            }
            let e = imp.entry($d.name.to_string()).or_default();
            for i in &$d.implements_interfaces {
                if !e.contains(&i.to_string()) {
                    e.push(i.to_string());
                }
            }
            let f = fields.entry($d.name.to_string()).or_default();
            for x in &$d.fields {
                f.push(x.name.to_string());
            }
        }};
    }
    for d in &doc.definitions {
        match d {
            ast::Definition::ObjectTypeDefinition(d) => obj_like!(d, true),
            ast::Definition::ObjectTypeExtension(d) => obj_like!(d, false),
            ast::Definition::InterfaceTypeDefinition(d) => obj_like!(d, true),
            ast::Definition::InterfaceTypeExtension(d) => obj_like!(d, false),
            ast::Definition::ScalarTypeDefinition(d) => types.push(d.name.to_string()),
            ast::Definition::UnionTypeDefinition(d) => types.push(d.name.to_string()),
            ast::Definition::EnumTypeDefinition(d) => types.push(d.name.to_string()),
            ast::Definition::InputObjectTypeDefinition(d) => types.push(d.name.to_string()),
            ast::Definition::DirectiveDefinition(d) => directives.push(d.name.to_string()),
            ast::Definition::FragmentDefinition(d) => {
                let mut acc = vec![];
                spreads(&d.selection_set, &mut acc);
                frags.insert(d.name.to_string(), json!(acc));
            }
            ast::Definition::OperationDefinition(d) => {
                let mut acc = vec![];
                spreads(&d.selection_set, &mut acc);
                ops.push(json!({"name": d.name.as_ref().map(|n| n.as_str()).unwrap_or(""), "spreads": acc}));
            }
            _ => {}
        }
    }
    let to_obj = |m: indexmap::IndexMap<String, Vec<String>>| J::Object(m.into_iter().map(|(k, v)| (k, json!(v))).collect());
    json!({"types": types, "directives": directives, "impl": to_obj(imp), "fields": to_obj(fields), "frags": frags, "ops": ops})
}

const SCHEMAS: &[&str] = &[
    "schema { query: Query } type Query { id: ID! }",
    "schema { query: Q mutation: M subscription: S } type Q { a: Int o: O i: I es: [E!]! f(x: Int, y: In = {r: 1}): String } type M { m(x: Int!): Int } type S { t: Int }
     type O implements I { a: Int c: String o: O } interface I { a: Int } enum E { A B } input In { r: Int! d: Int = 1 } directive @d(x: Int) on FIELD | QUERY",
    "type Query { u: U c: Custom a: A } union U = A | B type A { a: Int u: U } type B { b: Int c: Custom } scalar Custom schema { query: Query }",
    "type Query { n: N! ns(first: Int = 3, after: ID): [N!]! } interface N { id: ID! next: N } type A implements N { id: ID! next: N a(flag: Boolean!): String! tags: [String!]! } type B implements N { id: ID! next: N k: K } enum K { ONE TWO } schema { query: Query }",
];

/// `smith-record --seed S --count N --ops M --start K`: Trace_Smith lines for items K.. (documents first, then operations);
/// a {"begin": k} line is flushed before each item so that the driver can attribute a dying process to its input
pub fn record(args: &[String]) {
    silence_panics();
    let seed = arg_num(args, "--seed", 1);
    let count = arg_num(args, "--count", 300) as usize;
    let nops = arg_num(args, "--ops", 300) as usize;
    let start = arg_num(args, "--start", 0) as usize;
    let mut out = Out::new();
    for k in start..count {
        let mut rng = Rng::new((seed ^ 0xC32).wrapping_mul(1000003).wrapping_add(k as u64));
        let bytes = bytes_for(&mut rng, k);
        let limits = match k % 3 { 0 => None, 1 => Some(3), _ => Some(rng.range(1, 8)) };
        let hex: String = bytes.iter().take(4000).map(|b| format!("{b:02x}")).collect();
        out.line(&json!({"begin": k, "what": "document", "len": bytes.len(), "limits": limits, "bytes": hex}));
        out.flush();
        let b2 = bytes.clone();
        let r = guarded(move || {
            let first = build(&b2, limits);
            let second = build(&b2, limits);
            (first, second)
        });
        match r {
            Err(p) => out.line(&json!({"what": "document", "crash": true, "panic": p, "exhausted": false, "len": bytes.len(), "limits": limits, "bytes": hex})),
            Ok((Err(e), second)) => out.line(&json!({"what": "document", "crash": false, "exhausted": true, "error": e, "sameAgain": second.is_err(), "len": bytes.len(), "limits": limits})),
            Ok((Ok(text), second)) => {
                let same = second.as_deref() == Ok(text.as_str());
                let t2 = text.clone();
                let v = guarded(move || match ast::Document::parse(t2, "smith.graphql") {
                    Ok(ast) => {
                        let valid = match ast.to_mixed_validate() {
                            Ok(_) => (true, String::new(), vec![]),
                            Err(e) => (false, e.to_string().lines().take(6).collect::<Vec<_>>().join(" | "), e.iter().map(|d| d.error.to_string()).collect::<Vec<_>>()),
                        };
                        (true, valid.0, valid.1, valid.2, facts(&ast))
                    }
                    Err(e) => (false, false, e.errors.to_string().lines().take(4).collect::<Vec<_>>().join(" | "), e.errors.iter().map(|d| d.error.to_string()).collect::<Vec<_>>(), facts(&e.partial)),
                });
                match v {
                    Ok((parse_ok, valid, msg, errs, f)) => out.line(&json!({"item": k, "what": "document", "crash": false, "exhausted": false, "sameAgain": same, "parseOk": parse_ok, "valid": valid,
                        "message": msg, "errors": errs, "facts": f, "len": bytes.len(), "limits": limits, "depth": brace_depth(&text), "text": text, "bytes": hex})),
                    Err(p) => out.line(&json!({"what": "document", "crash": true, "panic": p, "exhausted": false, "len": bytes.len(), "limits": limits, "text": text, "bytes": hex})),
                }
            }
        }
        out.flush();
    }
    // operations generated against parsed schemas
    for k in start.max(count)..count + nops {
        let mut rng = Rng::new((seed ^ 0xC32).wrapping_mul(1000003).wrapping_add(k as u64));
        let si = k % SCHEMAS.len();
        let sdl = SCHEMAS[si];
        let bytes = bytes_for(&mut rng, k + 1);
        let hex: String = bytes.iter().take(4000).map(|b| format!("{b:02x}")).collect();
        out.line(&json!({"begin": k, "what": "operation", "schema": si, "len": bytes.len(), "bytes": hex}));
        out.flush();
        let b2 = bytes.clone();
        let r = guarded(move || {
            let gen = |b: &[u8]| -> Result<Option<String>, String> {
                let tree = apollo_parser::Parser::new(sdl).parse();
                let doc = apollo_smith::Document::try_from(tree.document()).map_err(|e| format!("from: {e:?}"))?;
                let mut u = Unstructured::new(b);
                let mut builder = DocumentBuilder::with_document(&mut u, doc).map_err(|e| format!("{e:?}"))?;
                let op = builder.operation_definition().map_err(|e| format!("{e:?}"))?;
                Ok(op.map(String::from))
            };
            (gen(&b2), gen(&b2))
        });
        match r {
            Err(p) => out.line(&json!({"what": "operation", "schema": si, "crash": true, "panic": p, "exhausted": false, "bytes": hex})),
            Ok((Err(e), second)) => out.line(&json!({"what": "operation", "schema": si, "crash": false, "exhausted": true, "error": e, "sameAgain": second.is_err()})),
            Ok((Ok(None), second)) => out.line(&json!({"what": "operation", "schema": si, "crash": false, "exhausted": true, "error": "no operation", "sameAgain": matches!(second, Ok(None))})),
            Ok((Ok(Some(text)), second)) => {
                let same = matches!(&second, Ok(Some(t)) if *t == text);
                let t2 = text.clone();
                let v = guarded(move || {
                    let schema = Schema::parse_and_validate(sdl, "s.graphql").map_err(|e| format!("tool: schema invalid: {}", e.errors))?;
                    match ExecutableDocument::parse_and_validate(&schema, t2, "op.graphql") {
                        Ok(_) => Ok::<_, String>((true, String::new())),
                        Err(e) => Ok((false, e.errors.to_string().lines().take(6).collect::<Vec<_>>().join(" | "))),
                    }
                });
                match v {
                    Ok(Ok((valid, msg))) => out.line(&json!({"item": k, "what": "operation", "schema": si, "crash": false, "exhausted": false, "sameAgain": same, "parseOk": true, "valid": valid, "message": msg,
                        "facts": {"types": [], "directives": [], "impl": {}, "fields": {}, "frags": {}, "ops": []}, "depth": brace_depth(&text), "text": text, "bytes": hex})),
                    Ok(Err(e)) => out.line(&json!({"tool_error": e})),
                    Err(p) => out.line(&json!({"what": "operation", "schema": si, "crash": true, "panic": p, "exhausted": false, "text": text, "bytes": hex})),
                }
            }
        }
    }
}
