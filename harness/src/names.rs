//! C10: names, numeric literals, type references.
use crate::util::*;
use apollo_compiler::ast::{FloatValue, IntValue, Type};
use apollo_compiler::Name;
use serde_json::{json, Value as J};
use std::sync::Arc;

fn build_type(t: &J) -> Type {
    match t[0].as_str().unwrap() {
        "named" => {
            let n = char::from_u32(t[1].as_u64().unwrap() as u32).unwrap().to_string();
            Type::Named(Name::new(&n).unwrap())
        }
        "list" => build_type(&t[1]).list(),
        _ => build_type(&t[1]).non_null(),
    }
}

/// stdin: ["STR", cps, isName, isInt, isFloat] | ["TYPE", t, printed cps]
pub fn replay(_args: &[String]) {
    silence_panics();
    let mut out = Out::new();
    let (mut n, mut bad, mut nontrivial) = (0u64, 0u64, 0u64);
    read_lines(|v| {
        n += 1;
        let mut why: Vec<String> = vec![];
        if v[0] == "STR" {
            let s = text_of(&cps_from_json(&v[1]));
            let (is_name, is_int, is_float) = (v[2].as_bool().unwrap(), v[3].as_bool().unwrap(), v[4].as_bool().unwrap());
            if is_name || is_int || is_float {
                nontrivial += 1;
            }
            let r = guarded(|| {
                let leaked: &'static str = Box::leak(s.clone().into_boxed_str());
                let quoted = serde_json::to_string(&s).unwrap();
                (
                    Name::new(&s).is_ok(),
                    Name::new_static(leaked).is_ok(),
                    Name::try_from(s.as_str()).is_ok(),
                    Name::try_from(s.clone()).is_ok(),
                    Name::try_from(&s).is_ok(),
                    Name::try_from(Arc::<str>::from(s.as_str())).is_ok(),
                    Name::is_valid_syntax(&s),
                    serde_json::from_str::<Name>(&quoted).is_ok(),
                    serde_json::from_str::<IntValue>(&quoted).is_ok(),
                    serde_json::from_str::<FloatValue>(&quoted).is_ok(),
                    serde_json::from_value::<IntValue>(J::String(s.clone())).is_ok(),
                    serde_json::from_value::<FloatValue>(J::String(s.clone())).is_ok(),
                )
            });
            match r {
                Err(p) => why.push(format!("panic: {p}")),
                Ok(t) => {
                    let names = [t.0, t.1, t.2, t.3, t.4, t.5, t.6, t.7];
                    let labels = ["Name::new", "Name::new_static", "TryFrom<&str>", "TryFrom<String>", "TryFrom<&String>", "TryFrom<Arc<str>>", "is_valid_syntax", "Deserialize Name"];
                    for (k, got) in names.iter().enumerate() {
                        if *got != is_name {
                            why.push(format!("{} accepts={} but IsName={}", labels[k], got, is_name));
                        }
                    }
                    if t.8 != is_int || t.10 != is_int {
                        why.push(format!("Deserialize IntValue accepts={}/{} but IsIntLiteral={}", t.8, t.10, is_int));
                    }
                    if t.9 != is_float || t.11 != is_float {
                        why.push(format!("Deserialize FloatValue accepts={}/{} but IsFloatLiteral={}", t.9, t.11, is_float));
                    }
                }
            }
            if !why.is_empty() {
                bad += 1;
                out.line(&json!({"bad": true, "kind": "str", "text": s, "cps": v[1], "why": why}));
            }
        } else {
            nontrivial += 1;
            let printed = text_of(&cps_from_json(&v[2]));
            let r = guarded(|| {
                let t = build_type(&v[1]);
                let s = t.to_string();
                let back = Type::parse(s.clone(), "t.graphql").ok();
                let ser = format!("{t}");
                (s, back == Some(t.clone()), ser)
            });
            match r {
                Err(p) => why.push(format!("panic: {p}")),
                Ok((s, back_ok, ser)) => {
                    if s != printed {
                        why.push(format!("to_string gives {s:?}, reference {printed:?}"));
                    }
                    if ser != printed {
                        why.push(format!("serialize gives {ser:?}, reference {printed:?}"));
                    }
                    if !back_ok {
                        why.push("printed type does not parse back to the same type".into());
                    }
                }
            }
            if !why.is_empty() {
                bad += 1;
                out.line(&json!({"bad": true, "kind": "type", "text": printed, "cps": v[2], "why": why}));
            }
        }
    });
    out.line(&json!({"summary": true, "cases": n, "bad": bad, "nontrivial": nontrivial}));
}

/// numbers printed by the real code, for Trace_Names
pub fn record(args: &[String]) {
    silence_panics();
    let seed = arg_num(args, "--seed", 1);
    let count = arg_num(args, "--count", 1000) as usize;
    let mut rng = Rng::new(seed ^ 0xC10);
    let mut out = Out::new();
    let mut ints: Vec<i32> = vec![i32::MIN, i32::MIN + 1, -1, 0, 1, 9, 10, i32::MAX, i32::MAX - 1, -10, 100, -2147483647];
    for _ in 0..count {
        ints.push(rng.next() as i32);
        ints.push((rng.next() % 2000) as i32 - 1000);
    }
    for i in ints {
        let r = guarded(|| {
            let v = IntValue::from(i);
            (v.as_str().to_string(), v.try_to_i32().ok() == Some(i) && v.to_string().parse::<i32>().ok() == Some(i))
        });
        match r {
            Ok((lit, back)) => out.line(&json!({"kind": "int", "lit": cps_of(&lit), "back": back, "src": i.to_string()})),
            Err(_) => out.line(&json!({"kind": "int", "lit": [], "back": false, "src": i.to_string()})),
        }
    }
    let mut floats: Vec<f64> = vec![0.0, -0.0, 1.0, -1.0, 0.5, 1.5, f64::MIN_POSITIVE, f64::MAX, f64::MIN, f64::EPSILON, 5e-324, -5e-324,
        2.2250738585072009e-308, 9007199254740992.0, 9007199254740993.0, 1e21, 1e22, 1e23, 123456789012345680000.0, 0.1, 0.2, 0.30000000000000004,
        1e-7, 1e-5, 1e15, 1e16, 1e17, 4294967296.0, 1.7976931348623157e308, 4.9406564584124654e-324];
    let mut e = -320i32;
    while e <= 308 {
        floats.push(format!("1e{e}").parse::<f64>().unwrap());
        floats.push(format!("-7.25e{e}").parse::<f64>().unwrap());
        e += 7;
    }
    for _ in 0..count * 2 {
        let f = f64::from_bits(rng.next());
        if f.is_finite() {
            floats.push(f);
        }
        floats.push(((rng.next() % 2_000_000) as f64 - 1_000_000.0) / 1000.0);
    }
    for f in floats {
        let r = guarded(|| {
            let v = FloatValue::from(f);
            let back = v.try_to_f64().ok().map(|x| x.to_bits()) == Some(f.to_bits())
                && v.as_str().parse::<f64>().ok().map(|x| x.to_bits()) == Some(f.to_bits());
            (v.as_str().to_string(), back)
        });
        match r {
            Ok((lit, back)) => out.line(&json!({"kind": "float", "lit": cps_of(&lit), "back": back, "src": format!("{:016x}", f.to_bits())})),
            Err(_) => out.line(&json!({"kind": "float", "lit": [], "back": false, "src": format!("{:016x}", f.to_bits())})),
        }
    }
}
