//! C01/C02/C04/C07: run the real parser on cases, record primitive-operation traces (hooks) and
//! observations of the finished tree; crash isolation through child processes.
use crate::util::*;
use apollo_parser::cst::CstNode;
use apollo_parser::{Lexer, Parser};
use serde_json::{json, Value};
use std::io::Write;

fn lim(v: &Value) -> Option<usize> {
    match v.as_i64() {
        Some(n) if n >= 0 => Some(n as usize),
        _ => None,
    }
}

fn tree_obs(
    text: &str,
    errors: Vec<(bool, usize)>,
    tree_text: String,
    ranges_ok: bool,
    root_kind_ok: bool,
    rec_high: usize,
    tok_high: usize,
) -> Value {
    let n_errors = errors.len();
    let first_limit = errors.iter().position(|e| e.0);
    let err_after_limit = match first_limit {
        Some(i) => errors[i + 1..].iter().any(|e| !e.0),
        None => false,
    };
    let limit_errs = errors.iter().filter(|e| e.0).count();
    let unlimited = Lexer::new(text).count();
    json!({
        "e": "Done",
        "nErrors": n_errors,
        "limitErrs": limit_errs,
        "errAfterLimit": err_after_limit,
        "treeLen": tree_text.len(),
        "textEq": tree_text == text,
        "prefixOk": text.starts_with(&tree_text),
        "boundsOk": ranges_ok,
        "rootKindOk": root_kind_ok,
        "recHigh": rec_high,
        "tokHigh": tok_high,
        "unlimitedCount": unlimited,
    })
}

fn ranges_ok(node: &apollo_parser::SyntaxNode) -> bool {
    let text = node.text().to_string();
    let mut ok = true;
    let mut concat = String::new();
    for el in node.descendants_with_tokens() {
        let r = el.text_range();
        let (s, e) = (usize::from(r.start()), usize::from(r.end()));
        if !text.is_char_boundary(s) || !text.is_char_boundary(e) || s > e || e > text.len() {
            ok = false;
        }
        if let Some(t) = el.as_token() {
            if usize::from(t.text_range().start()) != concat.len() {
                ok = false;
            }
            concat.push_str(t.text());
        }
    }
    ok && concat == text
}

fn err_list<'a>(it: impl Iterator<Item = &'a apollo_parser::Error>) -> Vec<(bool, usize)> {
    it.map(|e| (e.is_limit(), e.index())).collect()
}

/// Run one case; returns the lines (Reset, events, Done) or panics.
fn run_case(case: &Value, lines: &mut Vec<Value>) {
    let entry = case["entry"].as_str().unwrap_or("Document");
    let text = case["text"].as_str().map(|s| s.to_string()).unwrap_or_else(|| text_of(&cps_from_json(&case["cps"])));
    let tok = lim(&case["tok"]);
    let rec = lim(&case["rec"]);
    let trace = case["trace"].as_bool().unwrap_or(false);
    lines.push(json!({"e": "Reset", "id": case["id"], "entry": entry, "tokLimit": tok.map(|x| x as i64).unwrap_or(-1),
        "recLimit": rec.map(|x| x as i64).unwrap_or(500), "len": text.len(), "text": text}));
    let mut p = Parser::new(&text);
    if let Some(t) = tok {
        p = p.token_limit(t);
    }
    if let Some(r) = rec {
        p = p.recursion_limit(r);
    }
    if trace {
        apollo_parser::verif_trace::install();
    }
    let obs = match entry {
        "Document" => {
            let tree = p.parse();
            let evs = if trace { apollo_parser::verif_trace::take() } else { vec![] };
            push_events(lines, evs);
            let node = tree.document().syntax().clone();
            tree_obs(&text, err_list(tree.errors()), node.text().to_string(), ranges_ok(&node), true,
                tree.recursion_limit().high, tree.token_limit().high)
        }
        "FieldSet" => {
            let tree = p.parse_selection_set();
            let evs = if trace { apollo_parser::verif_trace::take() } else { vec![] };
            push_events(lines, evs);
            let node = tree.field_set().syntax().clone();
            tree_obs(&text, err_list(tree.errors()), node.text().to_string(), ranges_ok(&node), true,
                tree.recursion_limit().high, tree.token_limit().high)
        }
        "Type" => {
            let tree = p.parse_type();
            let evs = if trace { apollo_parser::verif_trace::take() } else { vec![] };
            push_events(lines, evs);
            let errs = err_list(tree.errors());
            let (rh, th) = (tree.recursion_limit().high, tree.token_limit().high);
            match guarded(std::panic::AssertUnwindSafe(|| tree.ty().syntax().clone())) {
                Ok(node) => tree_obs(&text, errs, node.text().to_string(), ranges_ok(&node), true, rh, th),
                Err(_) => tree_obs(&text, errs, String::new(), true, false, rh, th),
            }
        }
        other => panic!("unknown entry {other}"),
    };
    lines.push(obs);
}

fn push_events(lines: &mut Vec<Value>, evs: Vec<apollo_parser::verif_trace::Event>) {
    for e in evs {
        lines.push(json!({"e": e.name, "a": e.a, "b": e.b, "c": e.c}));
    }
}

/// Compiler-level entry points (C01 quantifies over them; C04 compares the reported figures).
fn run_compiler_case(case: &Value, lines: &mut Vec<Value>) {
    use apollo_compiler::parser::Parser as CParser;
    let entry = case["entry"].as_str().unwrap();
    let text = case["text"].as_str().map(|s| s.to_string()).unwrap_or_else(|| text_of(&cps_from_json(&case["cps"])));
    let tok = lim(&case["tok"]);
    let rec = lim(&case["rec"]);
    let mut cp = CParser::new();
    if let Some(t) = tok {
        cp = cp.token_limit(t);
    }
    if let Some(r) = rec {
        cp = cp.recursion_limit(r);
    }
    let mut pp = Parser::new(&text);
    if let Some(t) = tok {
        pp = pp.token_limit(t);
    }
    if let Some(r) = rec {
        pp = pp.recursion_limit(r);
    }
    let (ok, prh, pth): (bool, usize, usize) = match entry {
        "ast::Document::parse" => {
            let r = cp.parse_ast(text.clone(), "in.graphql");
            let t = pp.parse();
            (r.is_ok(), t.recursion_limit().high, t.token_limit().high)
        }
        "Schema::parse" => {
            let r = cp.parse_schema(text.clone(), "in.graphql");
            let t = pp.parse();
            (r.is_ok(), t.recursion_limit().high, t.token_limit().high)
        }
        "ExecutableDocument::parse" => {
            let schema = fixed_schema();
            let r = cp.parse_executable(schema, text.clone(), "in.graphql");
            let t = pp.parse();
            (r.is_ok(), t.recursion_limit().high, t.token_limit().high)
        }
        "Type::parse" => {
            let r = cp.parse_type(text.clone(), "in.graphql");
            let t = pp.parse_type();
            (r.is_ok(), t.recursion_limit().high, t.token_limit().high)
        }
        "FieldSet::parse" => {
            let schema = fixed_schema();
            let r = cp.parse_field_set(schema, apollo_compiler::name!("Query"), text.clone(), "in.graphql");
            let t = pp.parse_selection_set();
            (r.is_ok(), t.recursion_limit().high, t.token_limit().high)
        }
        other => panic!("unknown compiler entry {other}"),
    };
    lines.push(json!({"e": "Call", "id": case["id"], "entry": entry, "text": text, "ok": ok,
        "tokLimit": tok.map(|x| x as i64).unwrap_or(-1), "recLimit": rec.map(|x| x as i64).unwrap_or(-1),
        "recReached": cp.recursion_reached(), "tokReached": cp.tokens_reached(), "parserRecHigh": prh, "parserTokHigh": pth}));
}

pub fn fixed_schema() -> &'static apollo_compiler::validation::Valid<apollo_compiler::Schema> {
    use std::sync::OnceLock;
    static S: OnceLock<apollo_compiler::validation::Valid<apollo_compiler::Schema>> = OnceLock::new();
    S.get_or_init(|| {
        apollo_compiler::Schema::parse_and_validate(
            "type Query { a: Query b: Query c: Int n1: Query n2: Query x(y: Int): Query }",
            "schema.graphql",
        )
        .expect("fixed schema")
    })
}

fn is_compiler_entry(case: &Value) -> bool {
    case["entry"].as_str().map(|e| e.contains("::")).unwrap_or(false)
}

/// Child: stdin cases -> stdout lines. `--careful` flushes after every case so that the parent can
/// attribute a crash that kills the process (stack overflow, abort).
pub fn child(args: &[String]) {
    silence_panics();
    let careful = args.iter().any(|a| a == "--careful");
    let stack = arg_num(args, "--stack-kib", 2048) as usize * 1024;
    let h = std::thread::Builder::new()
        .stack_size(stack)
        .spawn(move || {
            let stdout = std::io::stdout();
            let mut w = std::io::BufWriter::with_capacity(1 << 20, stdout.lock());
            let mut cases = vec![];
            read_lines(|v| cases.push(v));
            for case in cases {
                if careful {
                    writeln!(w, "{}", json!({"e": "Begin", "id": case["id"]})).unwrap();
                    w.flush().unwrap();
                }
                let mut lines = vec![];
                let r = guarded(std::panic::AssertUnwindSafe(|| {
                    if is_compiler_entry(&case) {
                        run_compiler_case(&case, &mut lines)
                    } else {
                        run_case(&case, &mut lines)
                    }
                }));
                #[allow(unused_must_use)]
                {
                    apollo_parser::verif_trace::take();
                }
                if let Err(msg) = r {
                    if lines.is_empty() {
                        lines.push(json!({"e": "Reset", "id": case["id"], "entry": case["entry"], "tokLimit": case["tok"], "recLimit": case["rec"], "len": 0, "text": case["text"]}));
                    }
                    lines.push(json!({"e": "Crash", "id": case["id"], "what": msg, "entry": case["entry"], "text": case["text"], "tok": case["tok"], "rec": case["rec"]}));
                }
                for l in lines {
                    serde_json::to_writer(&mut w, &l).unwrap();
                    w.write_all(b"\n").unwrap();
                }
                if careful {
                    w.flush().unwrap();
                }
            }
            w.flush().unwrap();
        })
        .unwrap();
    if h.join().is_err() {
        std::process::exit(3);
    }
}

fn spawn_child(cases: &[Value], careful: bool, timeout_s: u64, stack_kib: u64, sub: &str) -> (Vec<u8>, Option<i32>, bool) {
    use std::process::{Command, Stdio};
    let exe = std::env::current_exe().unwrap();
    let mut cmd = Command::new(exe);
    cmd.arg(sub).arg("--stack-kib").arg(stack_kib.to_string());
    if careful {
        cmd.arg("--careful");
    }
    let mut ch = cmd.stdin(Stdio::piped()).stdout(Stdio::piped()).stderr(Stdio::null()).spawn().expect("spawn child");
    let mut stdin = ch.stdin.take().unwrap();
    let payload: Vec<u8> = cases.iter().flat_map(|c| {
        let mut v = serde_json::to_vec(c).unwrap();
        v.push(b'\n');
        v
    }).collect();
    let writer = std::thread::spawn(move || {
        let _ = stdin.write_all(&payload);
    });
    let mut stdout = ch.stdout.take().unwrap();
    let reader = std::thread::spawn(move || {
        let mut buf = vec![];
        let _ = std::io::Read::read_to_end(&mut stdout, &mut buf);
        buf
    });
    let t0 = std::time::Instant::now();
    let mut timed_out = false;
    let status = loop {
        match ch.try_wait().unwrap() {
            Some(st) => break st.code(),
            None => {
                if t0.elapsed().as_secs() > timeout_s {
                    let _ = ch.kill();
                    let _ = ch.wait();
                    timed_out = true;
                    break None;
                }
                std::thread::sleep(std::time::Duration::from_millis(5));
            }
        }
    };
    let _ = writer.join();
    let buf = reader.join().unwrap();
    (buf, status, timed_out)
}

/// Generic isolated batch runner used by every "run cases on real code" command:
/// parent reads cases on stdin, runs them in children (`sub` command), prints the lines.
pub fn isolated(args: &[String], sub: &str) {
    let batch = arg_num(args, "--batch", 2000) as usize;
    let stack_kib = arg_num(args, "--stack-kib", 2048);
    let timeout = arg_num(args, "--timeout", 300);
    let stdout = std::io::stdout();
    let mut w = std::io::BufWriter::with_capacity(1 << 20, stdout.lock());
    // the cases are streamed: one batch in memory at a time (thorough runs feed gigabytes of cases)
    let mut pending: Vec<Value> = Vec::with_capacity(batch);
    let mut run_chunk = |chunk: &[Value], w: &mut std::io::BufWriter<std::io::StdoutLock>| {
        let (buf, status, to) = spawn_child(chunk, false, timeout, stack_kib, sub);
        if status == Some(0) && !to {
            w.write_all(&buf).unwrap();
            return;
        }
        // the child died or hung: re-run carefully, attributing the failure
        let mut rest: &[Value] = chunk;
        while !rest.is_empty() {
            let (buf, status, to) = spawn_child(rest, true, 20 + rest.len() as u64 / 50, stack_kib, sub);
            let text = String::from_utf8_lossy(&buf);
            let mut last_begin: Option<Value> = None;
            let mut done_ids = 0usize;
            let mut pending_lines: Vec<&str> = vec![];
            let mut out_lines: Vec<&str> = vec![];
            for line in text.lines() {
                if line.starts_with("{\"e\":\"Begin\"") {
                    if last_begin.is_some() {
                        done_ids += 1;
                        out_lines.append(&mut pending_lines);
                    }
                    last_begin = serde_json::from_str(line).ok();
                    continue;
                }
                pending_lines.push(line);
            }
            if status == Some(0) && !to {
                out_lines.append(&mut pending_lines);
                for l in out_lines {
                    writeln!(w, "{l}").unwrap();
                }
                break;
            }
            for l in out_lines {
                writeln!(w, "{l}").unwrap();
            }
            // the case that was begun but not completed is the culprit
            let culprit = &rest[done_ids.min(rest.len() - 1)];
            let what = if to { "Hang" } else { "Crash" };
            writeln!(w, "{}", json!({"e": "Reset", "id": culprit["id"], "entry": culprit["entry"], "tokLimit": culprit["tok"], "recLimit": culprit["rec"], "len": 0, "text": culprit["text"]})).unwrap();
            writeln!(w, "{}", json!({"e": what, "id": culprit["id"], "what": format!("child process {} (status {:?})", if to {"timed out"} else {"died"}, status),
                "entry": culprit["entry"], "text": culprit["text"], "cps": culprit["cps"], "tok": culprit["tok"], "rec": culprit["rec"]})).unwrap();
            rest = &rest[(done_ids + 1).min(rest.len())..];
        }
    };
    read_lines(|v| {
        pending.push(v);
        if pending.len() >= batch {
            run_chunk(&pending, &mut w);
            pending.clear();
        }
    });
    if !pending.is_empty() {
        run_chunk(&pending, &mut w);
    }
    w.flush().unwrap();
}

// ------------------------------------------------------------------ case generation

fn corpus(dirs: &[&str]) -> Vec<String> {
    let mut out = vec![];
    fn walk(p: &std::path::Path, out: &mut Vec<String>) {
        if let Ok(rd) = std::fs::read_dir(p) {
            let mut es: Vec<_> = rd.filter_map(|e| e.ok()).map(|e| e.path()).collect();
            es.sort();
            for e in es {
                if e.is_dir() {
                    walk(&e, out);
                } else if e.extension().map(|x| x == "graphql").unwrap_or(false) {
                    if let Ok(s) = std::fs::read_to_string(&e) {
                        out.push(s);
                    }
                }
            }
        }
    }
    for d in dirs {
        walk(std::path::Path::new(d), &mut out);
    }
    out
}

const FRAGS: &[&str] = &[
    "{", "}", "[", "]", "(", ")", "!", ":", "=", "@", "$", "...", "|", "&", ",", " ", "\n", "#c\n", "a", "on", "query",
    "type", "extend", "schema", "fragment", "1", "1.5", "\"s\"", "\"\"\"b\"\"\"", "\"", "\"\"\"", "%", "é", "🚀", "\u{feff}",
    "\\", "-", ".", "..", "0x", "1e", "true", "null", "implements", "directive", "repeatable", "input", "enum", "union",
    "interface", "scalar", "subscription", "mutation", "\r", "\t", "\u{0}", "\u{2028}",
];

fn mutate(rng: &mut Rng, src: &str) -> String {
    let mut chars: Vec<char> = src.chars().collect();
    let n_mut = rng.range(1, 4);
    for _ in 0..n_mut {
        let len = chars.len();
        match rng.below(6) {
            0 if len > 0 => {
                let i = rng.below(len);
                let k = rng.range(1, 8).min(len - i);
                chars.drain(i..i + k);
            }
            1 => {
                let i = rng.below(len + 1);
                let f: Vec<char> = rng.pick(FRAGS).chars().collect();
                chars.splice(i..i, f);
            }
            2 if len > 1 => {
                let i = rng.below(len - 1);
                chars.swap(i, i + 1);
            }
            3 if len > 0 => {
                let i = rng.below(len);
                let k = rng.range(1, 12).min(len - i);
                let dup: Vec<char> = chars[i..i + k].to_vec();
                chars.splice(i..i, dup);
            }
            4 if len > 0 => {
                let i = rng.below(len);
                chars.truncate(i);
            }
            _ => {
                let i = rng.below(len + 1);
                let f: Vec<char> = rng.pick(FRAGS).chars().collect();
                let j = (i + rng.range(0, 3)).min(len);
                chars.splice(i..j, f);
            }
        }
    }
    chars.into_iter().collect()
}

fn deep(kind: usize, depth: usize, close: bool) -> (String, &'static str) {
    let mut s = String::new();
    match kind {
        0 => {
            for _ in 0..depth {
                s.push_str("{a");
            }
            if close {
                for _ in 0..depth {
                    s.push('}');
                }
            }
            (s, "Document")
        }
        1 => {
            s.push_str("{a(x:");
            for _ in 0..depth {
                s.push('[');
            }
            s.push('1');
            if close {
                for _ in 0..depth {
                    s.push(']');
                }
                s.push_str(")}");
            }
            (s, "Document")
        }
        2 => {
            s.push_str("{a(x:");
            for _ in 0..depth {
                s.push_str("{k:");
            }
            s.push('1');
            if close {
                for _ in 0..depth {
                    s.push('}');
                }
                s.push_str(")}");
            }
            (s, "Document")
        }
        3 => {
            for _ in 0..depth {
                s.push('[');
            }
            s.push_str("Int");
            if close {
                for _ in 0..depth {
                    s.push(']');
                }
            }
            (s, "Type")
        }
        4 => {
            s.push_str("type T{f:");
            for _ in 0..depth {
                s.push('[');
            }
            s.push_str("Int");
            if close {
                for _ in 0..depth {
                    s.push(']');
                }
                s.push('}');
            }
            (s, "Document")
        }
        5 => {
            for _ in 0..depth {
                s.push_str("...{");
            }
            s.push('a');
            if close {
                for _ in 0..depth {
                    s.push('}');
                }
            }
            (format!("{{{s}}}"), "Document")
        }
        6 => {
            for _ in 0..depth {
                s.push_str("a{");
            }
            s.push('a');
            if close {
                for _ in 0..depth {
                    s.push('}');
                }
            }
            (s, "FieldSet")
        }
        _ => {
            s.push_str("query($v:T=");
            for i in 0..depth {
                s.push_str(if i % 2 == 0 { "[" } else { "{k:" });
            }
            s.push('1');
            if close {
                for i in (0..depth).rev() {
                    s.push_str(if i % 2 == 0 { "]" } else { "}" });
                }
                s.push_str("){a}");
            }
            (s, "Document")
        }
    }
}

/// `parse-gen --seed S --count N --mode mutate|deep|flat|random|all [--trace]`
pub fn gen(args: &[String]) {
    let seed = arg_num(args, "--seed", 1);
    let count = arg_num(args, "--count", 1000) as usize;
    let mode = arg_val(args, "--mode").unwrap_or_else(|| "all".into());
    let trace = args.iter().any(|a| a == "--trace");
    let maxlen = arg_num(args, "--maxlen", 100000) as usize;
    let mut rng = Rng::new(seed ^ 0xC01);
    let mut out = Out::new();
    let corp = corpus(&[
        "/repo/crates/apollo-parser/test_data",
        "/repo/crates/apollo-compiler/test_data",
    ]);
    let entries = ["Document", "FieldSet", "Type"];
    let centries = ["ast::Document::parse", "Schema::parse", "ExecutableDocument::parse", "Type::parse", "FieldSet::parse"];
    let mut id = 0u64;
    let emit = |out: &mut Out, rng: &mut Rng, text: String, entry: &str, id: &mut u64| {
        if text.len() > maxlen {
            return;
        }
        let tok: i64 = match rng.below(8) {
            0 => 0,
            1 => 1,
            2 => rng.range(2, 12) as i64,
            3 => rng.range(12, 200) as i64,
            _ => -1,
        };
        let rec: i64 = match rng.below(8) {
            0 => 0,
            1 => 1,
            2 => 2,
            3 => rng.range(3, 12) as i64,
            _ => -1,
        };
        *id += 1;
        out.line(&json!({"id": *id, "entry": entry, "text": text, "tok": tok, "rec": rec, "trace": trace}));
    };
    for i in 0..count {
        let m = if mode == "all" { ["mutate", "mutate", "mutate", "random", "deep", "flat"][i % 6] } else { mode.as_str() };
        match m {
            "mutate" if !corp.is_empty() => {
                let src = rng.pick(&corp).clone();
                let src = if src.chars().count() > 600 && rng.chance(3, 4) {
                    let cs: Vec<char> = src.chars().collect();
                    let a = rng.below(cs.len() - 300);
                    cs[a..a + rng.range(40, 300)].iter().collect()
                } else {
                    src
                };
                let text = mutate(&mut rng, &src);
                let entry = if rng.chance(1, 6) { *rng.pick(&centries) } else if rng.chance(1, 5) { *rng.pick(&entries) } else { "Document" };
                emit(&mut out, &mut rng, text, entry, &mut id);
            }
            "deep" => {
                let kind = rng.below(8);
                let d = *rng.pick(&[1usize, 2, 3, 7, 60, 499, 500, 501, 502, 1000, 2000]);
                let close = rng.chance(2, 3);
                let (text, entry) = deep(kind, d, close);
                let entry = if rng.chance(1, 4) {
                    match entry { "Document" => *rng.pick(&centries[..3]), "Type" => "Type::parse", _ => "FieldSet::parse" }
                } else { entry };
                emit(&mut out, &mut rng, text, entry, &mut id);
            }
            "lossless" => {
                // documents, no limits: mutated corpus and fragment soup
                let text = if !corp.is_empty() && rng.chance(3, 4) {
                    let src = rng.pick(&corp).clone();
                    let src = if src.chars().count() > 500 {
                        let cs: Vec<char> = src.chars().collect();
                        let a = rng.below(cs.len() - 300);
                        cs[a..a + rng.range(40, 300)].iter().collect()
                    } else {
                        src
                    };
                    mutate(&mut rng, &src)
                } else {
                    let n = rng.range(0, 30);
                    let mut s = String::new();
                    for _ in 0..n {
                        s.push_str(*rng.pick(FRAGS));
                        if rng.chance(1, 2) {
                            s.push(' ');
                        }
                    }
                    s
                };
                id += 1;
                // no token limit; sometimes a small recursion limit (nesting beyond it, then whatever follows)
                let rec: i64 = *rng.pick(&[-1i64, -1, -1, 0, 1, 2, 4]);
                let text = if rec >= 0 && rng.chance(1, 2) { format!("{{ a {{ b {{ c {{ d {{ e {{ f }} }} }} }} }} }} {text}") } else { text };
                out.line(&json!({"id": id, "entry": "Document", "text": text, "tok": -1, "rec": rec, "trace": trace}));
            }
            "standalone" => {
                let ty = rng.chance(1, 2);
                let alpha: &[&str] = if ty { &["Int", "[", "]", "!", " ", ",", "#c\n", "a", "{", "}", "%", "é", "\u{feff}", "1", "\n"] }
                    else { &["a", "b", "{", "}", ":", "(", ")", "x", "1", "...", "on", "@", " ", ",", "#c\n", "%", "é", "[", "]", "!", "$"] };
                let n = rng.range(0, 9);
                let mut s = String::new();
                for _ in 0..n {
                    s.push_str(*rng.pick(alpha));
                    if rng.chance(2, 3) {
                        s.push(' ');
                    }
                }
                emit(&mut out, &mut rng, s, if ty { "Type" } else { "FieldSet" }, &mut id);
            }
            "flat" => {
                let unit = *rng.pick(&["a ", "{a} ", "type T ", "... ", "@d ", "\"s\" ", "1 ", "$ ", "é ", "query Q{a} ", "extend ", ", ", "#c\n"]);
                let n = *rng.pick(&[1usize, 10, 200, 3000]);
                let text = unit.repeat(n);
                let entry = if rng.chance(1, 4) { *rng.pick(&centries) } else { *rng.pick(&entries) };
                emit(&mut out, &mut rng, text, entry, &mut id);
            }
            _ => {
                let n = rng.range(0, 30);
                let mut s = String::new();
                for _ in 0..n {
                    s.push_str(*rng.pick(FRAGS));
                    if rng.chance(1, 2) {
                        s.push(' ');
                    }
                }
                let entry = if rng.chance(1, 4) { *rng.pick(&centries) } else { *rng.pick(&entries) };
                emit(&mut out, &mut rng, s, entry, &mut id);
            }
        }
    }
}
