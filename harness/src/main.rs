#![allow(dead_code)]
mod adoc;
mod adversarial;
mod aschema;
mod astwalk;
mod asyncx;
mod compat;
mod coerce;
mod coord;
mod digest;
mod argc;
mod docb;
mod exec;
mod execb;
mod fileid;
mod gram;
mod intro;
mod introdepth;
mod lex;
mod limits;
mod linecol;
mod namerc;
mod names;
mod parse;
mod sb;
mod smith;
mod resp;
mod rt;
mod scalars;
mod strs;
mod util;

fn main() {
    let args: Vec<String> = std::env::args().skip(1).collect();
    let cmd = args.first().map(|s| s.as_str()).unwrap_or("");
    let rest = if args.is_empty() { &args[..] } else { &args[1..] };
    match cmd {
        "lex-replay" => lex::replay(rest),
        "lex-record" => lex::record(rest),
        "gram-replay" => gram::replay(rest),
        "gram-record" => gram::record(rest),
        "gram-text" => gram::text_cmd(rest),
        "gram-record-text" => gram::record_text(rest),
        "parse-run" => parse::isolated(rest, "parse-child"),
        "parse-child" => parse::child(rest),
        "parse-gen" => parse::gen(rest),
        "limits-replay" => limits::replay(rest),
        "linecol-replay" => linecol::replay(rest),
        "linecol-record" => linecol::record(rest),
        "coord-replay" => coord::replay(rest),
        "coord-record" => coord::record(rest),
        "compat-replay" => compat::replay(rest),
        "compat-record" => compat::record(rest),
        "names-replay" => names::replay(rest),
        "names-record" => names::record(rest),
        "exec-chunks" => execb::chunks(rest),
        "scalars-replay" => scalars::replay(rest),
        "scalars-revalidate" => scalars::revalidate(rest),
        "digest" => digest::run(rest),
        "exec-replay" => exec::replay(rest),
        "schema-cases" => aschema::cases(rest),
        "doc-cases" => adoc::cases(rest),
        "argc-replay" => argc::replay(rest),
        "docb-replay" => docb::replay(rest),
        "rt-replay" => rt::replay(rest),
        "rt-record" => rt::record(rest),
        "rt-typed" => rt::typed(rest),
        "resp-record" => resp::record(rest),
        "smith-record" => smith::record(rest),
        "intro-record" => intro::record(rest),
        "async-replay" => asyncx::replay(rest),
        "exec-record" => exec::record(rest),
        "coerce-replay" => coerce::replay(rest),
        "coerce-record" => coerce::record(rest),
        "adv-run" => parse::isolated(rest, "adv-child"),
        "adv-child" => adversarial::child(rest),
        "adv-gen" => adversarial::gen(rest),
        "introdepth-replay" => introdepth::replay(rest),
        "namerc-replay" => namerc::replay(rest),
        "namerc-stress" => namerc::stress(rest),
        "fileid-schedules" => fileid::schedules(rest),
        "fileid-pack" => fileid::pack(rest),
        "fileid-shared" => fileid::shared(rest),
        "sb-replay" => sb::replay(rest),
        "sb-corpus" => sb::corpus(rest),
        "str-replay" => strs::replay(rest),
        "str-record" => strs::record(rest),
        "str-roundtrip" => strs::roundtrip(rest),
        "str-gen" => strs::gen_values(rest),
        _ => {
            eprintln!("unknown command {cmd:?}");
            std::process::exit(2);
        }
    }
}
