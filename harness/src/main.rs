#![allow(dead_code)]
mod lex;
mod util;

fn main() {
    let args: Vec<String> = std::env::args().skip(1).collect();
    let cmd = args.first().map(|s| s.as_str()).unwrap_or("");
    let rest = if args.is_empty() { &args[..] } else { &args[1..] };
    match cmd {
        "lex-replay" => lex::replay(rest),
        "lex-record" => lex::record(rest),
        _ => {
            eprintln!("unknown command {cmd:?}");
            std::process::exit(2);
        }
    }
}
