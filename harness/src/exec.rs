//! C26: execution vs Execution.tla (and shared pieces for C27).
use crate::util::*;
use apollo_compiler::resolvers::{Execution, FieldError, ObjectValue, ResolveInfo, ResolvedValue};
use apollo_compiler::response::JsonMap;
use apollo_compiler::validation::Valid;
use apollo_compiler::{ExecutableDocument, Schema};
use serde_json::{json, Value as J};
use std::sync::Arc;

pub const SDL: &str = "type Query { a: Int b: Int! o: Obj on: Obj! i: Iface u: Uni l: [Int] ln: [Int!] lnn: [Int!]! lo: [Obj] ll: [[Int!]] e: En s: String f: Float id: ID }
type Mutation { m1: Int m2: Int! }
type Obj implements Iface & OnlyObj { x: Int y: Int! o: Obj }
interface OnlyObj { y: Int! }
union JustOther = Other
type Other implements Iface { x: Int z: Int }
interface Iface { x: Int }
union Uni = Obj | Other
enum En { V W }";

/// Directives of a selection: the model's explicit conditions when present (one more element before `included`),
/// otherwise `@skip(if: true)` for `included = false`.
fn directives_of(s: &J, base: usize, vars: &mut Vec<String>) -> String {
    let n = s.as_array().unwrap().len();
    if n == base + 1 {
        let mut d = String::new();
        for c in s[n - 2].as_array().unwrap() {
            let arg = if c[1][0] == "lit" { c[1][1].to_string() } else {
                let v = c[1][1].as_str().unwrap().to_string();
                if !vars.contains(&v) { vars.push(v.clone()); }
                format!("${v}")
            };
            d.push_str(&format!(" @{}(if: {})", c[0].as_str().unwrap(), arg));
        }
        d
    } else if s[n - 1].as_bool().unwrap() { String::new() } else { " @skip(if: true)".to_string() }
}

pub fn render_sels(sels: &J, out: &mut String, vars: &mut Vec<String>) {
    for s in sels.as_array().unwrap() {
        match s[0].as_str().unwrap() {
            "field" => {
                let dir = directives_of(s, 5, vars);
                let (key, name) = (s[1].as_str().unwrap(), s[2].as_str().unwrap());
                if key == name { out.push_str(&format!(" {name}{dir}")); } else { out.push_str(&format!(" {key}: {name}{dir}")); }
                if !s[3].as_array().unwrap().is_empty() {
                    out.push_str(" {");
                    render_sels(&s[3], out, vars);
                    out.push_str(" }");
                }
            }
            "inline" => {
                let dir = directives_of(s, 4, vars);
                let on = s[1].as_str().unwrap();
                if on.is_empty() { out.push_str(&format!(" ...{dir} {{")); } else { out.push_str(&format!(" ... on {on}{dir} {{")); }
                render_sels(&s[2], out, vars);
                out.push_str(" }");
            }
            _ => {
                let dir = directives_of(s, 3, vars);
                out.push_str(&format!(" ...{}{dir}", s[1].as_str().unwrap()))
            }
        }
    }
}

fn used_fragments(sels: &J, frags: &J, acc: &mut Vec<String>) {
    for s in sels.as_array().unwrap() {
        match s[0].as_str().unwrap() {
            "field" => used_fragments(&s[3], frags, acc),
            "inline" => used_fragments(&s[2], frags, acc),
            _ => {
                let name = s[1].as_str().unwrap().to_string();
                if !acc.contains(&name) {
                    acc.push(name.clone());
                    if let Some(f) = frags.get(&name) {
                        used_fragments(&f["sels"], frags, acc);
                    }
                }
            }
        }
    }
}

/// Variables of the model: `$t: Boolean!` (given true), `$f: Boolean!` (given false), `$d: Boolean = true` (not given).
pub fn render_op(kind: &str, sels: &J, frags: &J) -> String {
    let mut vars: Vec<String> = vec![];
    let mut body = String::from(" {");
    render_sels(sels, &mut body, &mut vars);
    body.push_str(" }");
    let mut used = vec![];
    used_fragments(sels, frags, &mut used);
    for name in used {
        if let Some(f) = frags.get(&name) {
            body.push_str(&format!(" fragment {name} on {} {{", f["on"].as_str().unwrap()));
            render_sels(&f["sels"], &mut body, &mut vars);
            body.push_str(" }");
        }
    }
    let decl = if vars.is_empty() { String::new() } else {
        format!("({})", vars.iter().map(|v| if v == "d" { "$d: Boolean = true".to_string() } else { format!("${v}: Boolean!") }).collect::<Vec<_>>().join(", "))
    };
    format!("{kind}{decl}{body}")
}

/// The request's variables through the REAL CoerceVariableValues: t = true, f = false, d left to its default.
pub fn variables_for(schema: &Valid<Schema>, doc: &Valid<ExecutableDocument>) -> Result<Valid<JsonMap>, String> {
    let op = doc.operations.get(None).map_err(|e| format!("tool: {e:?}"))?;
    let mut given = JsonMap::new();
    for v in &op.variables {
        match v.name.as_str() {
            "t" => { given.insert("t", true.into()); }
            "f" => { given.insert("f", false.into()); }
            _ => {}
        }
    }
    apollo_compiler::request::coerce_variable_values(schema, op, &given).map_err(|e| format!("tool: variable coercion: {e:?}"))
}

pub struct W {
    pub type_name: String,
    pub world: Arc<J>,
    pub log: Option<Arc<std::sync::Mutex<Vec<String>>>>,
}

pub fn leaf_json(o: &J) -> serde_json_bytes::Value {
    let j = match o[0].as_str().unwrap() {
        "int" => json!(o[1].as_i64().unwrap()),
        "bigint" => json!(3000000000i64),
        "float" => json!(1.5),
        "str" => json!(o[1].as_str().unwrap()),
        "bool" => json!(o[1].as_bool().unwrap()),
        _ => J::Null,
    };
    serde_json::from_value(j).unwrap()
}

fn resolved<'a>(o: &J, world: &Arc<J>, log: &Option<Arc<std::sync::Mutex<Vec<String>>>>) -> Result<ResolvedValue<'a>, FieldError> {
    match o[0].as_str().unwrap() {
        "null" => Ok(ResolvedValue::null()),
        "err" => Err(FieldError { message: "boom".into() }),
        "obj" => Ok(ResolvedValue::object(W { type_name: o[1].as_str().unwrap().to_string(), world: world.clone(), log: log.clone() })),
        "list" => {
            let items: Vec<J> = o[1].as_array().unwrap().clone();
            let world = world.clone();
            let log = log.clone();
            Ok(ResolvedValue::List(Box::new(items.into_iter().map(move |it| resolved(&it, &world, &log)))))
        }
        _ => Ok(ResolvedValue::leaf(leaf_json(o))),
    }
}

impl ObjectValue for W {
    fn type_name(&self) -> &str {
        &self.type_name
    }
    fn resolve_field<'a>(&'a self, info: &'a ResolveInfo<'a>) -> Result<ResolvedValue<'a>, FieldError> {
        if let Some(l) = &self.log {
            l.lock().unwrap().push(format!("{}.{}", self.type_name, info.field_name()));
        }
        match self.world.get(&self.type_name).and_then(|t| t.get(info.field_name())) {
            Some(o) => resolved(o, &self.world, &self.log),
            None => Err(self.unknown_field_error(info)),
        }
    }
}

pub fn abstract_value(v: &J) -> J {
    match v {
        J::Null => json!(["null"]),
        J::Bool(b) => json!(["bool", b]),
        J::String(s) => json!(["str", s]),
        J::Number(n) => match n.as_i64() {
            Some(i) if i.abs() < 2147483648 => json!(["int", i]),
            Some(_) => json!(["bigint"]),
            None => json!(["float"]),
        },
        J::Array(a) => json!(["list", a.iter().map(abstract_value).collect::<Vec<_>>()]),
        J::Object(m) => json!(["obj", m.iter().map(|(k, v)| json!([k, abstract_value(v)])).collect::<Vec<_>>()]),
    }
}

pub fn abstract_response(resp: &apollo_compiler::response::ExecutionResponse) -> (J, Vec<J>) {
    let j: J = serde_json::to_value(resp).unwrap();
    let data = match j.get("data") {
        Some(d) if !d.is_null() => abstract_value(d),
        _ => json!(["null"]),
    };
    let mut errs: Vec<J> = j.get("errors").and_then(|e| e.as_array()).map(|a| a.iter().map(|e| e.get("path").cloned().unwrap_or(json!([]))).collect()).unwrap_or_default();
    errs.sort_by_key(|e| e.to_string());
    (data, errs)
}

pub fn prepare(kind: &str, sels: &J, frags: &J) -> Result<(Valid<Schema>, Valid<ExecutableDocument>, String), String> {
    let schema = Schema::parse_and_validate(SDL, "s.graphql").map_err(|e| format!("tool: schema: {}", e.errors))?;
    let text = render_op(kind, sels, frags);
    let doc = ExecutableDocument::parse_and_validate(&schema, text.clone(), "q.graphql")
        .map_err(|e| format!("tool: operation invalid: {} :: {text}", e.errors.to_string().lines().next().unwrap_or("")))?;
    Ok((schema, doc, text))
}

/// stdin: ["CASE", opId, kind, sels, fragments, world, response]
pub fn replay(_args: &[String]) {
    silence_panics();
    let mut out = Out::new();
    let (mut n, mut bad, mut nontrivial) = (0u64, 0u64, 0u64);
    read_lines(|v| {
        n += 1;
        let kind = v[2].as_str().unwrap();
        let want_data = &v[6]["data"];
        let mut want_errs: Vec<J> = v[6]["errors"].as_array().unwrap().clone();
        want_errs.sort_by_key(|e| e.to_string());
        if !want_errs.is_empty() {
            nontrivial += 1;
        }
        let r = guarded(|| {
            let (schema, doc, text) = prepare(kind, &v[3], &v[4])?;
            let world = Arc::new(v[5].clone());
            let root = W { type_name: if kind == "mutation" { "Mutation".into() } else { "Query".into() }, world, log: None };
            let vars = variables_for(&schema, &doc)?;
            let resp = Execution::new(&schema, &doc).coerced_variable_values(&vars).execute_sync(&root).map_err(|e| format!("request error: {e:?}"))?;
            let (data, errs) = abstract_response(&resp);
            Ok::<_, String>((data, errs, text))
        });
        let why = match r {
            Err(p) => Some((format!("panic: {p}"), String::new())),
            Ok(Err(e)) => Some((e, String::new())),
            Ok(Ok((data, errs, text))) => {
                if &data != want_data {
                    Some((format!("data {data} differs from the reference {want_data}"), text))
                } else if errs != want_errs {
                    Some((format!("error paths {} differ from the reference {}", J::Array(errs), J::Array(want_errs.clone())), text))
                } else {
                    None
                }
            }
        };
        if let Some((w, text)) = why {
            bad += 1;
            out.line(&json!({"bad": true, "op": v[1], "doc": text, "world": v[5], "case": v, "why": [w]}));
        }
    });
    out.line(&json!({"summary": true, "cases": n, "bad": bad, "nontrivial": nontrivial}));
}

// ------------------------------------------------------------------ impl -> spec: random operations and worlds

fn fields_of(t: &str) -> &'static [(&'static str, &'static str, bool)] {
    // (field, named type, composite)
    match t {
        "Query" => &[("a", "Int", false), ("b", "Int", false), ("o", "Obj", true), ("on", "Obj", true), ("i", "Iface", true), ("u", "Uni", true),
                     ("l", "Int", false), ("ln", "Int", false), ("lnn", "Int", false), ("lo", "Obj", true), ("ll", "Int", false), ("e", "En", false),
                     ("s", "String", false), ("f", "Float", false), ("id", "ID", false)],
        "Mutation" => &[("m1", "Int", false), ("m2", "Int", false)],
        "Obj" => &[("x", "Int", false), ("y", "Int", false), ("o", "Obj", true)],
        "Other" => &[("x", "Int", false), ("z", "Int", false)],
        "Iface" => &[("x", "Int", false)],
        "OnlyObj" => &[("y", "Int", false)],
        _ => &[],
    }
}

fn random_sels(rng: &mut Rng, t: &str, depth: usize, keyc: &mut usize) -> J {
    let mut sels = vec![];
    let n = rng.range(1, 3);
    for _ in 0..n {
        let fs = fields_of(t);
        let choice = rng.below(10);
        if t == "Uni" || (choice == 0 && matches!(t, "Iface" | "Uni")) || fs.is_empty() {
            let on = *rng.pick(&["Obj", "Other", "OnlyObj", "JustOther", "Iface"]);
            let inner = match on { "OnlyObj" => "OnlyObj", "JustOther" => "Other", "Iface" => "Iface", o => o };
            if on == "JustOther" {
                sels.push(json!(["spread", "K", true]));
            } else {
                let inner_sels = random_sels(rng, inner, depth, keyc);
                sels.push(with_conds(rng, json!(["inline", on, inner_sels]), 8));
            }
            continue;
        }
        if choice == 1 {
            sels.push(json!(["field", "__typename", "__typename", [], true]));
            continue;
        }
        if choice == 2 && t == "Obj" {
            sels.push(with_conds(rng, json!(["spread", "G"]), 6));
            continue;
        }
        if choice == 2 && matches!(t, "Iface") {
            sels.push(json!(["spread", "H", true]));
            continue;
        }
        if choice == 3 {
            let inner_sels = random_sels(rng, t, depth, keyc);
            sels.push(with_conds(rng, json!(["inline", "", inner_sels]), 8));
            continue;
        }
        let (f, nt, composite) = *rng.pick(fs);
        if composite && depth == 0 {
            continue;
        }
        *keyc += 1;
        // a fresh alias avoids merge conflicts; sometimes the plain name (merging of the same field)
        let key = if rng.chance(1, 3) { f.to_string() } else { format!("k{}", *keyc) };
        let subs = if composite { random_sels(rng, nt, depth - 1, keyc) } else { json!([]) };
        sels.push(with_conds(rng, json!(["field", key, f, subs]), 10));
    }
    if sels.is_empty() {
        sels.push(json!(["field", "__typename", "__typename", [], true]));
    }
    J::Array(sels)
}

/// Completes a selection: mostly unconditional (`included = true`), one in `k` skipped the old way (`included = false`,
/// rendered `@skip(if: true)`), and one in four with explicit @skip / @include directives over literals and the
/// variables t (true), f (false), d (default true) - inclusion is then decided by the specification, not here.
fn with_conds(rng: &mut Rng, mut s: J, k: usize) -> J {
    let a = s.as_array_mut().unwrap();
    if rng.chance(1, 4) {
        let mut conds = vec![];
        for _ in 0..rng.range(1, 2) {
            let dir = *rng.pick(&["skip", "include"]);
            if conds.iter().any(|c: &J| c[0] == dir) {
                continue; // @skip / @include are not repeatable
            }
            // biased towards "keeps the selection" so that deeper parts of the operation still run
            let keep = rng.chance(2, 3);
            let val = (dir == "include") == keep;
            let arg = match rng.below(3) {
                0 => json!(["lit", val]),
                1 if val && rng.chance(1, 2) => json!(["var", "d"]),
                _ => json!(["var", if val { "t" } else { "f" }]),
            };
            conds.push(json!([dir, arg]));
        }
        a.push(J::Array(conds));
        a.push(json!(true));
    } else {
        a.push(json!(!rng.chance(1, k)));
    }
    s
}

fn random_outcome(rng: &mut Rng, composite: bool, list_depth: usize) -> J {
    if list_depth > 0 && rng.chance(3, 4) {
        let n = rng.range(0, 3);
        return json!(["list", (0..n).map(|_| random_outcome(rng, composite, list_depth - 1)).collect::<Vec<_>>()]);
    }
    if composite {
        match rng.below(8) {
            0 => json!(["null"]),
            1 => json!(["err"]),
            2 => json!(["obj", "Other"]),
            3 => json!(["obj", "Nope"]),
            4 => json!(["int", 1]),
            _ => json!(["obj", "Obj"]),
        }
    } else {
        match rng.below(10) {
            0 => json!(["null"]),
            1 => json!(["err"]),
            2 => json!(["str", "s"]),
            3 => json!(["float"]),
            4 => json!(["bigint"]),
            5 => json!(["str", "V"]),
            6 => json!(["bool", true]),
            _ => json!(["int", rng.range(0, 3)]),
        }
    }
}

fn random_world(rng: &mut Rng) -> J {
    let mut w = serde_json::Map::new();
    for t in ["Query", "Mutation", "Obj", "Other", "Nope"] {
        let mut m = serde_json::Map::new();
        for (f, _nt, composite) in fields_of(if t == "Nope" { "Iface" } else { t }) {
            let ld = match (t, *f) { ("Query", "l" | "ln" | "lnn" | "lo") => 1, ("Query", "ll") => 2, _ => 0 };
            // mostly well-typed worlds with a few faults: otherwise everything collapses to null at the root
            let o = if rng.chance(3, 5) {
                let base = if *composite { json!(["obj", if *f == "u" || *f == "i" { *rng.pick(&["Obj", "Other"]) } else { "Obj" }]) }
                    else { match (t, *f) { (_, "e") => json!(["str", "V"]), (_, "s") => json!(["str", "s"]), (_, "f") => json!(["float"]), (_, "id") => json!(["str", "s"]), _ => json!(["int", 1]) } };
                let mut v = base;
                for _ in 0..ld { v = json!(["list", [v.clone(), v]]); }
                if t == "Obj" && *f == "o" { json!(["null"]) } else { v }
            } else { random_outcome(rng, *composite, ld) };
            // Obj.o must not recurse forever with a deep selection: selections are finite, so any outcome is fine
            m.insert(f.to_string(), o);
        }
        w.insert(t.to_string(), J::Object(m));
    }
    J::Object(w)
}

/// `exec-record --seed S --count N`: Trace_Execution lines
pub fn record(args: &[String]) {
    silence_panics();
    let seed = arg_num(args, "--seed", 1);
    let count = arg_num(args, "--count", 500) as usize;
    let mut rng = Rng::new(seed ^ 0xC26);
    let mut out = Out::new();
    let frags = json!({"G": {"on": "Obj", "sels": [["field", "x", "x", [], true]]},
                       "H": {"on": "Iface", "sels": [["field", "x", "x", [], true]]},
                       "K": {"on": "JustOther", "sels": [["field", "__typename", "__typename", [], true], ["inline", "Other", [["field", "z", "z", [], true]], true]]},
                       "F1": {"on": "Query", "sels": [["field", "a", "a", [], true]]}});
    let mut emitted = 0;
    let mut tries = 0;
    while emitted < count && tries < count * 20 {
        tries += 1;
        let kind = if rng.chance(1, 8) { "mutation" } else { "query" };
        let mut keyc = 0;
        let sels = random_sels(&mut rng, if kind == "mutation" { "Mutation" } else { "Query" }, 3, &mut keyc);
        let Ok((schema, doc, _text)) = prepare(kind, &sels, &frags) else { continue };
        let world = random_world(&mut rng);
        let r = guarded(|| {
            let root = W { type_name: if kind == "mutation" { "Mutation".into() } else { "Query".into() }, world: Arc::new(world.clone()), log: None };
            let vars = variables_for(&schema, &doc).ok()?;
            let resp = Execution::new(&schema, &doc).coerced_variable_values(&vars).execute_sync(&root).ok()?;
            // what the executor was given, for the specification: the coerced values (plus a dummy so that the record is never empty)
            let mut vj = serde_json::Map::new();
            vj.insert("_".into(), json!(false));
            for (k, v) in vars.iter() {
                vj.insert(k.as_str().to_string(), serde_json::to_value(v).unwrap());
            }
            Some((abstract_response(&resp), J::Object(vj)))
        });
        match r {
            Ok(Some(((data, errs), vars))) => out.line(&json!({"kind": kind, "sels": sels, "fragments": frags, "world": world, "vars": vars, "data": data, "errors": errs, "crash": false})),
            Ok(None) => continue,
            Err(_) => out.line(&json!({"kind": kind, "sels": sels, "fragments": frags, "world": world, "vars": {"_": false}, "data": ["null"], "errors": [], "crash": true})),
        }
        emitted += 1;
    }
}
