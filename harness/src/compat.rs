//! C29: type compatibility predicates against TypeCompat.tla.
use crate::util::*;
use apollo_compiler::ast::Type;
use apollo_compiler::{ExecutableDocument, Name, Schema};
use serde_json::{json, Value as J};

pub fn build_type(t: &J) -> Type {
    match t[0].as_str().unwrap() {
        "named" => Type::Named(Name::new(t[1].as_str().unwrap()).unwrap()),
        "list" => build_type(&t[1]).list(),
        _ => build_type(&t[1]).non_null(),
    }
}

pub fn replay(_args: &[String]) {
    silence_panics();
    let mut out = Out::new();
    let (mut n, mut bad, mut nontrivial, mut skipped) = (0u64, 0u64, 0u64, 0u64);
    read_lines(|v| {
        n += 1;
        let kind = v[0].as_str().unwrap().to_string();
        let mut why: Vec<String> = vec![];
        let text: String;
        match kind.as_str() {
            "COMPAT" => {
                let (var, loc) = (build_type(&v[1]), build_type(&v[2]));
                let expect = v[3].as_bool().unwrap();
                if expect {
                    nontrivial += 1;
                }
                text = format!("{var} -> {loc}");
                match guarded(|| var.is_assignable_to(&loc)) {
                    Err(p) => why.push(format!("panic: {p}")),
                    Ok(got) => {
                        if got != expect {
                            why.push(format!("is_assignable_to = {got}, AreTypesCompatible = {expect}"));
                        }
                    }
                }
            }
            "USAGE" => {
                let (var, loc) = (build_type(&v[1]), build_type(&v[3]));
                let vd = v[2].as_str().unwrap();
                let ld = v[4].as_bool().unwrap();
                let expect = v[5].as_bool().unwrap();
                // a null default for a non-null variable type is invalid for another rule: not isolating
                if vd == "null" && var.is_non_null() {
                    skipped += 1;
                    return;
                }
                if expect {
                    nontrivial += 1;
                }
                let schema_src = format!(
                    "scalar A scalar B type Query {{ f(a: {loc}{}): Int }}",
                    if ld { " = 1" } else { "" }
                );
                let doc_src = format!(
                    "query(${}: {var}{}) {{ f(a: $v) }}",
                    "v",
                    match vd {
                        "none" => "",
                        "null" => " = null",
                        _ => " = 1",
                    }
                );
                text = format!("{schema_src} || {doc_src}");
                let r = guarded(|| {
                    let schema = Schema::parse_and_validate(schema_src.clone(), "s.graphql").map_err(|e| format!("schema: {}", e.errors))?;
                    Ok::<bool, String>(ExecutableDocument::parse_and_validate(&schema, doc_src.clone(), "d.graphql").is_ok())
                });
                match r {
                    Err(p) => why.push(format!("panic: {p}")),
                    Ok(Err(e)) => why.push(format!("tool: isolating schema invalid: {e}")),
                    Ok(Ok(got)) => {
                        if got != expect {
                            why.push(format!("validation ok = {got}, IsVariableUsageAllowed = {expect}"));
                        }
                    }
                }
            }
            _ => {
                let (field, implemented) = (build_type(&v[1]), build_type(&v[2]));
                let rel = v[3].as_str().unwrap();
                let expect = v[4].as_bool().unwrap();
                if expect {
                    nontrivial += 1;
                }
                let defs = match rel {
                    "none" => "type A { k: Int } type B { k: Int }",
                    "iface" => "interface B { k: Int } type A implements B { k: Int }",
                    _ => "type A { k: Int } union B = A",
                };
                let schema_src = format!(
                    "{defs} interface I {{ x: {implemented} }} type T implements I {{ x: {field} }} type Query {{ t: T }}"
                );
                text = schema_src.clone();
                match guarded(|| Schema::parse_and_validate(schema_src.clone(), "s.graphql").is_ok()) {
                    Err(p) => why.push(format!("panic: {p}")),
                    Ok(got) => {
                        if got != expect {
                            why.push(format!("schema validation ok = {got}, IsValidImplementationFieldType = {expect}"));
                        }
                    }
                }
            }
        }
        if !why.is_empty() {
            bad += 1;
            out.line(&json!({"bad": true, "kind": kind, "case": v, "text": text, "why": why}));
        }
    });
    out.line(&json!({"summary": true, "cases": n, "bad": bad, "nontrivial": nontrivial, "skipped": skipped}));
}

fn random_type(rng: &mut Rng, depth: usize) -> J {
    if depth == 0 || rng.chance(1, 4) {
        let t = json!(["named", *rng.pick(&["A", "B", "C"])]);
        if rng.chance(1, 2) { json!(["nonnull", t]) } else { t }
    } else {
        let t = json!(["list", random_type(rng, depth - 1)]);
        if rng.chance(1, 2) { json!(["nonnull", t]) } else { t }
    }
}

fn tweak(rng: &mut Rng, t: &J) -> J {
    // a near copy: toggle one non-null or rename the innermost type (lands on both sides of the predicate)
    let mut s = serde_json::to_string(t).unwrap();
    match rng.below(3) {
        0 => s = s.replacen("\"A\"", "\"B\"", 1),
        1 => {
            if s.starts_with("[\"nonnull\",") {
                let inner: J = serde_json::from_str(&s).unwrap();
                return inner[1].clone();
            } else {
                return json!(["nonnull", t]);
            }
        }
        _ => {}
    }
    serde_json::from_str(&s).unwrap()
}

/// impl -> spec: recorded is_assignable_to results on deep random types
pub fn record(args: &[String]) {
    silence_panics();
    let seed = arg_num(args, "--seed", 1);
    let count = arg_num(args, "--count", 1000) as usize;
    let mut rng = Rng::new(seed ^ 0xC29);
    let mut out = Out::new();
    for _ in 0..count {
        let a = random_type(&mut rng, 7);
        let b = if rng.chance(2, 3) { tweak(&mut rng, &a) } else { random_type(&mut rng, 7) };
        let (ta, tb) = (build_type(&a), build_type(&b));
        let got = guarded(|| ta.is_assignable_to(&tb));
        out.line(&json!({"var": a, "loc": b, "got": got.clone().unwrap_or(false), "crash": got.is_err()}));
    }
}
