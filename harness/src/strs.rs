//! C06 (string literals decode to their spec values) and C09 (strings survive serialization).
use crate::astwalk::*;
use crate::util::*;
use apollo_compiler::ast;
use apollo_parser::cst::CstNode;
use apollo_parser::{cst, Lexer, Parser, TokenKind};
use serde_json::{json, Value as J};

const TEMPLATE: &str = r#"LIT schema @d(x: LIT) { query: Q }
LIT type Q { LIT f(LIT a: String = LIT): String @d(x: LIT) }
LIT enum E { LIT V }
LIT directive @d(x: String) on FIELD_DEFINITION | SCHEMA
LIT input I { LIT g: String = LIT h: [I] = [{g: LIT}] }
LIT scalar S LIT union U = Q LIT interface N { f: String }
query($v: String = LIT) { f(a: LIT, b: [LIT, {k: LIT}]) @d(x: LIT) }
"#;
const N_SLOTS: usize = 22;

fn cst_strings(tree: &apollo_parser::SyntaxTree) -> Vec<String> {
    tree.document()
        .syntax()
        .descendants()
        .filter_map(cst::StringValue::cast)
        .map(|sv| String::from(&sv))
        .collect()
}

/// C06 stdin: ["CASE", literal cps, expected value cps]
pub fn replay(_args: &[String]) {
    silence_panics();
    let mut out = Out::new();
    let (mut n, mut bad, mut nontrivial) = (0u64, 0u64, 0u64);
    read_lines(|v| {
        let lit = text_of(&cps_from_json(&v[1]));
        let expect = text_of(&cps_from_json(&v[2]));
        n += 1;
        let inner_len = if lit.starts_with("\"\"\"") { lit.chars().count() - 6 } else { lit.chars().count() - 2 };
        if expect.chars().count() != inner_len {
            nontrivial += 1;
        }
        let doc = TEMPLATE.replace("LIT", &lit);
        let r = guarded(|| {
            let tree = Parser::new(&doc).parse();
            let nerr = tree.errors().len();
            let cs = cst_strings(&tree);
            let mut astdoc = ast::Document::parse(doc.clone(), "s.graphql").map_err(|e| e.errors.to_string())?;
            let asts = collect_strings(&mut astdoc);
            Ok::<_, String>((nerr, cs, asts))
        });
        let mut why = vec![];
        match r {
            Err(p) => why.push(format!("panic: {p}")),
            Ok(Err(e)) => why.push(format!("template with this literal does not parse: {}", e.lines().next().unwrap_or(""))),
            Ok(Ok((nerr, cs, asts))) => {
                if nerr != 0 {
                    why.push("syntax errors".into());
                }
                if cs.len() != N_SLOTS || asts.len() != N_SLOTS {
                    why.push(format!("expected {N_SLOTS} string slots, CST has {}, AST has {}", cs.len(), asts.len()));
                }
                if let Some(b) = cs.iter().find(|s| **s != expect) {
                    why.push(format!("CST value differs: {:?}", cps_of(b)));
                }
                if let Some(b) = asts.iter().find(|s| **s != expect) {
                    why.push(format!("AST value differs: {:?}", cps_of(b)));
                }
            }
        }
        if !why.is_empty() {
            bad += 1;
            out.line(&json!({"bad": true, "literal": lit, "cps": v[1], "expected": v[2], "why": why}));
        }
    });
    out.line(&json!({"summary": true, "cases": n, "bad": bad, "nontrivial": nontrivial}));
}

const POOL: &[&str] = &[
    "a", "b", " ", "  ", "\t", "\n", "\r", "\r\n", "\"", "\"\"", "\"\"\"", "\\", "\\\"\"\"", "é", "🚀", "\u{feff}", "x y",
    "\n ", "\n  ", "\n\t", " \n", "#", ",", "\\n", "\\u0041", "\u{a0}", "\n\u{a0}", "\u{3000}", "\u{2003}", "\u{2028}",
];

/// C06 impl -> spec: random valid literals: {"lit": cps, "values": [[cps]...]} (every slot's decoded value)
pub fn record(args: &[String]) {
    silence_panics();
    let seed = arg_num(args, "--seed", 1);
    let count = arg_num(args, "--count", 500) as usize;
    let mut rng = Rng::new(seed ^ 0xC06);
    let mut out = Out::new();
    let mut emitted = 0;
    let mut tries = 0;
    while emitted < count && tries < count * 30 {
        tries += 1;
        let block = rng.chance(2, 3);
        let mut inner = String::new();
        for _ in 0..rng.range(0, 14) {
            inner.push_str(*rng.pick(POOL));
        }
        if !block {
            inner = inner.replace(['\n', '\r'], " ");
        }
        let lit = if block { format!("\"\"\"{inner}\"\"\"") } else { format!("\"{inner}\"") };
        // must be exactly one valid StringValue token for the real lexer (C03 decides the lexer)
        let toks: Vec<_> = Lexer::new(&lit).collect();
        if toks.len() != 2 || !matches!(&toks[0], Ok(t) if t.kind() == TokenKind::StringValue) {
            continue;
        }
        let doc = TEMPLATE.replace("LIT", &lit);
        let r = guarded(|| {
            let tree = Parser::new(&doc).parse();
            let cs = cst_strings(&tree);
            let mut astdoc = ast::Document::parse(doc.clone(), "s.graphql").ok()?;
            let mut all = cs;
            all.extend(collect_strings(&mut astdoc));
            Some(all)
        });
        match r {
            Ok(Some(all)) => {
                let mut distinct: Vec<Vec<u32>> = vec![];
                for s in &all {
                    let c = cps_of(s);
                    if !distinct.contains(&c) {
                        distinct.push(c);
                    }
                }
                out.line(&json!({"kind": "decode", "lit": cps_of(&lit), "values": distinct, "slots": all.len(), "crash": false}));
            }
            Ok(None) => out.line(&json!({"kind": "decode", "lit": cps_of(&lit), "values": [], "slots": 0, "crash": false})),
            Err(_) => out.line(&json!({"kind": "decode", "lit": cps_of(&lit), "values": [], "slots": 0, "crash": true})),
        }
        emitted += 1;
    }
}

// ------------------------------------------------------------------------------ C09

const TEMPLATE9: &str = r#""P" schema @d(x: "P") { query: Q }
"P" type Q { "P" f("P" a: String = "P"): String @d(x: "P") }
"P" enum E { "P" V }
"P" directive @d(x: String) on FIELD_DEFINITION | SCHEMA
"P" input I { "P" g: String = "P" h: [I] = [{g: "P"}] }
query($v: String = "P") { f(a: "P", b: [["P"], {k: {k: "P"}}]) @d(x: "P") ... { f(a: "P") } }
"#;

pub fn configs() -> Vec<(Option<&'static str>, usize)> {
    let mut v = vec![];
    for p in [None, Some(""), Some(" "), Some("  "), Some("\t"), Some(" \t")] {
        for l in [0usize, 1, 3] {
            v.push((p, l));
        }
    }
    v
}

pub fn serialize_doc(doc: &ast::Document, cfg: (Option<&str>, usize)) -> String {
    let s = doc.serialize();
    let s = match cfg.0 {
        None => s.no_indent(),
        Some(p) => s.indent_prefix(p),
    };
    s.initial_indent_level(cfg.1).to_string()
}

/// C09 stdin: ["CASE", value cps]; out: mismatch lines, and with --record the serialized literals for TLC.
pub fn roundtrip(args: &[String]) {
    silence_panics();
    let record = args.iter().any(|a| a == "--record");
    let sample_cfgs = arg_num(args, "--cfgs", 18) as usize;
    let mut out = Out::new();
    let (mut n, mut bad, mut runs) = (0u64, 0u64, 0u64);
    let cfgs = configs();
    let base = ast::Document::parse(TEMPLATE9, "t.graphql").expect("template");
    read_lines(|v| {
        let val = text_of(&cps_from_json(&v[1]));
        n += 1;
        let mut doc = base.clone();
        let mut slots = 0;
        for_each_string(&mut doc, &mut |s| match s {
            Slot::Description(d) => {
                if d.is_some() {
                    *d = Some(apollo_compiler::Node::new_str(&val));
                    slots += 1;
                }
            }
            Slot::Value(x) => {
                *x = val.clone();
                slots += 1;
            }
        });
        let mut why: Vec<String> = vec![];
        let mut lits: Vec<Vec<u32>> = vec![];
        for (k, cfg) in cfgs.iter().enumerate() {
            if sample_cfgs < cfgs.len() && (k + n as usize) % cfgs.len() >= sample_cfgs {
                continue;
            }
            runs += 1;
            let r = guarded(std::panic::AssertUnwindSafe(|| {
                let text = serialize_doc(&doc, *cfg);
                let re = ast::Document::parse(text.clone(), "r.graphql");
                (text, re)
            }));
            match r {
                Err(p) => why.push(format!("panic with cfg {cfg:?}: {p}")),
                Ok((text, Err(_))) => why.push(format!("cfg {cfg:?}: serialized text does not reparse: {:?}", &text[..text.len().min(120)])),
                Ok((text, Ok(mut re))) => {
                    let got = collect_strings(&mut re);
                    if got.len() != slots {
                        why.push(format!("cfg {cfg:?}: {} strings after reparse, expected {slots}", got.len()));
                    }
                    if let Some(b) = got.iter().find(|s| **s != val) {
                        why.push(format!("cfg {cfg:?}: reparsed string differs: {:?}", cps_of(b)));
                    }
                    if record {
                        for t in Lexer::new(&text).flatten() {
                            if t.kind() == TokenKind::StringValue {
                                let c = cps_of(t.data());
                                if !lits.contains(&c) {
                                    lits.push(c);
                                }
                            }
                        }
                    }
                }
            }
        }
        if record {
            out.line(&json!({"rec": true, "kind": "encode", "value": v[1], "literals": lits}));
        }
        if !why.is_empty() {
            bad += 1;
            why.truncate(4);
            out.line(&json!({"bad": true, "value": val, "cps": v[1], "why": why}));
        }
    });
    out.line(&json!({"summary": true, "cases": n, "bad": bad, "runs": runs}));
}

const POOL9: &[&str] = &[
    "a", " ", "  ", "\t", "\n", "\r", "\r\n", "\"", "\"\"", "\"\"\"", "\\", "\\\"\"\"", "é", "🚀", "\u{feff}", "\u{8}", "\u{1f}",
    "\u{0}", "\u{7f}", "\u{85}", "\u{9f}", "\u{80}", "\n ", "\n  ", " \n", "\n\n", "\\n", "\\u0041", "#", "\u{2028}", "\u{c}", "\u{b}", "x",
];

/// C09 random values as ["CASE", cps] lines
pub fn gen_values(args: &[String]) {
    let seed = arg_num(args, "--seed", 1);
    let count = arg_num(args, "--count", 500) as usize;
    let mut rng = Rng::new(seed ^ 0xC09);
    let mut out = Out::new();
    for _ in 0..count {
        let mut s = String::new();
        for _ in 0..rng.range(0, 12) {
            s.push_str(*rng.pick(POOL9));
        }
        out.line(&json!(["CASE", cps_of(&s)]));
    }
    let _ = J::Null;
}
