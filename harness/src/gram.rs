//! C05 / C07: token strings decided by Grammar.tla replayed on the real parser.
use crate::util::*;
use apollo_parser::cst;
use apollo_parser::Parser;
use serde_json::json;

pub fn concretize(tok: &str) -> &str {
    match tok {
        "n1" => "a",
        "n2" => "b",
        "n3" => "c",
        "int" => "1",
        "float" => "1.5",
        "str" => "\"s\"",
        "bstr" => "\"\"\"b\"\"\"",
        "bad" => "%",
        "uni" => "é",
        "ws" => " ",
        "comma" => ",",
        "comment" => "#c\n",
        t => t,
    }
}

pub fn render(toks: &[String]) -> String {
    let mut s = String::new();
    for (i, t) in toks.iter().enumerate() {
        if i > 0 {
            s.push(' ');
        }
        s.push_str(concretize(t));
    }
    s
}

fn name_text(n: Option<cst::Name>) -> String {
    n.map(|n| n.text().to_string()).unwrap_or_default()
}

/// (kind, name) of every top-level definition of the CST, in order.
pub fn top_level(doc: &cst::Document) -> Vec<(String, String)> {
    use cst::Definition as D;
    doc.definitions()
        .map(|d| match d {
            D::OperationDefinition(x) => ("OperationDefinition".to_string(), name_text(x.name())),
            D::FragmentDefinition(x) => (
                "FragmentDefinition".to_string(),
                name_text(x.fragment_name().and_then(|f| f.name())),
            ),
            D::DirectiveDefinition(x) => ("DirectiveDefinition".to_string(), name_text(x.name())),
            D::SchemaDefinition(_) => ("SchemaDefinition".to_string(), String::new()),
            D::ScalarTypeDefinition(x) => ("ScalarTypeDefinition".to_string(), name_text(x.name())),
            D::ObjectTypeDefinition(x) => ("ObjectTypeDefinition".to_string(), name_text(x.name())),
            D::InterfaceTypeDefinition(x) => ("InterfaceTypeDefinition".to_string(), name_text(x.name())),
            D::UnionTypeDefinition(x) => ("UnionTypeDefinition".to_string(), name_text(x.name())),
            D::EnumTypeDefinition(x) => ("EnumTypeDefinition".to_string(), name_text(x.name())),
            D::InputObjectTypeDefinition(x) => ("InputObjectTypeDefinition".to_string(), name_text(x.name())),
            D::SchemaExtension(_) => ("SchemaExtension".to_string(), String::new()),
            D::ScalarTypeExtension(x) => ("ScalarTypeExtension".to_string(), name_text(x.name())),
            D::ObjectTypeExtension(x) => ("ObjectTypeExtension".to_string(), name_text(x.name())),
            D::InterfaceTypeExtension(x) => ("InterfaceTypeExtension".to_string(), name_text(x.name())),
            D::UnionTypeExtension(x) => ("UnionTypeExtension".to_string(), name_text(x.name())),
            D::EnumTypeExtension(x) => ("EnumTypeExtension".to_string(), name_text(x.name())),
            D::InputObjectTypeExtension(x) => ("InputObjectTypeExtension".to_string(), name_text(x.name())),
        })
        .collect()
}

/// stdin: ["CASE", toks, inGrammar, topLevel, isTypeRef, isFieldSet]
/// stdout: mismatch lines + summary.  `--which doc|type|fieldset|all`
pub fn replay(args: &[String]) {
    silence_panics();
    let which = arg_val(args, "--which").unwrap_or_else(|| "all".into());
    let mut out = Out::new();
    let (mut n, mut members, mut bad) = (0u64, 0u64, 0u64);
    read_lines(|v| {
        let toks: Vec<String> = v[1].as_array().unwrap().iter().map(|t| t.as_str().unwrap().to_string()).collect();
        let text = render(&toks);
        let in_g = v[2].as_bool().unwrap();
        n += 1;
        if which == "all" || which == "doc" {
            if in_g {
                members += 1;
            }
            let expect_top: Vec<(String, String)> = v[3]
                .as_array()
                .unwrap()
                .iter()
                .map(|p| (p[0].as_str().unwrap().to_string(), concretize(p[1].as_str().unwrap()).to_string()))
                .collect();
            match guarded(|| {
                let tree = Parser::new(&text).parse();
                let nerr = tree.errors().len();
                let first = tree.errors().next().map(|e| e.message().to_string());
                (nerr, first, top_level(&tree.document()))
            }) {
                Err(p) => {
                    bad += 1;
                    out.line(&json!({"bad": true, "entry": "doc", "toks": toks, "text": text, "why": "panic", "msg": p}));
                }
                Ok((nerr, first, top)) => {
                    if (nerr == 0) != in_g {
                        bad += 1;
                        out.line(&json!({"bad": true, "entry": "doc", "toks": toks, "text": text,
                            "why": if in_g {"rejects-member"} else {"accepts-nonmember"}, "firstError": first}));
                    } else if in_g && top != expect_top {
                        bad += 1;
                        out.line(&json!({"bad": true, "entry": "doc", "toks": toks, "text": text, "why": "top-level-differs",
                            "got": top, "expected": expect_top}));
                    }
                }
            }
        }
        if which == "all" || which == "type" {
            let is_ty = v[4].as_bool().unwrap();
            match guarded(|| {
                let tree = Parser::new(&text).parse_type();
                tree.errors().len()
            }) {
                Err(p) => {
                    bad += 1;
                    out.line(&json!({"bad": true, "entry": "type", "toks": toks, "text": text, "why": "panic", "msg": p}));
                }
                Ok(nerr) => {
                    if (nerr == 0) != is_ty {
                        bad += 1;
                        out.line(&json!({"bad": true, "entry": "type", "toks": toks, "text": text,
                            "why": if is_ty {"rejects-member"} else {"accepts-nonmember"}}));
                    }
                }
            }
            // compiler level
            let r = guarded(|| apollo_compiler::ast::Type::parse(text.clone(), "t.graphql").is_ok());
            match r {
                Err(p) => {
                    bad += 1;
                    out.line(&json!({"bad": true, "entry": "ast::Type::parse", "toks": toks, "text": text, "why": "panic", "msg": p}));
                }
                Ok(ok) => {
                    if ok != is_ty {
                        bad += 1;
                        out.line(&json!({"bad": true, "entry": "ast::Type::parse", "toks": toks, "text": text,
                            "why": if is_ty {"rejects-member"} else {"accepts-nonmember"}}));
                    }
                }
            }
        }
        if which == "all" || which == "fieldset" {
            let is_fs = v[5].as_bool().unwrap();
            match guarded(|| {
                let tree = Parser::new(&text).parse_selection_set();
                tree.errors().len()
            }) {
                Err(p) => {
                    bad += 1;
                    out.line(&json!({"bad": true, "entry": "fieldset", "toks": toks, "text": text, "why": "panic", "msg": p}));
                }
                Ok(nerr) => {
                    if (nerr == 0) != is_fs {
                        bad += 1;
                        out.line(&json!({"bad": true, "entry": "fieldset", "toks": toks, "text": text,
                            "why": if is_fs {"rejects-member"} else {"accepts-nonmember"}}));
                    }
                }
            }
            // compiler level: no error only if the whole input is one selection set
            let r = guarded(|| {
                apollo_compiler::parser::Parser::new()
                    .parse_field_set(crate::parse::fixed_schema(), apollo_compiler::name!("Query"), text.clone(), "fs.graphql")
                    .is_ok()
            });
            match r {
                Err(p) => {
                    bad += 1;
                    out.line(&json!({"bad": true, "entry": "FieldSet::parse", "toks": toks, "text": text, "why": "panic", "msg": p}));
                }
                Ok(ok) => {
                    if ok && !is_fs {
                        bad += 1;
                        out.line(&json!({"bad": true, "entry": "FieldSet::parse", "toks": toks, "text": text, "why": "accepts-nonmember"}));
                    }
                }
            }
        }
    });
    out.line(&json!({"summary": true, "cases": n, "members": members, "bad": bad}));
}

// ------------------------------------------------------------------ impl -> spec recording

use apollo_parser::{Lexer, TokenKind};

/// Grammar-level token symbols of a text, from the real lexer; None if it has lexical errors or a name
/// that collides with a literal class symbol.
pub fn token_symbols(text: &str) -> Option<Vec<String>> {
    let mut out = vec![];
    for it in Lexer::new(text) {
        let t = it.ok()?;
        match t.kind() {
            TokenKind::Whitespace | TokenKind::Comment | TokenKind::Comma | TokenKind::Eof => {}
            TokenKind::Name => {
                if matches!(t.data(), "int" | "float" | "str" | "bstr") {
                    return None;
                }
                out.push(t.data().to_string())
            }
            TokenKind::Int => out.push("int".into()),
            TokenKind::Float => out.push("float".into()),
            TokenKind::StringValue => out.push(if t.data().starts_with("\"\"\"") { "bstr".into() } else { "str".into() }),
            k => out.push(crate::lex::kind_name(k).to_string()),
        }
    }
    Some(out)
}

fn definition_texts() -> Vec<String> {
    let mut defs = vec![];
    fn walk(p: &std::path::Path, out: &mut Vec<String>) {
        if let Ok(rd) = std::fs::read_dir(p) {
            let mut es: Vec<_> = rd.filter_map(|e| e.ok()).map(|e| e.path()).collect();
            es.sort();
            for e in es {
                if e.is_dir() {
                    walk(&e, out);
                } else if e.extension().map(|x| x == "graphql").unwrap_or(false) {
                    if let Ok(s) = std::fs::read_to_string(&e) {
                        out.push(s);
                    }
                }
            }
        }
    }
    let mut files = vec![];
    walk(std::path::Path::new("/repo/crates/apollo-parser/test_data/parser/ok"), &mut files);
    walk(std::path::Path::new("/repo/crates/apollo-compiler/test_data/ok"), &mut files);
    walk(std::path::Path::new("/repo/crates/apollo-compiler/test_data/serializer/ok"), &mut files);
    for f in files {
        let tree = Parser::new(&f).parse();
        if tree.errors().len() > 0 {
            continue;
        }
        use apollo_parser::cst::CstNode;
        for d in tree.document().definitions() {
            let t = d.syntax().text().to_string();
            if let Some(sy) = token_symbols(&t) {
                if sy.len() <= 45 {
                    defs.push(t);
                }
            }
        }
    }
    defs
}

const MUT_TOKS: &[&str] = &[
    "{", "}", "(", ")", "[", "]", "!", ":", "=", "@", "$", "...", "|", "&", "a", "on", "query", "type", "extend", "schema",
    "fragment", "1", "1.5", "\"s\"", "\"\"\"b\"\"\"", "true", "null", "implements", "directive", "repeatable", "input",
    "enum", "union", "interface", "scalar", "subscription", "mutation", "FIELD", "OBJECT",
];

/// `gram-record --seed S --count N`: lines {"toks":[..], "text":.., "ok":bool, "top":[[kind,name]..]}
pub fn record(args: &[String]) {
    silence_panics();
    let seed = arg_num(args, "--seed", 1);
    let count = arg_num(args, "--count", 1000) as usize;
    let mut rng = Rng::new(seed ^ 0xC05);
    let defs = definition_texts();
    let mut out = Out::new();
    let mut emitted = 0usize;
    let mut guard = 0usize;
    while emitted < count && guard < count * 20 && !defs.is_empty() {
        guard += 1;
        let k = rng.range(1, 3);
        let mut text = String::new();
        for _ in 0..k {
            text.push_str(rng.pick(&defs[..]).as_str());
            text.push('\n');
        }
        // token-level mutation through the real lexer's token boundaries
        let mut pieces: Vec<String> = vec![];
        for it in Lexer::new(&text) {
            if let Ok(t) = it {
                if t.kind() != TokenKind::Eof {
                    pieces.push(t.data().to_string());
                }
            }
        }
        let sig: Vec<usize> = pieces.iter().enumerate().filter(|(_, p)| !p.trim().is_empty() && !p.starts_with('#') && p.as_str() != ",").map(|(i, _)| i).collect();
        let nm = if guard % 5 == 0 { 0 } else { rng.range(1, 2) };
        for _ in 0..nm {
            if sig.is_empty() {
                break;
            }
            let i = *rng.pick(&sig);
            match rng.below(4) {
                0 => pieces[i] = String::new(),
                1 => pieces[i] = format!("{} {}", rng.pick(MUT_TOKS), pieces[i]),
                2 => pieces[i] = rng.pick(MUT_TOKS).to_string(),
                _ => {
                    let j = *rng.pick(&sig);
                    pieces.swap(i, j);
                }
            }
        }
        let mutated: String = pieces.iter().map(|p| if p.is_empty() { " ".to_string() } else { p.clone() }).collect::<Vec<_>>().join(" ");
        let Some(toks) = token_symbols(&mutated) else { continue };
        if toks.len() > 90 || toks.is_empty() {
            continue;
        }
        let r = guarded(|| {
            let tree = Parser::new(&mutated).parse();
            (tree.errors().len() == 0, top_level(&tree.document()))
        });
        let Ok((ok, top)) = r else { continue };
        let top: Vec<serde_json::Value> = if ok { top.iter().map(|(k, n)| json!([k, n])).collect() } else { vec![] };
        out.line(&json!({"mode": "doc", "toks": toks, "text": mutated, "ok": ok, "top": top}));
        emitted += 1;
    }
}

pub fn text_cmd(args: &[String]) {
    let text = args.first().cloned().unwrap_or_default();
    let tree = Parser::new(&text).parse();
    println!("{}", json!({"ok": tree.errors().len() == 0, "type_ok": Parser::new(&text).parse_type().errors().len() == 0,
        "fieldset_ok": Parser::new(&text).parse_selection_set().errors().len() == 0}));
}

/// `gram-record-text <text>`: one Trace_Grammar line for the given text.
pub fn record_text(args: &[String]) {
    let text = args.first().cloned().unwrap_or_default();
    let Some(toks) = token_symbols(&text) else { return };
    let tree = Parser::new(&text).parse();
    let ok = tree.errors().len() == 0;
    let top: Vec<serde_json::Value> = if ok { top_level(&tree.document()).iter().map(|(k, n)| json!([k, n])).collect() } else { vec![] };
    println!("{}", json!({"mode": "doc", "toks": toks, "text": text, "ok": ok, "top": top}));
}
