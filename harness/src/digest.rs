//! C22 (and C31): digests of every observable output for a fixed set of inputs, printed by one process.
//! Python runs this in several independent processes (each with its own hash seeds) and compares.
use crate::util::*;
use apollo_compiler::ast::{FieldDefinition, Type};
use apollo_compiler::request::coerce_variable_values;
use apollo_compiler::response::JsonMap;
use apollo_compiler::schema::{Component, ExtendedType};
use apollo_compiler::validation::Valid;
use apollo_compiler::{introspection, ExecutableDocument, Name, Schema};
use serde_json::json;

pub fn fnv(s: &str) -> String {
    let mut h: u64 = 0xcbf29ce484222325;
    for b in s.as_bytes() {
        h ^= *b as u64;
        h = h.wrapping_mul(0x100000001b3);
    }
    format!("{:016x}:{}", h, s.len())
}

pub const FULL_INTROSPECTION: &str = include_str!("/repo/crates/apollo-compiler/test_data/introspection/introspect_full_schema.graphql");

/// Run an introspection query (no variables) and return the response as JSON text.
pub fn introspect(schema: &Valid<Schema>, query: &str) -> Result<String, String> {
    let document = ExecutableDocument::parse_and_validate(schema, query, "query.graphql").map_err(|e| e.errors.to_string())?;
    let operation = document.operations.get(None).map_err(|_| "no operation".to_string())?;
    let variables = coerce_variable_values(schema, operation, &JsonMap::new()).map_err(|e| format!("{e:?}"))?;
    let response = introspection::partial_execute(schema, &schema.implementers_map(), &document, operation, &variables)
        .map_err(|e| format!("{e:?}"))?;
    serde_json::to_string(&response).map_err(|e| e.to_string())
}

fn corpus() -> Vec<(String, String)> {
    let mut out = vec![];
    for d in [
        "/repo/crates/apollo-compiler/test_data/ok",
        "/repo/crates/apollo-compiler/test_data/diagnostics",
        "/repo/crates/apollo-compiler/test_data/serializer/ok",
    ] {
        if let Ok(rd) = std::fs::read_dir(d) {
            let mut es: Vec<_> = rd.filter_map(|e| e.ok()).map(|e| e.path()).collect();
            es.sort();
            for e in es {
                if e.extension().map(|x| x == "graphql").unwrap_or(false) {
                    if let Ok(s) = std::fs::read_to_string(&e) {
                        out.push((e.file_name().unwrap().to_string_lossy().to_string(), s));
                    }
                }
            }
        }
    }
    out
}

fn synthetic(seed: u64) -> Vec<(String, String)> {
    let mut rng = Rng::new(seed ^ 0xC22);
    let mut out = vec![];
    // many unused / undefined variables, many merge conflicts, many unused fragments, many implementers
    for k in 0..6 {
        let nv = rng.range(3, 9);
        let vars: Vec<String> = (0..nv).map(|i| format!("$v{i}: Int")).collect();
        let mut s = String::from("type Query { a(x: Int): Int b: Query i: I }\ninterface I { a: Int }\n");
        for i in 0..rng.range(2, 7) {
            s.push_str(&format!("type T{i} implements I {{ a: Int t{i}: String }}\n"));
        }
        s.push_str(&format!("query Q{k}({}) {{ a(x: $u1) a: b {{ a }} x: a x: b {{ a }} y: a(x: 1) y: a(x: 2) ...F{} i {{ ... on T0 {{ a }} ... on T1 {{ a: t1 }} }} }}\n", vars.join(", "), k));
        for i in 0..rng.range(2, 6) {
            s.push_str(&format!("fragment F{i} on Query {{ a @undef{i} }}\n"));
        }
        out.push((format!("synthetic-{k}"), s));
    }
    // many type extensions without a definition, of every kind (adopted by one builder mode, diagnosed by the other),
    // many duplicate definitions, many undefined references
    for k in 0..3 {
        let mut s = String::from("extend type Query { a: Int }\n");
        for i in 0..rng.range(4, 9) {
            let n = format!("N{}x{i}", (b'A' + ((i * 7 + k) % 26) as u8) as char);
            match i % 6 {
                0 => s.push_str(&format!("extend type {n} {{ f: Int }}\n")),
                1 => s.push_str(&format!("extend interface {n} {{ f: Int }}\n")),
                2 => s.push_str(&format!("extend enum {n} {{ V }}\n")),
                3 => s.push_str(&format!("extend input {n} {{ f: Int }}\n")),
                4 => s.push_str(&format!("extend union {n} = Query\n")),
                _ => s.push_str(&format!("extend scalar {n} @specifiedBy(url: \"u\")\n")),
            }
        }
        for i in 0..rng.range(2, 5) {
            s.push_str(&format!("type Dup{k} {{ f{i}: Undefined{i} }}\ndirective @dd{k} on FIELD\n"));
        }
        out.push((format!("synthetic-orphans-{k}"), s));
    }
    out
}

fn schema_digests(id: &str, src: &str, out: &mut Out) {
    let r = guarded(|| {
        let mut lines = vec![];
        let ast = match apollo_compiler::ast::Document::parse(src.to_string(), "d.graphql") {
            Ok(a) => a,
            Err(e) => {
                lines.push(("syntax-diagnostics", fnv(&e.errors.to_string())));
                e.partial
            }
        };
        lines.push(("ast-serialization", fnv(&ast.to_string())));
        // every SchemaBuilder mode
        for (mode, adopt, ignore) in [("builder-adopt-orphans", true, false), ("builder-ignore-builtin-redefinitions", false, true), ("builder-both", true, true)] {
            let mut b = Schema::builder();
            if adopt {
                b = b.adopt_orphan_extensions();
            }
            if ignore {
                b = b.ignore_builtin_redefinitions();
            }
            let b = b.parse(src.to_string(), "b.graphql");
            let orphans: Vec<String> = b.iter_orphan_extension_types().map(|n| n.to_string()).collect();
            let (schema, errors) = match b.build() {
                Ok(s) => (s, String::new()),
                Err(e) => (e.partial, e.errors.to_string()),
            };
            let text = format!("{}\n--\n{}\n--\n{}\n--\n{}", orphans.join(","), schema.types.keys().map(|k| k.as_str()).collect::<Vec<_>>().join(","), schema, errors);
            lines.push((mode, fnv(&text)));
        }
        match ast.to_mixed_validate() {
            Ok((schema, doc)) => {
                lines.push(("schema-serialization", fnv(&schema.to_string())));
                lines.push(("document-serialization", fnv(&doc.to_string())));
                lines.push(("type-map-order", fnv(&schema.types.keys().map(|k| k.as_str()).collect::<Vec<_>>().join(","))));
                if let Ok(j) = introspect(&schema, FULL_INTROSPECTION) {
                    lines.push(("introspection", fnv(&j)));
                }
                let imp = schema.implementers_map();
                let mut keys: Vec<_> = imp.keys().map(|k| k.to_string()).collect();
                keys.sort();
                let mut s = String::new();
                for k in keys {
                    let mut v: Vec<String> = imp[k.as_str()].iter().map(|n| n.to_string()).collect();
                    v.sort();
                    s.push_str(&format!("{k}:{v:?};"));
                }
                lines.push(("implementers", fnv(&s)));
            }
            Err(e) => {
                lines.push(("diagnostics-text", fnv(&e.to_string())));
                let js: Vec<String> = e.iter().map(|d| serde_json::to_string(&d.to_json()).unwrap()).collect();
                lines.push(("diagnostics-json", fnv(&js.join("\n"))));
            }
        }
        lines
    });
    match r {
        Ok(lines) => {
            for (what, d) in lines {
                out.line(&json!({"id": format!("{id}/{what}"), "digest": d}));
            }
        }
        Err(p) => out.line(&json!({"id": format!("{id}/panic"), "digest": fnv(&p)})),
    }
}

fn history_digests(out: &mut Out) {
    // the C16 counterexample family: validate, unwrap, add fields of removed scalars in some order, validate
    let orders: [&[&str]; 6] = [&["Int", "Float", "ID"], &["ID", "Float", "Int"], &["Float", "ID", "Int"], &["Int", "ID"], &["ID", "Int", "Float", "String"], &["Float"]];
    for (k, order) in orders.iter().enumerate() {
        let r = guarded(|| {
            let schema = Schema::parse_and_validate("type Query { base: Boolean }", "s.graphql").map_err(|e| e.errors.to_string())?;
            let mut inner = schema.into_inner();
            for (i, s) in order.iter().enumerate() {
                let fname = Name::new(&format!("f{i}")).unwrap();
                let ExtendedType::Object(q) = inner.types.get_mut("Query").unwrap() else { unreachable!() };
                q.make_mut().fields.insert(fname.clone(), Component::new(FieldDefinition {
                    description: None, name: fname, arguments: vec![], ty: Type::Named(Name::new(s).unwrap()), directives: Default::default() }));
            }
            let v = inner.validate().map_err(|e| e.errors.to_string())?;
            let keys: Vec<&str> = v.types.keys().map(|k| k.as_str()).collect();
            let intro = introspect(&v, "{ __schema { types { name } } }").unwrap_or_default();
            Ok::<_, String>((keys.join(","), v.to_string(), intro))
        });
        match r {
            Ok(Ok((keys, text, intro))) => {
                out.line(&json!({"id": format!("history-{k}/type-map-order"), "digest": fnv(&keys)}));
                out.line(&json!({"id": format!("history-{k}/serialization"), "digest": fnv(&text)}));
                out.line(&json!({"id": format!("history-{k}/introspection-types"), "digest": fnv(&intro)}));
            }
            Ok(Err(e)) => out.line(&json!({"id": format!("history-{k}/error"), "digest": fnv(&e)})),
            Err(p) => out.line(&json!({"id": format!("history-{k}/panic"), "digest": fnv(&p)})),
        }
    }
}

fn smith_digests(seed: u64, count: usize, out: &mut Out) {
    let mut rng = Rng::new(seed ^ 0x5317);
    for k in 0..count {
        let n = *rng.pick(&[0usize, 1, 7, 64, 300, 1200]);
        let bytes: Vec<u8> = (0..n).map(|_| rng.next() as u8).collect();
        let r = guarded(|| {
            let mut u = arbitrary::Unstructured::new(&bytes);
            match apollo_smith::DocumentBuilder::new(&mut u).build() {
                Ok(doc) => String::from(doc),
                Err(e) => format!("error: {e:?}"),
            }
        });
        match r {
            Ok(text) => out.line(&json!({"id": format!("smith-{k}/document"), "digest": fnv(&text)})),
            Err(p) => out.line(&json!({"id": format!("smith-{k}/panic"), "digest": fnv(&p)})),
        }
    }
}

/// `digest --seed S --smith N`
pub fn run(args: &[String]) {
    silence_panics();
    let seed = arg_num(args, "--seed", 1);
    let smith = arg_num(args, "--smith", 30) as usize;
    let mut out = Out::new();
    for (name, src) in corpus() {
        schema_digests(&name, &src, &mut out);
    }
    for (name, src) in synthetic(seed) {
        schema_digests(&name, &src, &mut out);
    }
    history_digests(&mut out);
    smith_digests(seed, smith, &mut out);
}
