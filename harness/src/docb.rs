//! ExecutableDocumentBuilder histories (DocBuilder.tla): kept definitions and build errors under every split into sources.
use crate::util::*;
use apollo_compiler::validation::DiagnosticList;
use apollo_compiler::{ExecutableDocument, Schema};
use serde_json::{json, Value as J};

fn item_text(it: &J) -> String {
    let name = it["name"].as_str().unwrap();
    if it["k"] == "frag" {
        format!("fragment {name} on Query {{ a }}")
    } else if name.is_empty() {
        "{ a }".to_string()
    } else {
        format!("query {name} {{ a }}")
    }
}

fn tag(msg: &str) -> &'static str {
    if msg.starts_with("anonymous operation cannot be selected") {
        "ambiguous-anonymous"
    } else if msg.starts_with("the operation `") {
        "operation-name-collision"
    } else if msg.starts_with("the fragment `") {
        "fragment-name-collision"
    } else {
        "other"
    }
}

/// stdin: ["CASE", items, named, anon, frs, errs]
pub fn replay(_args: &[String]) {
    silence_panics();
    let schema = Schema::parse_and_validate("type Query { a: Int }", "s.graphql").expect("schema");
    let mut out = Out::new();
    let (mut n, mut nbad, mut runs) = (0u64, 0u64, 0u64);
    read_lines(|v| {
        n += 1;
        let items = v[1].as_array().cloned().unwrap_or_default();
        if items.is_empty() {
            return; // an empty source text is a syntax error of the parser, not a builder history
        }
        let mut want_errs: Vec<String> = v[5].as_array().unwrap().iter().map(|e| e.as_str().unwrap().to_string()).collect();
        want_errs.sort();
        let requests: Vec<String> = v[6].as_array().map(|a| a.iter().map(|p| p[0].as_str().unwrap().to_string()).collect()).unwrap_or_default();
        let want = json!({"named": v[2], "anon": v[3], "frs": v[4], "errs": want_errs, "get": v[6]});
        let k = items.len();
        let splits = if k == 0 { 1 } else { 1usize << (k - 1) };
        for mask in 0..splits {
            // bit i set: a source boundary after item i
            let mut chunks: Vec<String> = vec![String::new()];
            for (i, it) in items.iter().enumerate() {
                chunks.last_mut().unwrap().push_str(&item_text(it));
                chunks.last_mut().unwrap().push('\n');
                if i + 1 < k && (mask >> i) & 1 == 1 {
                    chunks.push(String::new());
                }
            }
            runs += 1;
            let schema = &schema;
            let requests = requests.clone();
            let r = guarded(move || {
                let mut errors = DiagnosticList::new(Default::default());
                let mut b = ExecutableDocument::builder(Some(schema), &mut errors);
                for (ci, c) in chunks.iter().enumerate() {
                    b = b.parse(c.clone(), format!("f{ci}.graphql"));
                }
                let doc = b.build();
                let mut errs: Vec<String> = errors.iter().map(|d| tag(&d.error.to_string()).to_string()).collect();
                errs.sort();
                let get: Vec<J> = requests.iter().map(|rq| {
                    let res = doc.operations.get(if rq == "<none>" { None } else { Some(rq.as_str()) });
                    json!([rq, match res { Ok(op) => op.name.as_ref().map(|n| n.to_string()).unwrap_or_default(), Err(_) => "<error>".to_string() }])
                }).collect();
                json!({"get": get, "named": doc.operations.named.keys().map(|k| k.as_str()).collect::<Vec<_>>(), "anon": doc.operations.anonymous.is_some(),
                       "frs": doc.fragments.keys().map(|k| k.as_str()).collect::<Vec<_>>(), "errs": errs})
            });
            let got = match r {
                Ok(g) => g,
                Err(p) => json!({"panic": p}),
            };
            if got != want {
                nbad += 1;
                out.line(&json!({"bad": true, "items": items, "split_mask": mask, "got": got, "want": want}));
            }
        }
    });
    out.line(&json!({"summary": true, "cases": n, "runs": runs, "bad": nbad, "nontrivial": runs}));
}
