//! Small shared helpers: deterministic PRNG, code point <-> text, NDJSON I/O.
use serde_json::Value;
use std::io::{BufRead, Write};

/// SplitMix64 — deterministic, seedable, no external crate.
#[derive(Clone)]
pub struct Rng(pub u64);
impl Rng {
    pub fn new(seed: u64) -> Self {
        Rng(seed.wrapping_mul(0x9E3779B97F4A7C15).wrapping_add(0x1234_5678_9abc_def1))
    }
    pub fn next(&mut self) -> u64 {
        self.0 = self.0.wrapping_add(0x9E3779B97F4A7C15);
        let mut z = self.0;
        z = (z ^ (z >> 30)).wrapping_mul(0xBF58476D1CE4E5B9);
        z = (z ^ (z >> 27)).wrapping_mul(0x94D049BB133111EB);
        z ^ (z >> 31)
    }
    pub fn below(&mut self, n: usize) -> usize {
        if n == 0 {
            0
        } else {
            (self.next() % n as u64) as usize
        }
    }
    pub fn range(&mut self, lo: usize, hi: usize) -> usize {
        lo + self.below(hi - lo + 1)
    }
    pub fn chance(&mut self, num: usize, den: usize) -> bool {
        self.below(den) < num
    }
    pub fn pick<'a, T>(&mut self, xs: &'a [T]) -> &'a T {
        &xs[self.below(xs.len())]
    }
}

pub fn text_of(cps: &[u32]) -> String {
    cps.iter().filter_map(|c| char::from_u32(*c)).collect()
}
pub fn cps_of(s: &str) -> Vec<u32> {
    s.chars().map(|c| c as u32).collect()
}
pub fn cps_from_json(v: &Value) -> Vec<u32> {
    v.as_array()
        .map(|a| a.iter().map(|x| x.as_u64().unwrap_or(0xFFFD) as u32).collect())
        .unwrap_or_default()
}
/// byte offset -> char offset table (len+1 entries, usize::MAX when not on a boundary)
pub fn char_index_table(s: &str) -> Vec<usize> {
    let mut t = vec![usize::MAX; s.len() + 1];
    let mut n = 0;
    for (b, _) in s.char_indices() {
        t[b] = n;
        n += 1;
    }
    t[s.len()] = n;
    t
}

pub fn read_lines(mut f: impl FnMut(Value)) {
    let stdin = std::io::stdin();
    for line in stdin.lock().lines() {
        let line = line.expect("read stdin");
        let line = line.trim();
        if line.is_empty() {
            continue;
        }
        let v: Value = serde_json::from_str(line).expect("bad json line");
        f(v);
    }
}

pub struct Out {
    w: std::io::BufWriter<std::io::Stdout>,
}
impl Out {
    pub fn new() -> Self {
        Out { w: std::io::BufWriter::with_capacity(1 << 20, std::io::stdout()) }
    }
    pub fn line(&mut self, v: &Value) {
        serde_json::to_writer(&mut self.w, v).unwrap();
        self.w.write_all(b"\n").unwrap();
    }
    pub fn flush(&mut self) {
        self.w.flush().unwrap();
    }
}
impl Drop for Out {
    fn drop(&mut self) {
        let _ = self.w.flush();
    }
}

pub fn arg_val(args: &[String], name: &str) -> Option<String> {
    args.iter().position(|a| a == name).and_then(|i| args.get(i + 1).cloned())
}
pub fn arg_num(args: &[String], name: &str, default: u64) -> u64 {
    arg_val(args, name).and_then(|s| s.parse().ok()).unwrap_or(default)
}

/// Run `f` catching panics; Err carries the panic message.
pub fn guarded<T>(f: impl FnOnce() -> T + std::panic::UnwindSafe) -> Result<T, String> {
    match std::panic::catch_unwind(f) {
        Ok(v) => Ok(v),
        Err(e) => Err(if let Some(s) = e.downcast_ref::<&str>() {
            s.to_string()
        } else if let Some(s) = e.downcast_ref::<String>() {
            s.clone()
        } else {
            "panic".to_string()
        }),
    }
}

pub fn silence_panics() {
    std::panic::set_hook(Box::new(|_| {}));
}
