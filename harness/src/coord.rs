//! C23: schema coordinates against Coordinate.tla.
use crate::util::*;
use apollo_compiler::coordinate::*;
use apollo_compiler::schema::ExtendedType;
use apollo_compiler::Schema;
use serde_json::{json, Value as J};
use std::str::FromStr;

const SDL: &str = "schema { query: Q } type Q { f(x: Int, y: Int): Int g: Int } interface I { f(x: Int): Int } input N { f: Int g: Int } \
enum E { f V } union U = Q scalar S directive @d(x: Int) on FIELD directive @e on FIELD";

fn project(c: &SchemaCoordinate) -> J {
    match c {
        SchemaCoordinate::Type(t) => json!(["type", cps_of(t.ty.as_str())]),
        SchemaCoordinate::TypeAttribute(t) => json!(["typeAttribute", cps_of(t.ty.as_str()), cps_of(t.attribute.as_str())]),
        SchemaCoordinate::FieldArgument(t) => {
            json!(["fieldArgument", cps_of(t.ty.as_str()), cps_of(t.field.as_str()), cps_of(t.argument.as_str())])
        }
        SchemaCoordinate::Directive(t) => json!(["directive", cps_of(t.directive.as_str())]),
        SchemaCoordinate::DirectiveArgument(t) => json!(["directiveArgument", cps_of(t.directive.as_str()), cps_of(t.argument.as_str())]),
    }
}

fn kind_of(t: &ExtendedType) -> &'static str {
    match t {
        ExtendedType::Scalar(_) => "scalar",
        ExtendedType::Object(_) => "object",
        ExtendedType::Interface(_) => "interface",
        ExtendedType::Union(_) => "union",
        ExtendedType::Enum(_) => "enum",
        ExtendedType::InputObject(_) => "input",
    }
}

pub fn replay(_args: &[String]) {
    silence_panics();
    let schema = Schema::parse_and_validate(format!("{SDL} type Query {{ q: Q i: I e: E u: U s: S a(n: N): Int }}"), "s.graphql").expect("schema");
    let mut out = Out::new();
    let (mut n, mut bad, mut nontrivial) = (0u64, 0u64, 0u64);
    read_lines(|v| {
        n += 1;
        let mut why: Vec<String> = vec![];
        if v[0] == "STR" {
            let s = text_of(&cps_from_json(&v[1]));
            let expect = &v[2];
            let valid = expect[0] != "invalid";
            if valid {
                nontrivial += 1;
            }
            let r = guarded(|| {
                let g = SchemaCoordinate::from_str(&s).ok();
                let specific = (
                    TypeCoordinate::from_str(&s).is_ok(),
                    TypeAttributeCoordinate::from_str(&s).is_ok(),
                    FieldArgumentCoordinate::from_str(&s).is_ok(),
                    DirectiveCoordinate::from_str(&s).is_ok(),
                    DirectiveArgumentCoordinate::from_str(&s).is_ok(),
                );
                let printed = g.as_ref().map(|c| c.to_string());
                let reparsed = printed.as_ref().map(|p| SchemaCoordinate::from_str(p).ok() == g);
                (g.as_ref().map(project), specific, printed, reparsed)
            });
            match r {
                Err(p) => why.push(format!("panic: {p}")),
                Ok((g, sp, printed, reparsed)) => {
                    match (&g, valid) {
                        (Some(p), true) => {
                            if p != expect {
                                why.push(format!("parsed as {p}, reference {expect}"));
                            }
                            if printed.as_deref() != Some(s.as_str()) {
                                why.push(format!("printing the parsed coordinate gives {printed:?}"));
                            }
                            if reparsed != Some(true) {
                                why.push("parsing the printed coordinate gives a different coordinate".into());
                            }
                        }
                        (None, false) => {}
                        (Some(p), false) => why.push(format!("accepted (as {p}) but not a schema coordinate")),
                        (None, true) => why.push("rejected but is a schema coordinate".into()),
                    }
                    let form = expect[0].as_str().unwrap_or("");
                    let want = (form == "type", form == "typeAttribute", form == "fieldArgument", form == "directive", form == "directiveArgument");
                    if sp != want {
                        why.push(format!("specific coordinate parsers accept {sp:?}, reference form {form}"));
                    }
                }
            }
            if !why.is_empty() {
                bad += 1;
                out.line(&json!({"bad": true, "kind": "str", "text": s, "cps": v[1], "why": why}));
            }
        } else {
            nontrivial += 1;
            let c = &v[1];
            let text = match c[0].as_str().unwrap() {
                "type" => c[1].as_str().unwrap().to_string(),
                "typeAttribute" => format!("{}.{}", c[1].as_str().unwrap(), c[2].as_str().unwrap()),
                "fieldArgument" => format!("{}.{}({}:)", c[1].as_str().unwrap(), c[2].as_str().unwrap(), c[3].as_str().unwrap()),
                "directive" => format!("@{}", c[1].as_str().unwrap()),
                _ => format!("@{}({}:)", c[1].as_str().unwrap(), c[2].as_str().unwrap()),
            };
            let expect = &v[2];
            let r = guarded(|| {
                let coord = SchemaCoordinate::from_str(&text).map_err(|e| e.to_string())?;
                Ok::<J, String>(match coord.lookup(&schema) {
                    Err(_) => json!(["error"]),
                    Ok(SchemaCoordinateLookup::Type(t)) => json!(["ok", "type", kind_of(t), t.name().as_str()]),
                    Ok(SchemaCoordinateLookup::Directive(d)) => json!(["ok", "directive", d.name.as_str()]),
                    Ok(SchemaCoordinateLookup::Field(f)) => json!(["ok", "field", c[1], f.name.as_str()]),
                    Ok(SchemaCoordinateLookup::InputField(f)) => json!(["ok", "inputField", c[1], f.name.as_str()]),
                    Ok(SchemaCoordinateLookup::EnumValue(f)) => json!(["ok", "enumValue", c[1], f.value.as_str()]),
                    Ok(SchemaCoordinateLookup::Argument(a)) => {
                        if c[0] == "fieldArgument" {
                            json!(["ok", "argument", c[1], c[2], a.name.as_str()])
                        } else {
                            json!(["ok", "argument", c[1], a.name.as_str()])
                        }
                    }
                    Ok(_) => json!(["ok", "other"]),
                })
            });
            match r {
                Err(p) => why.push(format!("panic: {p}")),
                Ok(Err(e)) => why.push(format!("coordinate {text} does not parse: {e}")),
                Ok(Ok(got)) => {
                    if &got != expect {
                        why.push(format!("lookup gives {got}, reference {expect}"));
                    }
                }
            }
            if !why.is_empty() {
                bad += 1;
                out.line(&json!({"bad": true, "kind": "lookup", "text": text, "cps": cps_of(&text), "why": why}));
            }
        }
    });
    out.line(&json!({"summary": true, "cases": n, "bad": bad, "nontrivial": nontrivial}));
}

/// impl -> spec: longer random strings with the real parse result, for Trace_Coordinate
pub fn record(args: &[String]) {
    silence_panics();
    let seed = arg_num(args, "--seed", 1);
    let count = arg_num(args, "--count", 1000) as usize;
    let mut rng = Rng::new(seed ^ 0xC23);
    let mut out = Out::new();
    let parts = ["Type", "field", "arg", "_x1", "a", "B", "9", ".", "@", "(", ")", ":", " ", "é", "__t", "-", ":)", "(a:)", ".f", "@d"];
    for _ in 0..count {
        let mut s = String::new();
        let shape = rng.below(7);
        match shape {
            0 => s = format!("{}", rng.pick(&parts)),
            1 => s = format!("{}.{}", rng.pick(&parts), rng.pick(&parts)),
            2 => s = format!("{}.{}({}:)", rng.pick(&parts), rng.pick(&parts), rng.pick(&parts)),
            3 => s = format!("@{}", rng.pick(&parts)),
            4 => s = format!("@{}({}:)", rng.pick(&parts), rng.pick(&parts)),
            _ => {
                for _ in 0..rng.range(0, 8) {
                    s.push_str(*rng.pick(&parts));
                }
            }
        }
        let r = guarded(|| {
            let g = SchemaCoordinate::from_str(&s).ok();
            let printed = g.as_ref().map(|c| c.to_string());
            (g.as_ref().map(project), printed)
        });
        match r {
            Ok((g, printed)) => out.line(&json!({"str": cps_of(&s), "parsed": g.unwrap_or(json!(["invalid"])),
                "printed": printed.map(|p| cps_of(&p)).unwrap_or_default(), "crash": false})),
            Err(_) => out.line(&json!({"str": cps_of(&s), "parsed": ["invalid"], "printed": [], "crash": true})),
        }
    }
}
