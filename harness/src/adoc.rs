//! Abstract executable documents (the data model of ExecRules.tla): project, render, mutate, record verdicts.
use crate::aschema::{project as project_schema, type_abs, type_text};
use crate::util::*;
use apollo_compiler::ast;
use apollo_compiler::executable as ex;
use apollo_compiler::validation::Valid;
use apollo_compiler::{ExecutableDocument, Schema};
use serde_json::{json, Value as J};

pub const SCHEMA_SDL: &str = "schema { query: Q mutation: M subscription: S }
directive @dq(x: Int) repeatable on QUERY | FIELD | FRAGMENT_SPREAD | INLINE_FRAGMENT | FRAGMENT_DEFINITION | VARIABLE_DEFINITION | MUTATION | SUBSCRIPTION
directive @once on FIELD
directive @defer(label: String, if: Boolean! = true) on FRAGMENT_SPREAD | INLINE_FRAGMENT
type Q { a: Int b(x: Int!, y: In, e: E = A, l: [Int]): Int o: O i: I u: U s: String }
type M { m(x: Int): Int }
type S { t: Int o: O }
type O implements I { a: Int c: String o: O n(x: Int): Int! l1: [String]! l2: [[Int]!] l3: [O!]! }
type P implements I { a: Int c: Int p: Int l1: [String] l2: [[Int]] l3: [O!] }
interface I { a: Int }
union U = O | P
enum E { A B }
input In { r: Int! d: Int = 1 n: In l: [Int!] }";

pub const SEED_DOCS: &[&str] = &[
    "query Q1($v: Int!, $w: In = {r: 1}, $e: E) @dq(x: 1) { a b(x: $v, y: $w, e: $e, l: [1, 2]) o { a c ...F } i { a ... on O { c } ... on P { p } } u { __typename ... on O { n(x: 1) } } x: a @skip(if: true) ...G }
fragment F on O { o { a } n(x: 2) @once }
fragment G on Q { s b2: b(x: 1) @dq }
mutation M1($x: Int = 2) { m(x: $x) }
subscription S1 { t }",
    "{ a o { o { a } } ... on Q { s } ... @include(if: true) { a } }",
    "query { u { ... on O { a c } ... on P { a k: c } } i { a a } o { n(x: 1) n(x: 1) } b(x: 1, y: {r: 1, n: {r: 2, l: [1]}}) k2: b(x: 1, l: [1, 2]) k2: b(x: 1, l: [1, 2]) }",
    "query V($l: [Int!], $n: Int = null, $b: Boolean!) { b(x: 1, l: $l, y: {r: 1, d: $n}) a @include(if: $b) ...H }
fragment H on Q { q2: b(x: 3, l: $l) }",
    "query D($b: Boolean!) { a ... @defer(label: \"L1\") { s } ...K @defer(label: \"L2\", if: $b) o { ... @defer { a } } }
fragment K on Q { s o { ... @defer(label: \"L3\") { c } } }
mutation DM { m(x: 1) }
subscription DS($b: Boolean!) { o { a ... @defer(if: $b) { c } ... @defer(if: false, label: \"L4\") { n(x: 1) } ... @skip(if: $b) { ... @defer { c } } } }",
    "query VA($v: Int) { ...V b(x: 1, e: A) } query VB($v: Int = 2) { ...V ...W }
fragment V on Q { k1: b(x: 1, y: {r: 1, d: $v, n: {r: 2, d: $v}}) o { n(x: $v) } ...W }
fragment W on Q { k2: b(x: 2, l: [$v, 1]) s @include(if: true) @dq(x: $v) }",
    "{ o { ...F2 o { ...F2 l3 { ...F2 } } } i { ... on O { ...F2 } } ...Q2 } fragment F2 on O { a c } fragment Q2 on Q { o { ...F2 } s }",
    // a chain of fragments: one added spread closes a cycle through the entry fragment, or a lasso behind it
    "{ o { ...A1 } } fragment A1 on O { a ...B1 } fragment B1 on O { c ...C1 } fragment C1 on O { a o { c } }",
];

fn value_abs(v: &ast::Value) -> J {
    match v {
        ast::Value::Null => json!(["null"]),
        ast::Value::Enum(n) => json!(["enum", n.as_str()]),
        ast::Value::Variable(n) => json!(["var", n.as_str()]),
        ast::Value::String(s) => json!(["str", s.as_str()]),
        ast::Value::Float(_) => json!(["float"]),
        ast::Value::Int(i) => json!(["int", i.try_to_i32().unwrap_or(0)]),
        ast::Value::Boolean(b) => json!(["bool", b]),
        ast::Value::List(items) => json!(["list", items.iter().map(|i| value_abs(i)).collect::<Vec<_>>()]),
        ast::Value::Object(fs) => json!(["obj", fs.iter().map(|(k, v)| json!({"name": k.as_str(), "value": value_abs(v)})).collect::<Vec<_>>()]),
    }
}
fn args_abs(args: &[apollo_compiler::Node<ast::Argument>]) -> J {
    J::Array(args.iter().map(|a| json!({"name": a.name.as_str(), "value": value_abs(&a.value)})).collect())
}
fn dirs_abs(d: &ast::DirectiveList) -> J {
    J::Array(d.iter().map(|x| json!({"name": x.name.as_str(), "args": args_abs(&x.arguments)})).collect())
}
fn sels_abs(sels: &[ast::Selection]) -> J {
    J::Array(sels.iter().map(|s| match s {
        ast::Selection::Field(f) => json!({"k": "field", "alias": f.alias.as_ref().map(|a| a.as_str()).unwrap_or(""), "name": f.name.as_str(), "on": "",
            "args": args_abs(&f.arguments), "dirs": dirs_abs(&f.directives), "sels": sels_abs(&f.selection_set)}),
        ast::Selection::FragmentSpread(f) => json!({"k": "spread", "alias": "", "name": f.fragment_name.as_str(), "on": "", "args": [], "dirs": dirs_abs(&f.directives), "sels": []}),
        ast::Selection::InlineFragment(f) => json!({"k": "inline", "alias": "", "name": "", "on": f.type_condition.as_ref().map(|t| t.as_str()).unwrap_or(""),
            "args": [], "dirs": dirs_abs(&f.directives), "sels": sels_abs(&f.selection_set)}),
    }).collect())
}

pub fn project_doc(doc: &ast::Document) -> J {
    let mut ops = vec![];
    let mut frags = vec![];
    for d in &doc.definitions {
        match d {
            ast::Definition::OperationDefinition(o) => ops.push(json!({
                "kind": o.operation_type.name(), "name": o.name.as_ref().map(|n| n.as_str()).unwrap_or(""),
                "vars": o.variables.iter().map(|v| json!({"name": v.name.as_str(), "type": type_abs(&v.ty),
                    "default": v.default_value.as_ref().map(|d| value_abs(d)).unwrap_or(json!(["none"])), "dirs": dirs_abs(&v.directives)})).collect::<Vec<_>>(),
                "dirs": dirs_abs(&o.directives), "sels": sels_abs(&o.selection_set)})),
            ast::Definition::FragmentDefinition(f) => frags.push(json!({"name": f.name.as_str(), "on": f.type_condition.as_str(), "dirs": dirs_abs(&f.directives), "sels": sels_abs(&f.selection_set)})),
            _ => {}
        }
    }
    json!({"operations": ops, "fragments": frags})
}

fn value_text(v: &J) -> String {
    match v[0].as_str().unwrap_or("null") {
        "int" => v[1].as_i64().unwrap_or(1).to_string(),
        "float" => "1.5".into(),
        "str" => format!("{:?}", v[1].as_str().unwrap_or("s")),
        "bool" => v[1].as_bool().unwrap_or(true).to_string(),
        "enum" => v[1].as_str().unwrap_or("A").to_string(),
        "var" => format!("${}", v[1].as_str().unwrap_or("v")),
        "list" => format!("[{}]", v[1].as_array().unwrap_or(&vec![]).iter().map(value_text).collect::<Vec<_>>().join(", ")),
        "obj" => format!("{{{}}}", v[1].as_array().unwrap_or(&vec![]).iter().map(|f| format!("{}: {}", f["name"].as_str().unwrap_or("k"), value_text(&f["value"]))).collect::<Vec<_>>().join(", ")),
        _ => "null".into(),
    }
}
fn args_text(args: &J) -> String {
    let a = args.as_array().cloned().unwrap_or_default();
    if a.is_empty() { String::new() } else { format!("({})", a.iter().map(|x| format!("{}: {}", x["name"].as_str().unwrap_or("a"), value_text(&x["value"]))).collect::<Vec<_>>().join(", ")) }
}
fn dirs_text(dirs: &J) -> String {
    dirs.as_array().unwrap_or(&vec![]).iter().map(|d| format!(" @{}{}", d["name"].as_str().unwrap_or("d"), args_text(&d["args"]))).collect()
}
fn sels_text(sels: &J) -> String {
    let mut out = String::new();
    for s in sels.as_array().unwrap_or(&vec![]) {
        match s["k"].as_str().unwrap_or("field") {
            "field" => {
                let alias = s["alias"].as_str().unwrap_or("");
                if !alias.is_empty() { out.push_str(&format!(" {alias}:")); }
                out.push_str(&format!(" {}{}{}", s["name"].as_str().unwrap_or("f"), args_text(&s["args"]), dirs_text(&s["dirs"])));
                if !s["sels"].as_array().map(|a| a.is_empty()).unwrap_or(true) { out.push_str(&format!(" {{{} }}", sels_text(&s["sels"]))); }
            }
            "spread" => out.push_str(&format!(" ...{}{}", s["name"].as_str().unwrap_or("F"), dirs_text(&s["dirs"]))),
            _ => {
                let on = s["on"].as_str().unwrap_or("");
                out.push_str(&format!(" ...{}{} {{{} }}", if on.is_empty() { String::new() } else { format!(" on {on}") }, dirs_text(&s["dirs"]), sels_text(&s["sels"])));
            }
        }
    }
    out
}

pub fn render_doc(d: &J) -> String {
    let mut out = String::new();
    for o in d["operations"].as_array().unwrap_or(&vec![]) {
        let vars = o["vars"].as_array().cloned().unwrap_or_default();
        let vtext = if vars.is_empty() { String::new() } else { format!("({})", vars.iter().map(|v| format!("${}: {}{}{}", v["name"].as_str().unwrap_or("v"), type_text(&v["type"]),
            if v["default"][0] == "none" { String::new() } else { format!(" = {}", value_text(&v["default"])) }, dirs_text(&v["dirs"]))).collect::<Vec<_>>().join(", ")) };
        out.push_str(&format!("{} {}{}{} {{{} }}\n", o["kind"].as_str().unwrap_or("query"), o["name"].as_str().unwrap_or(""), vtext, dirs_text(&o["dirs"]), sels_text(&o["sels"])));
    }
    for f in d["fragments"].as_array().unwrap_or(&vec![]) {
        out.push_str(&format!("fragment {} on {}{} {{{} }}\n", f["name"].as_str().unwrap_or("F"), f["on"].as_str().unwrap_or("Q"), dirs_text(&f["dirs"]), sels_text(&f["sels"])));
    }
    out
}

// ------------------------------------------------------------------ mutation

fn get<'a>(root: &'a J, p: &[String]) -> &'a J {
    let mut c = root;
    for k in p {
        c = match c { J::Array(a) => &a[k.parse::<usize>().unwrap()], J::Object(m) => &m[k], _ => c };
    }
    c
}
fn set(root: &J, p: &[String], v: J) -> J {
    fn rec(c: &mut J, p: &[String], v: J) {
        if p.is_empty() { *c = v; return; }
        match c {
            J::Array(a) => rec(&mut a[p[0].parse::<usize>().unwrap()], &p[1..], v),
            J::Object(m) => rec(m.get_mut(&p[0]).unwrap(), &p[1..], v),
            _ => {}
        }
    }
    let mut r = root.clone();
    rec(&mut r, p, v);
    r
}
fn paths(cur: &J, path: &mut Vec<String>, out: &mut Vec<Vec<String>>) {
    out.push(path.clone());
    match cur {
        J::Array(a) => for (i, x) in a.iter().enumerate() { path.push(i.to_string()); paths(x, path, out); path.pop(); },
        J::Object(m) => for (k, x) in m { path.push(k.clone()); paths(x, path, out); path.pop(); },
        _ => {}
    }
}

pub fn doc_mutants(d: &J) -> Vec<(String, J)> {
    let mut out = vec![];
    let mut ps = vec![];
    paths(d, &mut vec![], &mut ps);
    let field_names = ["a", "b", "o", "i", "u", "s", "c", "n", "p", "m", "t", "__typename", "nope"];
    let type_names = ["Q", "O", "P", "I", "U", "E", "In", "Int", "Nope", "M"];
    for p in &ps {
        let cur = get(d, p).clone();
        let last = p.last().cloned().unwrap_or_default();
        let pstr = p.join("/");
        let parent_is_value = p.len() >= 1 && { let parent = get(d, &p[..p.len() - 1]); parent.is_object() && last == "value" } || last == "default";
        let is_value_node = cur.is_array() && cur.as_array().map(|a| !a.is_empty() && matches!(a[0].as_str(), Some("int" | "float" | "str" | "bool" | "null" | "enum" | "var" | "list" | "obj" | "none"))).unwrap_or(false)
            && (parent_is_value || (p.len() >= 2 && p[p.len() - 2] == "1" ));
        let is_type = last == "type" || (cur.is_array() && matches!(cur[0].as_str(), Some("named" | "nonnull")) || (cur.is_array() && cur[0] == "list" && cur.as_array().map(|a| a.len() == 2 && a[1].is_array() && matches!(a[1][0].as_str(), Some("named" | "list" | "nonnull"))).unwrap_or(false) && p.iter().any(|x| x == "type")));
        if is_type && p.iter().any(|x| x == "type") {
            if cur[0] == "nonnull" { out.push((format!("{pstr}:drop-nonnull"), set(d, p, cur[1].clone()))); }
            else {
                let parent_nn = p.len() >= 1 && get(d, &p[..p.len() - 1]).as_array().map(|a| a.len() == 2 && a[0] == "nonnull").unwrap_or(false);
                if !parent_nn { out.push((format!("{pstr}:add-nonnull"), set(d, p, json!(["nonnull", cur.clone()])))); }
                out.push((format!("{pstr}:wrap-list"), set(d, p, json!(["list", cur.clone()]))));
            }
            if cur[0] == "list" { out.push((format!("{pstr}:unwrap-list"), set(d, p, cur[1].clone()))); }
            if cur[0] == "named" {
                for n in type_names { if Some(n) != cur[1].as_str() { out.push((format!("{pstr}:named={n}"), set(d, p, json!(["named", n])))); } }
            }
            continue;
        }
        if is_value_node {
            for k in [json!(["int", 1]), json!(["int", 7]), json!(["str", "s"]), json!(["str", "L1"]), json!(["null"]), json!(["bool", true]), json!(["bool", false]), json!(["enum", "A"]), json!(["enum", "Z"]), json!(["var", "v"]), json!(["var", "undefinedVar"]),
                      json!(["list", [["int", 1]]]), json!(["list", [["int", 1], ["null"]]]), json!(["list", [["int", 1], ["int", 2]]]), json!(["obj", [{"name": "r", "value": ["int", 1]}]]), json!(["obj", [{"name": "r", "value": ["int", 1]}, {"name": "r", "value": ["int", 1]}]]),
                      json!(["obj", [{"name": "zz", "value": ["int", 1]}]]), json!(["obj", []])] {
                if cur != k { out.push((format!("{pstr}:value={}", k), set(d, p, k))); }
            }
            if last == "default" {
                out.push((format!("{pstr}:no-default"), set(d, p, json!(["none"]))));
            }
            continue;
        }
        match &cur {
            J::Array(a) => {
                for i in 0..a.len() {
                    let mut b = a.clone();
                    b.remove(i);
                    out.push((format!("{pstr}:remove[{i}]"), set(d, p, J::Array(b))));
                    let mut c = a.clone();
                    c.push(a[i].clone());
                    out.push((format!("{pstr}:duplicate[{i}]"), set(d, p, J::Array(c))));
                    if i + 1 < a.len() {
                        let mut e = a.clone();
                        e.swap(i, i + 1);
                        out.push((format!("{pstr}:swap[{i}]"), set(d, p, J::Array(e))));
                    }
                }
                if last == "dirs" {
                    for (dn2, dargs) in [("defer", json!([])), ("defer", json!([{"name": "label", "value": ["str", "L1"]}])), ("defer", json!([{"name": "if", "value": ["bool", false]}])),
                                         ("defer", json!([{"name": "if", "value": ["var", "b"]}])), ("defer", json!([{"name": "label", "value": ["var", "v"]}])), ("skip", json!([{"name": "if", "value": ["bool", false]}]))] {
                        let mut c = a.clone();
                        c.push(json!({"name": dn2, "args": dargs}));
                        out.push((format!("{pstr}:apply=@{dn2}{}", dargs), set(d, p, J::Array(c))));
                    }
                    for dn in ["dq", "once", "skip", "include", "deprecated", "undefinedDirective"] {
                        let mut c = a.clone();
                        let args = if matches!(dn, "skip" | "include") { json!([{"name": "if", "value": ["bool", true]}]) } else { json!([]) };
                        c.push(json!({"name": dn, "args": args}));
                        out.push((format!("{pstr}:apply=@{dn}"), set(d, p, J::Array(c))));
                    }
                }
                if last == "sels" && { let par = get(d, &p[..p.len() - 1]); par.get("k").is_none() || par["k"] != "spread" } {
                    for (nm, sub) in [("a", false), ("o", true), ("s", false), ("__typename", false), ("nope", false)] {
                        let mut c = a.clone();
                        c.push(json!({"k": "field", "alias": "", "name": nm, "on": "", "args": [], "dirs": [], "sels": if sub { json!([{"k": "field", "alias": "", "name": "a", "on": "", "args": [], "dirs": [], "sels": []}]) } else { json!([]) }}));
                        out.push((format!("{pstr}:select={nm}"), set(d, p, J::Array(c))));
                    }
                    // the same field once more under another response key (merging is trivially fine; a subscription gains a second root field)
                    if let Some(f0) = a.iter().find(|x| x["k"] == "field") {
                        let mut c = a.clone();
                        let mut dup = f0.clone();
                        dup["alias"] = json!("dup9");
                        c.push(dup);
                        out.push((format!("{pstr}:select-again-aliased"), set(d, p, J::Array(c))));
                    }
                    // the document's own fragments (cycles, lassos behind a lead-in fragment, type mismatches) and an undefined one
                    let mut names: Vec<String> = d["fragments"].as_array().unwrap_or(&vec![]).iter().filter_map(|f| f["name"].as_str().map(|x| x.to_string())).collect();
                    names.push("Undefined".to_string());
                    for fr in names.iter().map(|x| x.as_str()) {
                        let mut c = a.clone();
                        c.push(json!({"k": "spread", "alias": "", "name": fr, "on": "", "args": [], "dirs": [], "sels": []}));
                        out.push((format!("{pstr}:spread={fr}"), set(d, p, J::Array(c))));
                    }
                }
                if last == "args" && { let par = get(d, &p[..p.len() - 1]); par.get("k").is_none() || par["k"] == "field" } {
                    for an in ["x", "y", "zz"] {
                        let mut c = a.clone();
                        c.push(json!({"name": an, "value": ["int", 1]}));
                        out.push((format!("{pstr}:arg={an}"), set(d, p, J::Array(c))));
                    }
                }
                if last == "vars" {
                    let mut c = a.clone();
                    c.push(json!({"name": "extra", "type": ["named", "Int"], "default": ["none"], "dirs": []}));
                    out.push((format!("{pstr}:add-var"), set(d, p, J::Array(c))));
                }
            }
            J::String(st) => {
                match last.as_str() {
                    "name" => {
                        let parent = get(d, &p[..p.len() - 1]);
                        let own: Vec<String> = d["fragments"].as_array().unwrap_or(&vec![]).iter().filter_map(|f| f["name"].as_str().map(|x| x.to_string())).collect();
                        let mut spread_pool: Vec<&str> = vec!["F", "G", "H", "Undefined"];
                        for n in &own { if !spread_pool.contains(&n.as_str()) { spread_pool.push(n.as_str()); } }
                        let pool: Vec<&str> = if parent.get("k").is_some() && parent["k"] == "field" { field_names.to_vec() }
                            else if parent.get("k").is_some() && parent["k"] == "inline" { vec![] }
                            else if parent.get("k").is_some() { spread_pool }
                            else if parent.get("on").is_some() { vec!["F", "G", "H", "X"] }
                            else if parent.get("vars").is_some() { vec!["", "Q1", "M1", "Other"] }
                            else if parent.get("type").is_some() { vec!["v", "w", "x", "e", "zz"] }
                            else { vec!["x", "y", "e", "l", "r", "d", "if", "zz", "dq", "once", "skip"] };
                        for n in pool { if n != st { out.push((format!("{pstr}:rename={n}"), set(d, p, json!(n)))); } }
                    }
                    "alias" if get(d, &p[..p.len() - 1])["k"] == "field" => for n in ["", "a", "b", "x"] { if n != st { out.push((format!("{pstr}:alias={n}"), set(d, p, json!(n)))); } },
                    "on" if { let par = get(d, &p[..p.len() - 1]); par.get("k").is_none() || par["k"] == "inline" } => for n in ["", "Q", "O", "P", "I", "U", "E", "Nope"] { if n != st { out.push((format!("{pstr}:on={n}"), set(d, p, json!(n)))); } },
                    "kind" => for n in ["query", "mutation", "subscription"] { if n != st { out.push((format!("{pstr}:kind={n}"), set(d, p, json!(n)))); } },
                    _ => {}
                }
            }
            _ => {}
        }
    }
    out
}

fn well_formed_text(d: &J) -> bool {
    // the renderer cannot express: empty selection sets at top level, `on ""` for fragment definitions, empty names
    for o in d["operations"].as_array().unwrap_or(&vec![]) {
        if o["sels"].as_array().map(|a| a.is_empty()).unwrap_or(true) { return false; }
    }
    for f in d["fragments"].as_array().unwrap_or(&vec![]) {
        if f["on"].as_str().unwrap_or("").is_empty() || f["name"].as_str().unwrap_or("").is_empty() || f["name"] == "on" || f["sels"].as_array().map(|a| a.is_empty()).unwrap_or(true) { return false; }
    }
    fn sels_ok(s: &J) -> bool {
        s.as_array().unwrap_or(&vec![]).iter().all(|x| match x["k"].as_str().unwrap_or("") {
            "inline" => !x["sels"].as_array().map(|a| a.is_empty()).unwrap_or(true) && sels_ok(&x["sels"]),
            "spread" => !x["name"].as_str().unwrap_or("").is_empty() && x["name"] != "on",
            _ => !x["name"].as_str().unwrap_or("").is_empty() && sels_ok(&x["sels"]),
        })
    }
    d["operations"].as_array().unwrap_or(&vec![]).iter().all(|o| sels_ok(&o["sels"])) && d["fragments"].as_array().unwrap_or(&vec![]).iter().all(|f| sels_ok(&f["sels"]))
        && !d["operations"].as_array().map(|a| a.is_empty()).unwrap_or(true)
}

fn built(schema: &Valid<Schema>, text: &str) -> ExecutableDocument {
    match ExecutableDocument::parse(schema, text.to_string(), "t.graphql") {
        Ok(d) => d,
        Err(e) => e.partial,
    }
}

/// ["field", parent, name, definitionType, subSelectionType] | ["inline", parent, condition, innerType]
/// | ["frag", name, "", innerType] | ["op", kind, "", rootType]
fn typing_facts(doc: &ExecutableDocument) -> Vec<J> {
    let mut facts = vec![];
    fn walk(set: &ex::SelectionSet, facts: &mut Vec<J>) {
        for s in &set.selections {
            match s {
                ex::Selection::Field(f) => {
                    facts.push(json!(["field", set.ty.as_str(), f.name.as_str(), type_abs(&f.definition.ty), f.selection_set.ty.as_str()]));
                    walk(&f.selection_set, facts);
                }
                ex::Selection::InlineFragment(i) => {
                    facts.push(json!(["inline", set.ty.as_str(), i.type_condition.as_ref().map(|t| t.as_str()).unwrap_or(""), i.selection_set.ty.as_str()]));
                    walk(&i.selection_set, facts)
                }
                ex::Selection::FragmentSpread(_) => {}
            }
        }
    }
    for op in doc.operations.iter() {
        facts.push(json!(["op", op.operation_type.name(), "", op.selection_set.ty.as_str()]));
        walk(&op.selection_set, &mut facts);
    }
    for f in doc.fragments.values() {
        facts.push(json!(["frag", f.name.as_str(), "", f.selection_set.ty.as_str()]));
        walk(&f.selection_set, &mut facts);
    }
    facts
}

/// per operation (document order: anonymous first as in `operations.iter()`), the fields the iterators visit
fn iterator_facts(doc: &ExecutableDocument) -> Vec<J> {
    let key = |f: &apollo_compiler::Node<ex::Field>| json!([f.alias.as_ref().map(|a| a.as_str()).unwrap_or(""), f.name.as_str()]);
    doc.operations.iter().map(|op| json!({
        "name": op.name.as_ref().map(|n| n.as_str()).unwrap_or(""),
        "root": op.root_fields(doc).map(key).collect::<Vec<_>>(),
        "all": op.all_fields(doc).map(key).collect::<Vec<_>>(),
    })).collect()
}

/// selections on the interface-typed field `i` whose combinations exercise both passes of field merging
/// (same response shape for any two parents; same name and arguments unless both parents are different objects)
pub const MERGE_POOL: &[&str] = &[
    "a", "x: a", "... on O { c }", "... on P { c }", "... on O { x: c }", "... on P { x: p }", "... on O { n(x: 1) }", "... on O { n(x: 2) }",
    "... on O { o { a } }", "... on O { o { x: c } }", "... on O { o { x: a } }", "... on P { k: a }", "... on O { k: c }", "... on O { k: n(x: 1) }",
    // list types that differ only in the nullability of a list level, on disjoint objects
    "... on O { l1 }", "... on P { l1 }", "... on O { l2 }", "... on P { l2 }", "... on O { l3 { a } }", "... on P { l3 { a } }",
];

/// `doc-cases --seed S --depth2 N --schemas-out FILE`: Trace_ExecRules lines
pub fn cases(args: &[String]) {
    silence_panics();
    let seed = arg_num(args, "--seed", 1);
    let depth2 = arg_num(args, "--depth2", 200) as usize;
    let every = arg_num(args, "--every", 1) as usize;
    let mut rng = Rng::new(seed ^ 0xC17);
    let schema = Schema::parse_and_validate(SCHEMA_SDL, "schema.graphql").expect("schema");
    if let Some(path) = arg_val(args, "--schemas-out") {
        let mut abs = project_schema(&schema);
        abs["schemaDef"]["explicit"] = json!(true);
        std::fs::write(path, format!("{}\n", abs)).unwrap();
    }
    let mut out = Out::new();
    let mut n = 0usize;
    let mut seen_kinds: std::collections::HashSet<String> = std::collections::HashSet::new();
    let mut emit = |out: &mut Out, d: &J, origin: String, force: bool| {
        if !well_formed_text(d) {
            return;
        }
        n += 1;
        // sampling keeps every `every`-th mutant, and in any case the first mutant of each
        // (seed, top-level definition, mutation kind): a rule that has ONE place to bite (the root selection set of
        // the only subscription) must not fall between the strides
        let first_of_its_kind = {
            let parts: Vec<&str> = origin.splitn(3, ':').collect();
            if parts.len() == 3 {
                let def: String = parts[1].split('/').take(2).collect::<Vec<_>>().join("/");
                let kind = parts[2].split(|c| c == '=' || c == '[').next().unwrap_or("");
                seen_kinds.insert(format!("{}|{}|{}", parts[0], def, kind))
            } else {
                false
            }
        };
        if !force && !first_of_its_kind && n % every != 0 {
            return;
        }
        let text = render_doc(d);
        let r = guarded(|| {
            // the abstract document must be what the text says (self-check of render / project)
            let ast = ast::Document::parse(text.clone(), "d.graphql").map_err(|e| format!("syntax: {}", e.errors.to_string().lines().next().unwrap_or("")))?;
            if &project_doc(&ast) != d {
                return Err("render/project mismatch".to_string());
            }
            let ok = ExecutableDocument::parse_and_validate(&schema, text.clone(), "d.graphql").is_ok();
            let standalone = ast.validate_standalone_executable().is_ok();
            let b = built(&schema, &text);
            Ok((ok, standalone, typing_facts(&b), if ok { iterator_facts(&b) } else { vec![] }))
        });
        match r {
            Ok(Ok((ok, standalone, typing, iter))) => out.line(&json!({"origin": origin, "schema": 1, "doc": d, "ok": ok, "standalone": standalone, "typing": typing, "iter": iter, "text": text})),
            Ok(Err(e)) => out.line(&json!({"origin": origin, "skipped": e, "text": text})),
            Err(p) => out.line(&json!({"origin": origin, "crash": p, "text": text})),
        }
    };
    // field merging: every sequence of up to three selections of the pool (every `merge_every`-th triple)
    let merge_every = arg_num(args, "--merge-every", 1) as usize;
    let np = MERGE_POOL.len();
    let mut count = 0usize;
    for len in 1..=3usize {
        let total = np.pow(len as u32);
        for code in 0..total {
            count += 1;
            if len == 3 && count % merge_every != 0 {
                continue;
            }
            let mut c = code;
            let mut parts = vec![];
            for _ in 0..len {
                parts.push(MERGE_POOL[c % np]);
                c /= np;
            }
            let text = format!("query {{ i {{ {} }} }}", parts.join(" "));
            let ast = ast::Document::parse(text, "merge.graphql").expect("merge doc syntax");
            emit(&mut out, &project_doc(&ast), format!("merge-{len}-{code}"), true);
        }
    }
    for (k, src) in SEED_DOCS.iter().enumerate() {
        let ast = ast::Document::parse(src.to_string(), "seed.graphql").expect("seed doc syntax");
        let abs = project_doc(&ast);
        emit(&mut out, &abs, format!("doc-seed-{k}"), true);
        let ms = doc_mutants(&abs);
        for (what, m) in &ms {
            emit(&mut out, m, format!("doc-seed-{k}:{what}"), false);
        }
        // double mutations: the mutants of one first-level mutant are enumerated once and sampled several times
        let per = 6;
        for _ in 0..(depth2 + per - 1) / per {
            let (w1, m1) = &ms[rng.below(ms.len())];
            let ms2 = doc_mutants(m1);
            if ms2.is_empty() { continue; }
            for _ in 0..per {
                let (w2, m2) = &ms2[rng.below(ms2.len())];
                emit(&mut out, m2, format!("doc-seed-{k}:{w1}+{w2}"), true);
            }
        }
    }
}
