//! C08 / C19: serialize, reparse, compare, reserialize under every configuration; record the output's
//! token / ignored-text items for Printer.tla.
use crate::adoc;
use crate::strs::configs;
use crate::util::*;
use apollo_compiler::ast;
use apollo_compiler::executable::FieldSet;
use apollo_compiler::parser::Parser;
use apollo_compiler::{ExecutableDocument, Schema};
use apollo_parser::{Lexer, TokenKind};
use serde_json::{json, Value as J};

type Cfg = (Option<&'static str>, usize);

fn cfg_json(c: Cfg) -> J {
    json!({"indent": c.0.is_some(), "prefix": c.0.unwrap_or(""), "level": c.1})
}

macro_rules! ser {
    ($node: expr, $cfg: expr) => {{
        let s = $node.serialize();
        let s = match $cfg.0 {
            None => s.no_indent(),
            Some(p) => s.indent_prefix(p),
        };
        s.initial_indent_level($cfg.1).to_string()
    }};
}

/// the output as items [k, nl, ind, commas]; None if the lexer reports an error
pub fn items_of(text: &str) -> Option<Vec<J>> {
    let mut items = vec![];
    let mut gap = String::new();
    for t in Lexer::new(text) {
        let t = t.ok()?;
        match t.kind() {
            TokenKind::Whitespace | TokenKind::Comma | TokenKind::Comment => gap.push_str(t.data()),
            TokenKind::Eof => {}
            k => {
                let class = match k {
                    TokenKind::Name => "name".to_string(),
                    TokenKind::Int => "int".to_string(),
                    TokenKind::Float => "float".to_string(),
                    TokenKind::StringValue => if t.data().starts_with("\"\"\"") { "bstr".to_string() } else { "str".to_string() },
                    _ => t.data().to_string(),
                };
                let nl = gap.matches('\n').count();
                let commas = gap.matches(',').count();
                let after = match gap.rfind('\n') {
                    Some(i) => gap[i + 1..].to_string(),
                    None => gap.replace(',', ""),
                };
                items.push(json!({"k": class, "nl": nl, "ind": after, "commas": commas}));
                gap.clear();
            }
        }
    }
    Some(items)
}

const NAMES: &[(&str, &str)] = &[("n1", "a"), ("n2", "b"), ("n3", "c")];
const INTS: &[&str] = &["0", "-1", "123", "2147483647"];
const FLOATS: &[&str] = &["1.5", "-0.5e3", "1e10", "0.0"];
const STRS: &[&str] = &["\"s\"", "\"\"", "\"a\\nb\"", "\"q\\\"x\"", "\"é\"", "\"  lead\"", "\"\\u0007\"", "\"tab\\there\"",
    "\"0123456789012345678901234567890123456789012345678901234567890123456789-long\"", "\"back\\\\slash\"", "\"ends with quote\\\"\"", "\"a\\n  \\nb\"", "\"a\\n\\t\\nb\"", "\"line  \\n  indented\\nback\"", "\"\\ttab first\\nx\"", "\"x\\n\\ny\""];
const BSTRS: &[&str] = &["\"\"\"b\"\"\"", "\"\"\"\n  multi\n    line\n  \"\"\"", "\"\"\" x\\\"\"\"y \"\"\"", "\"\"\"\"\"\"", "\"\"\"a\n\nb\"\"\"", "\"\"\"é\\n\"\"\"", "\"\"\"a\n  \nb\"\"\"", "\"\"\"\n    a\n      \n    \t\n    b\n    \"\"\"", "\"\"\"x  \n y\n\"\"\""];

pub fn render(toks: &[String], rng: &mut Rng) -> String {
    let mut out = String::new();
    for (i, t) in toks.iter().enumerate() {
        if i > 0 {
            out.push(' ');
        }
        let s: &str = match t.as_str() {
            "int" => *rng.pick(INTS),
            "float" => *rng.pick(FLOATS),
            "str" => *rng.pick(STRS),
            "bstr" => *rng.pick(BSTRS),
            n => NAMES.iter().find(|(k, _)| *k == n).map(|(_, v)| *v).unwrap_or(n),
        };
        out.push_str(s);
    }
    out
}

/// the AST has a schema definition (or bare extension) without root operations: not a member of the grammar;
/// only reachable through the known C05 finding (`schema { query: }` parses without an error)
fn schema_without_roots(doc: &ast::Document) -> bool {
    doc.definitions.iter().any(|d| match d {
        ast::Definition::SchemaDefinition(s) => s.root_operations.is_empty(),
        ast::Definition::SchemaExtension(s) => s.root_operations.is_empty() && s.directives.is_empty(),
        _ => false,
    })
}

fn one_ast(out: &mut Out, origin: &str, text: &str, k: usize, layout_every: usize) {
    let doc = match guarded(|| ast::Document::parse(text.to_string(), "orig.graphql")) {
        Ok(Ok(d)) => d,
        Ok(Err(e)) => {
            out.line(&json!({"origin": origin, "skipped": format!("syntax: {}", e.errors.to_string().lines().next().unwrap_or("")), "text": text}));
            return;
        }
        Err(p) => {
            out.line(&json!({"origin": origin, "crash": p, "text": text}));
            return;
        }
    };
    for (ci, cfg) in configs().into_iter().enumerate() {
        let d = doc.clone();
        let r = guarded(move || {
            let ser = ser!(d, cfg);
            let (ok, eq, ser2) = match ast::Document::parse(ser.clone(), "reparsed.graphql") {
                Ok(d2) => (true, d2 == d, Some(ser!(d2, cfg))),
                Err(e) => (false, e.partial == d, None),
            };
            (ser, ok, eq, ser2)
        });
        match r {
            Ok((ser, ok, eq, ser2)) => {
                let layout = (k + ci) % layout_every == 0;
                let items = if layout { items_of(&ser) } else { None };
                out.line(&json!({"origin": origin, "kind": "ast", "cfg": cfg_json(cfg), "reparseOk": ok, "equal": eq, "text2Eq": ser2.as_deref() == Some(ser.as_str()),
                    "layout": items.is_some(), "items": items.unwrap_or_default(), "nonempty": !doc.definitions.is_empty(), "schemaWithoutRoots": schema_without_roots(&doc),
                    "endsNl": ser.ends_with('\n'), "hasNl": ser.contains('\n'), "hasBlock": ser.contains("\"\"\""), "text": text, "ser": ser}));
            }
            Err(p) => out.line(&json!({"origin": origin, "crash": p, "cfg": cfg_json(cfg), "text": text})),
        }
    }
}

/// `rt-replay --seed S --layout-every K`: stdin ["CASE", [tokens]] (members of the grammar from GrammarGen)
pub fn replay(args: &[String]) {
    silence_panics();
    let seed = arg_num(args, "--seed", 1);
    let layout_every = arg_num(args, "--layout-every", 3) as usize;
    let mut rng = Rng::new(seed ^ 0xC08);
    let mut out = Out::new();
    let mut k = 0usize;
    read_lines(|v| {
        let toks: Vec<String> = v[1].as_array().map(|a| a.iter().map(|t| t.as_str().unwrap_or("").to_string()).collect()).unwrap_or_default();
        let text = render(&toks, &mut rng);
        k += 1;
        one_ast(&mut out, &format!("gen-{k}"), &text, k, layout_every);
        // shorthand placement: an explicit anonymous query after / before whatever the sentence ends / starts with
        if k % 2 == 0 {
            one_ast(&mut out, &format!("gen-{k}+query"), &format!("{text} query {{ a }}"), k, layout_every);
        } else if k % 4 == 1 {
            one_ast(&mut out, &format!("gen-query+{k}"), &format!("{{ a }} {text}"), k, layout_every);
        }
    });
}

fn corpus_texts() -> Vec<(String, String)> {
    let mut out = vec![];
    for d in ["/repo/crates/apollo-parser/test_data/parser/ok", "/repo/crates/apollo-compiler/test_data/ok", "/repo/crates/apollo-compiler/test_data/serializer/ok",
              "/repo/crates/apollo-compiler/test_data/diagnostics"] {
        if let Ok(rd) = std::fs::read_dir(d) {
            let mut es: Vec<_> = rd.filter_map(|e| e.ok()).map(|e| e.path()).collect();
            es.sort();
            for e in es {
                if e.extension().map(|x| x == "graphql").unwrap_or(false) {
                    if let Ok(s) = std::fs::read_to_string(&e) {
                        out.push((e.file_name().unwrap().to_string_lossy().to_string(), s));
                    }
                }
            }
        }
    }
    out
}

/// `rt-record --seed S --mutants N --layout-every K`: corpus files that parse, and token-level mutants that still parse
pub fn record(args: &[String]) {
    silence_panics();
    let seed = arg_num(args, "--seed", 1);
    let mutants = arg_num(args, "--mutants", 300) as usize;
    let layout_every = arg_num(args, "--layout-every", 6) as usize;
    let mut rng = Rng::new(seed ^ 0xC0808);
    let mut out = Out::new();
    let corpus = corpus_texts();
    let mut k = 0usize;
    for (name, text) in &corpus {
        if text.len() > 20000 {
            continue;
        }
        k += 1;
        one_ast(&mut out, &format!("corpus:{name}"), text, k, layout_every);
    }
    let small: Vec<&(String, String)> = corpus.iter().filter(|(_, t)| t.len() < 1500).collect();
    let mut made = 0usize;
    let mut tries = 0usize;
    while made < mutants && tries < mutants * 30 && !small.is_empty() {
        tries += 1;
        let (name, text) = *rng.pick(&small[..]);
        let mut pieces: Vec<String> = vec![];
        for t in Lexer::new(text) {
            if let Ok(t) = t {
                if t.kind() != TokenKind::Eof {
                    pieces.push(t.data().to_string());
                }
            }
        }
        let sig: Vec<usize> = pieces.iter().enumerate().filter(|(_, p)| !p.trim().is_empty() && !p.starts_with('#') && p.as_str() != ",").map(|(i, _)| i).collect();
        if sig.is_empty() {
            continue;
        }
        let i = *rng.pick(&sig);
        let j = *rng.pick(&sig);
        match rng.below(5) {
            0 => pieces[i] = String::new(),
            1 => pieces[i] = rng.pick(&["on", "true", "null", "query", "fragment", "type", "extend", "schema", "input", "a"]).to_string(),
            2 => pieces[i] = rng.pick(STRS).to_string(),
            3 => pieces[i] = rng.pick(BSTRS).to_string(),
            _ => { let tmp = pieces[i].clone(); pieces[i] = pieces[j].clone(); pieces[j] = tmp; }
        }
        let t = pieces.concat();
        if ast::Document::parse(t.clone(), "m.graphql").is_ok() {
            made += 1;
            k += 1;
            one_ast(&mut out, &format!("mutant:{name}#{tries}"), &t, k, layout_every);
        }
    }
}

// ------------------------------------------------------------------ C19: typed documents, field sets, mixed texts

const FIELD_SETS: &[(&str, &str)] = &[("Q", "a"), ("Q", "a s o { a c }"), ("Q", "{ a b(x: 1, y: {r: 1}) }"), ("O", "a c n(x: 1) o { o { a } }"),
    ("Q", "i { a ... on O { c } ... on P { p } }"), ("Q", "u { __typename ... on O { n(x: 2) } }"), ("Q", "x: a ... on Q { s } ... { a }"),
    ("I", "a ... on O { c o { a } }"), ("Q", "b(x: 1, l: [1, 2], e: B) k: b(x: 2, y: {r: 1, n: {r: 2, l: []}})"), ("Q", "a @skip(if: true) s @include(if: false) @dq(x: 1)")];

fn one_typed(out: &mut Out, origin: &str, schema: &apollo_compiler::validation::Valid<Schema>, text: &str) {
    let doc = match guarded(|| ExecutableDocument::parse_and_validate(schema, text.to_string(), "orig.graphql")) {
        Ok(Ok(d)) => d,
        Ok(Err(_)) => return,
        Err(p) => {
            out.line(&json!({"origin": origin, "crash": p, "text": text}));
            return;
        }
    };
    for cfg in configs() {
        let d = doc.clone();
        let r = guarded(move || {
            let ser = ser!(d, cfg);
            let (ok, eq, ser2) = match ExecutableDocument::parse_and_validate(schema, ser.clone(), "reparsed.graphql") {
                Ok(d2) => (true, *d2 == *d, Some(ser!(d2, cfg))),
                Err(_) => (false, false, None),
            };
            (ser, ok, eq, ser2)
        });
        match r {
            Ok((ser, ok, eq, ser2)) => out.line(&json!({"origin": origin, "kind": "typed", "cfg": cfg_json(cfg), "reparseOk": ok, "equal": eq,
                "text2Eq": ser2.as_deref() == Some(ser.as_str()), "layout": false, "items": [], "nonempty": true,
                "endsNl": ser.ends_with('\n'), "hasNl": ser.contains('\n'), "hasBlock": ser.contains("\"\"\""), "text": text, "ser": ser})),
            Err(p) => out.line(&json!({"origin": origin, "crash": p, "cfg": cfg_json(cfg), "text": text})),
        }
    }
}

fn one_field_set(out: &mut Out, origin: &str, schema: &apollo_compiler::validation::Valid<Schema>, ty: &str, text: &str) {
    let name = apollo_compiler::Name::new(ty).unwrap();
    let fs = match guarded(|| FieldSet::parse_and_validate(schema, name.clone(), text.to_string(), "fs.graphql")) {
        Ok(Ok(f)) => f,
        Ok(Err(_)) => return,
        Err(p) => {
            out.line(&json!({"origin": origin, "crash": p, "text": text}));
            return;
        }
    };
    for cfg in configs() {
        let f = fs.clone();
        let name = name.clone();
        let r = guarded(move || {
            let ser = ser!(f, cfg);
            let (ok, eq, ser2) = match FieldSet::parse_and_validate(schema, name, ser.clone(), "fs2.graphql") {
                Ok(f2) => (true, f2.selection_set == f.selection_set, Some(ser!(f2, cfg))),
                Err(_) => (false, false, None),
            };
            (ser, ok, eq, ser2)
        });
        match r {
            Ok((ser, ok, eq, ser2)) => out.line(&json!({"origin": origin, "kind": "fieldset", "cfg": cfg_json(cfg), "reparseOk": ok, "equal": eq,
                "text2Eq": ser2.as_deref() == Some(ser.as_str()), "layout": false, "items": [], "nonempty": true,
                "endsNl": ser.ends_with('\n'), "hasNl": ser.contains('\n'), "hasBlock": false, "text": text, "ser": ser})),
            Err(p) => out.line(&json!({"origin": origin, "crash": p, "cfg": cfg_json(cfg), "text": text})),
        }
    }
}

fn one_mixed(out: &mut Out, origin: &str, text: &str) {
    let (schema, doc) = match guarded(|| Parser::new().parse_mixed_validate(text.to_string(), "mixed.graphql")) {
        Ok(Ok(p)) => p,
        Ok(Err(_)) => return,
        Err(p) => {
            out.line(&json!({"origin": origin, "crash": p, "text": text}));
            return;
        }
    };
    for cfg in configs() {
        let (s, d) = (schema.clone(), doc.clone());
        let r = guarded(move || {
            let sep = if cfg.0.is_some() { "\n" } else { " " };
            let ser = format!("{}{}{}", ser!(s, cfg), sep, ser!(d, cfg));
            let (ok, eq, ser2) = match Parser::new().parse_mixed_validate(ser.clone(), "mixed2.graphql") {
                Ok((s2, d2)) => (true, *s2 == *s && *d2 == *d, Some(format!("{}{}{}", ser!(s2, cfg), sep, ser!(d2, cfg)))),
                Err(_) => (false, false, None),
            };
            (ser, ok, eq, ser2)
        });
        match r {
            Ok((ser, ok, eq, ser2)) => out.line(&json!({"origin": origin, "kind": "mixed", "cfg": cfg_json(cfg), "reparseOk": ok, "equal": eq,
                "text2Eq": ser2.as_deref() == Some(ser.as_str()), "layout": false, "items": [], "nonempty": true,
                "endsNl": ser.ends_with('\n'), "hasNl": ser.contains('\n'), "hasBlock": ser.contains("\"\"\""), "text": text, "ser": ser})),
            Err(p) => out.line(&json!({"origin": origin, "crash": p, "cfg": cfg_json(cfg), "text": text})),
        }
    }
}

/// `rt-typed --seed S --depth2 N`: valid documents among the seeds / mutants of C17, field sets, mixed texts
pub fn typed(args: &[String]) {
    silence_panics();
    let seed = arg_num(args, "--seed", 1);
    let depth2 = arg_num(args, "--depth2", 100) as usize;
    let every = arg_num(args, "--every", 1) as usize;
    let mut rng = Rng::new(seed ^ 0xC19);
    let schema = Schema::parse_and_validate(adoc::SCHEMA_SDL, "schema.graphql").expect("schema");
    let mut out = Out::new();
    let mut n = 0usize;
    for (k, src) in adoc::SEED_DOCS.iter().enumerate() {
        one_typed(&mut out, &format!("doc-seed-{k}"), &schema, src);
        one_mixed(&mut out, &format!("mixed-seed-{k}"), &format!("{}\n{}", adoc::SCHEMA_SDL, src));
        let ast = ast::Document::parse(src.to_string(), "seed.graphql").expect("seed");
        let abs = adoc::project_doc(&ast);
        let ms = adoc::doc_mutants(&abs);
        for (what, m) in &ms {
            n += 1;
            if n % every == 0 {
                one_typed(&mut out, &format!("doc-seed-{k}:{what}"), &schema, &adoc::render_doc(m));
            }
        }
        let per = 6;
        for _ in 0..(depth2 + per - 1) / per {
            let (w1, m1) = &ms[rng.below(ms.len())];
            let ms2 = adoc::doc_mutants(m1);
            if ms2.is_empty() {
                continue;
            }
            for _ in 0..per {
                let (w2, m2) = &ms2[rng.below(ms2.len())];
                let text = adoc::render_doc(m2);
                one_typed(&mut out, &format!("doc-seed-{k}:{w1}+{w2}"), &schema, &text);
                if rng.chance(1, 4) {
                    one_mixed(&mut out, &format!("mixed-seed-{k}:{w1}+{w2}"), &format!("{}\n{}", text, adoc::SCHEMA_SDL));
                }
            }
        }
    }
    for (k, (ty, fs)) in FIELD_SETS.iter().enumerate() {
        one_field_set(&mut out, &format!("fieldset-{k}"), &schema, ty, fs);
    }
    // corpus: every file that validates as a mixed document
    for (name, text) in corpus_texts() {
        if text.len() < 20000 {
            one_mixed(&mut out, &format!("corpus:{name}"), &text);
        }
    }
}
