//! C27: execute_async on a minimal executor that polls the task only when its waker was invoked, with
//! resolver futures / list streams that return Pending a prescribed number of times.
use crate::exec::{abstract_response, leaf_json, prepare};
use crate::util::*;
use apollo_compiler::resolvers::{AsyncObjectValue, AsyncResolvedValue, Execution, FieldError, ResolveInfo};
use futures::future::BoxFuture;
use futures::stream::BoxStream;
use futures::Stream;
use serde_json::{json, Value as J};
use std::future::Future;
use std::pin::Pin;
use std::sync::atomic::{AtomicBool, Ordering};
use std::sync::{Arc, Mutex};
use std::task::{Context, Poll, Wake, Waker};

#[derive(Default)]
pub struct Shared {
    schedule: Vec<usize>,        // pending count for the k-th awaited thing (future or stream item), creation order
    next: usize,                 // next index into schedule
    events: Vec<J>,              // Create / Pending / Wake / Ready
    wake_queue: Vec<(usize, Waker)>,
    alive: usize,                // resolver futures created and not yet ready
    max_alive: usize,
    calls: Vec<String>,
}

type Sh = Arc<Mutex<Shared>>;

struct AW {
    type_name: String,
    world: Arc<J>,
    sh: Sh,
}

fn take_pending(sh: &Sh, what: &str) -> (usize, usize) {
    let mut s = sh.lock().unwrap();
    let k = s.next;
    s.next += 1;
    let p = s.schedule.get(k).copied().unwrap_or(0);
    s.events.push(json!({"e": "Create", "k": k, "what": what}));
    (k, p)
}

struct PendingFuture<T> {
    k: usize,
    remaining: usize,
    value: Option<T>,
    sh: Sh,
    counted: bool,
}
impl<T: Unpin> Future for PendingFuture<T> {
    type Output = T;
    fn poll(mut self: Pin<&mut Self>, cx: &mut Context<'_>) -> Poll<T> {
        if self.remaining > 0 {
            self.remaining -= 1;
            let mut s = self.sh.lock().unwrap();
            s.events.push(json!({"e": "Pending", "k": self.k}));
            s.wake_queue.push((self.k, cx.waker().clone()));
            Poll::Pending
        } else {
            let mut s = self.sh.lock().unwrap();
            s.events.push(json!({"e": "Ready", "k": self.k}));
            if self.counted {
                s.alive -= 1;
            }
            drop(s);
            self.counted = false;
            Poll::Ready(self.value.take().expect("polled after completion"))
        }
    }
}
impl<T> Drop for PendingFuture<T> {
    fn drop(&mut self) {
        if self.counted {
            self.sh.lock().unwrap().alive -= 1;
        }
    }
}

struct PendingStream<'a> {
    items: std::vec::IntoIter<J>,
    current: Option<(usize, usize, J)>, // (k, remaining, item)
    world: Arc<J>,
    sh: Sh,
    _p: std::marker::PhantomData<&'a ()>,
}
impl<'a> Stream for PendingStream<'a> {
    type Item = Result<AsyncResolvedValue<'a>, FieldError>;
    fn poll_next(mut self: Pin<&mut Self>, cx: &mut Context<'_>) -> Poll<Option<Self::Item>> {
        if self.current.is_none() {
            match self.items.next() {
                None => return Poll::Ready(None),
                Some(it) => {
                    let (k, p) = take_pending(&self.sh, "item");
                    self.current = Some((k, p, it));
                }
            }
        }
        let this = &mut *self;
        let (k, remaining, _) = this.current.as_mut().unwrap();
        if *remaining > 0 {
            *remaining -= 1;
            let kk = *k;
            let mut s = this.sh.lock().unwrap();
            s.events.push(json!({"e": "Pending", "k": kk}));
            s.wake_queue.push((kk, cx.waker().clone()));
            return Poll::Pending;
        }
        let (k, _, it) = self.current.take().unwrap();
        self.sh.lock().unwrap().events.push(json!({"e": "Ready", "k": k}));
        Poll::Ready(Some(resolved(&it, &self.world, &self.sh)))
    }
}

fn resolved<'a>(o: &J, world: &Arc<J>, sh: &Sh) -> Result<AsyncResolvedValue<'a>, FieldError> {
    match o[0].as_str().unwrap() {
        "null" => Ok(AsyncResolvedValue::null()),
        "err" => Err(FieldError { message: "boom".into() }),
        "obj" => Ok(AsyncResolvedValue::object(AW { type_name: o[1].as_str().unwrap().to_string(), world: world.clone(), sh: sh.clone() })),
        "list" => {
            let items: Vec<J> = o[1].as_array().unwrap().clone();
            let s: BoxStream<'a, Result<AsyncResolvedValue<'a>, FieldError>> =
                Box::pin(PendingStream { items: items.into_iter(), current: None, world: world.clone(), sh: sh.clone(), _p: std::marker::PhantomData });
            Ok(AsyncResolvedValue::List(s))
        }
        _ => Ok(AsyncResolvedValue::leaf(leaf_json(o))),
    }
}

impl AsyncObjectValue for AW {
    fn type_name(&self) -> &str {
        &self.type_name
    }
    fn resolve_field<'a>(&'a self, info: &'a ResolveInfo<'a>) -> BoxFuture<'a, Result<AsyncResolvedValue<'a>, FieldError>> {
        let name = format!("{}.{}", self.type_name, info.field_name());
        let (k, p) = take_pending(&self.sh, &name);
        {
            let mut s = self.sh.lock().unwrap();
            s.calls.push(name);
            s.alive += 1;
            s.max_alive = s.max_alive.max(s.alive);
        }
        let value = match self.world.get(&self.type_name).and_then(|t| t.get(info.field_name())) {
            Some(o) => resolved(o, &self.world, &self.sh),
            None => Err(self.unknown_field_error(info)),
        };
        Box::pin(PendingFuture { k, remaining: p, value: Some(value), sh: self.sh.clone(), counted: true })
    }
}

struct Flag(AtomicBool);
impl Wake for Flag {
    fn wake(self: Arc<Self>) {
        self.0.store(true, Ordering::SeqCst);
    }
}

pub struct AsyncRun {
    pub data: J,
    pub errors: Vec<J>,
    pub calls: Vec<String>,
    pub max_alive: usize,
    pub polls: usize,
    pub hang: bool,
    pub spurious_poll_needed: bool,
    pub events: Vec<J>,
}

/// Run one request asynchronously under a pending schedule.
pub fn run_async(kind: &str, sels: &J, frags: &J, world: &J, schedule: &[usize]) -> Result<AsyncRun, String> {
    let (schema, doc, _text) = prepare(kind, sels, frags)?;
    let sh: Sh = Arc::new(Mutex::new(Shared { schedule: schedule.to_vec(), ..Default::default() }));
    let root = AW { type_name: if kind == "mutation" { "Mutation".into() } else { "Query".into() }, world: Arc::new(world.clone()), sh: sh.clone() };
    let vars = crate::exec::variables_for(&schema, &doc)?;
    let exec = Execution::new(&schema, &doc).coerced_variable_values(&vars);
    let fut = exec.execute_async(&root);
    let mut fut = Box::pin(fut);
    let flag = Arc::new(Flag(AtomicBool::new(true)));
    let waker = Waker::from(flag.clone());
    let mut cx = Context::from_waker(&waker);
    let mut polls = 0usize;
    let mut hang = false;
    let resp = loop {
        // the task is polled only when its waker has been invoked
        if !flag.0.swap(false, Ordering::SeqCst) {
            hang = true;
            break None;
        }
        polls += 1;
        match fut.as_mut().poll(&mut cx) {
            Poll::Ready(r) => break Some(r),
            Poll::Pending => {
                // let exactly one pending future wake the task (FIFO)
                let next = {
                    let mut s = sh.lock().unwrap();
                    if s.wake_queue.is_empty() { None } else { Some(s.wake_queue.remove(0)) }
                };
                match next {
                    None => {
                        hang = true; // suspended and nobody holds a waker: lost wake-up
                        break None;
                    }
                    Some((k, w)) => {
                        sh.lock().unwrap().events.push(json!({"e": "Wake", "k": k}));
                        w.wake();
                    }
                }
            }
        }
        if polls > 100_000 {
            hang = true;
            break None;
        }
    };
    drop(fut);
    let s = sh.lock().unwrap();
    let (data, errors) = match resp {
        Some(Ok(r)) => abstract_response(&r),
        Some(Err(e)) => (json!(["request-error", format!("{e:?}")]), vec![]),
        None => (json!(["hang"]), vec![]),
    };
    Ok(AsyncRun { data, errors, calls: s.calls.clone(), max_alive: s.max_alive, polls, hang, spurious_poll_needed: false, events: s.events.clone() })
}

/// Synchronous reference run of the same request (call order + response).
fn run_sync(kind: &str, sels: &J, frags: &J, world: &J) -> Result<(J, Vec<J>, Vec<String>), String> {
    let (schema, doc, _text) = prepare(kind, sels, frags)?;
    let log = Arc::new(Mutex::new(vec![]));
    let root = crate::exec::W { type_name: if kind == "mutation" { "Mutation".into() } else { "Query".into() }, world: Arc::new(world.clone()), log: Some(log.clone()) };
    let vars = crate::exec::variables_for(&schema, &doc)?;
    let resp = Execution::new(&schema, &doc).coerced_variable_values(&vars).execute_sync(&root).map_err(|e| format!("{e:?}"))?;
    let (d, e) = abstract_response(&resp);
    let calls = log.lock().unwrap().clone();
    Ok((d, e, calls))
}

/// stdin: C26 cases (["CASE", opId, kind, sels, fragments, world, response]); `--schedules file` with ["SCHED", [p1..pK]] lines.
/// For every case and schedule: async response = sync response, same resolver call order, never two resolver futures
/// alive, no hang.  Output: mismatch lines, Trace_AsyncExec lines (`--trace N` of them), summary.
pub fn replay(args: &[String]) {
    silence_panics();
    let sched_file = arg_val(args, "--schedules").expect("--schedules");
    let trace_n = arg_num(args, "--trace", 0) as usize;
    let every = arg_num(args, "--every", 1) as usize;
    let scheds: Vec<Vec<usize>> = std::fs::read_to_string(sched_file).unwrap().lines().filter_map(|l| serde_json::from_str::<J>(l).ok())
        .map(|v| v[1].as_array().unwrap().iter().map(|x| x.as_u64().unwrap() as usize).collect()).collect();
    let mut out = Out::new();
    let (mut n, mut runs, mut bad, mut traced) = (0u64, 0u64, 0u64, 0usize);
    let mut rng = Rng::new(arg_num(args, "--seed", 1) ^ 0xC27);
    read_lines(|v| {
        n += 1;
        if (n as usize) % every != 0 {
            return;
        }
        let kind = v[2].as_str().unwrap();
        let (sels, frags, world) = (&v[3], &v[4], &v[5]);
        let Ok((sd, se, scalls)) = run_sync(kind, sels, frags, world) else { return };
        // schedules: all of TLC's when the request awaits few things, a sample otherwise; plus random long ones
        let mut mine: Vec<Vec<usize>> = vec![];
        let k_total = scalls.len();
        for s in &scheds {
            if k_total <= s.len() || rng.chance(1, 6) {
                mine.push(s.clone());
            }
        }
        for _ in 0..3 {
            mine.push((0..(k_total + 6)).map(|_| rng.below(4)).collect());
        }
        for s in mine {
            runs += 1;
            let r = guarded(std::panic::AssertUnwindSafe(|| run_async(kind, sels, frags, world, &s)));
            let mut why: Vec<String> = vec![];
            match r {
                Err(p) => why.push(format!("panic: {p}")),
                Ok(Err(e)) => why.push(e),
                Ok(Ok(a)) => {
                    if a.hang {
                        why.push("hang: the task is suspended and no waker is pending (lost wake-up)".into());
                    } else {
                        if a.data != sd || a.errors != se {
                            why.push(format!("async response differs from the synchronous one: {} / {}", a.data, J::Array(a.errors.clone())));
                        }
                        if a.calls != scalls {
                            why.push(format!("resolver call order {:?} differs from the synchronous order {:?}", a.calls, scalls));
                        }
                        if a.max_alive > 1 {
                            why.push(format!("{} resolver futures were alive at the same time", a.max_alive));
                        }
                    }
                    if traced < trace_n {
                        traced += 1;
                        out.line(&json!({"trace": true, "kind": kind, "events": a.events, "hang": a.hang, "schedule": s}));
                    }
                }
            }
            if !why.is_empty() {
                bad += 1;
                out.line(&json!({"bad": true, "op": v[1], "schedule": s, "world": world, "sels": sels, "why": why}));
            }
        }
    });
    out.line(&json!({"summary": true, "cases": n, "runs": runs, "bad": bad}));
}
