//! C31: file ids under forced interleavings (hooked global counter), pack/unpack through names with
//! locations, and concurrent use of a shared schema.
use crate::util::*;
use apollo_compiler::parser::FileId;
use apollo_compiler::verif_hooks;
use serde_json::{json, Value as J};
use std::sync::{Arc, Condvar, Mutex};

thread_local! {
    static WORKER: std::cell::Cell<Option<usize>> = const { std::cell::Cell::new(None) };
}

#[derive(Default)]
struct Sched {
    waiting: Vec<bool>,   // worker is blocked at a yield point
    finished: Vec<bool>,
    turn: Option<usize>,  // worker allowed to perform its operation
    log: Vec<J>,
    choices: Vec<(Vec<usize>, usize)>, // (enabled set, chosen) per step
}

struct Controller {
    st: Mutex<Sched>,
    cv: Condvar,
}

const TAG: u64 = 1 << 63;
fn shift(v: u64) -> u64 {
    if v < 500_000 { v } else { (1_000_000i128 + (v as i128 - TAG as i128)) as u64 }
}

/// One run: `threads` workers each allocate `allocs` ids, starting with the counter at `start`, following the
/// schedule `prefix` (then always the lowest enabled worker). Returns (log lines, choices).
fn run_once(threads: usize, allocs: usize, start: u64, prefix: &[usize]) -> (Vec<J>, Vec<(Vec<usize>, usize)>) {
    let ctl = Arc::new(Controller { st: Mutex::new(Sched { waiting: vec![false; threads], finished: vec![false; threads], ..Default::default() }), cv: Condvar::new() });
    FileId::verif_set_next(start);
    let hook_ctl = ctl.clone();
    verif_hooks::set_hook(Some(Box::new(move |op, a, b, perform| {
        let Some(me) = WORKER.with(|w| w.get()) else { return perform() };
        let mut st = hook_ctl.st.lock().unwrap();
        st.waiting[me] = true;
        hook_ctl.cv.notify_all();
        while st.turn != Some(me) {
            st = hook_ctl.cv.wait(st).unwrap();
        }
        let r = perform();
        st.log.push(json!({"e": "Op", "t": me, "op": op, "a": shift(a), "b": shift(b), "r": shift(r)}));
        st.turn = None;
        st.waiting[me] = false;
        hook_ctl.cv.notify_all();
        r
    })));
    let mut handles = vec![];
    for t in 0..threads {
        let c = ctl.clone();
        handles.push(std::thread::spawn(move || {
            WORKER.with(|w| w.set(Some(t)));
            for _ in 0..allocs {
                let r = std::panic::catch_unwind(|| FileId::new().verif_raw());
                let mut st = c.st.lock().unwrap();
                match r {
                    Ok(id) => st.log.push(json!({"e": "Return", "t": t, "id": shift(id)})),
                    Err(_) => st.log.push(json!({"e": "Crash", "t": t})),
                }
            }
            let mut st = c.st.lock().unwrap();
            st.finished[t] = true;
            c.cv.notify_all();
        }));
    }
    // controller loop
    let mut step = 0usize;
    loop {
        let mut st = ctl.st.lock().unwrap();
        // wait until every live worker is blocked at a yield point and nobody holds the turn
        while !(st.turn.is_none() && (0..threads).all(|t| st.finished[t] || st.waiting[t])) {
            st = ctl.cv.wait(st).unwrap();
        }
        let enabled: Vec<usize> = (0..threads).filter(|t| !st.finished[*t] && st.waiting[*t]).collect();
        if enabled.is_empty() {
            break;
        }
        let choice = if step < prefix.len() && enabled.contains(&prefix[step]) { prefix[step] } else { enabled[0] };
        st.choices.push((enabled, choice));
        st.turn = Some(choice);
        step += 1;
        ctl.cv.notify_all();
        // wait for the operation to complete (turn cleared by the worker)
        while st.turn.is_some() {
            st = ctl.cv.wait(st).unwrap();
        }
    }
    for h in handles {
        let _ = h.join();
    }
    verif_hooks::set_hook(None);
    let st = ctl.st.lock().unwrap();
    (st.log.clone(), st.choices.clone())
}

/// Explore all schedules (DFS over the choice points) up to `max_runs`.
fn explore(threads: usize, allocs: usize, start: u64, max_runs: usize, rng: &mut Rng, out: &mut Out) -> usize {
    let mut stack: Vec<Vec<usize>> = vec![vec![]];
    let mut runs = 0;
    while let Some(prefix) = stack.pop() {
        if runs >= max_runs {
            break;
        }
        runs += 1;
        let (log, choices) = run_once(threads, allocs, start, &prefix);
        out.line(&json!({"e": "Start", "reg": shift(start), "threads": threads, "allocs": allocs, "schedule": choices.iter().map(|c| c.1).collect::<Vec<_>>()}));
        for l in log {
            out.line(&l);
        }
        // new prefixes: flip one choice at a position >= len(prefix)
        let taken: Vec<usize> = choices.iter().map(|c| c.1).collect();
        let mut alts = vec![];
        for pos in prefix.len()..choices.len() {
            for alt in &choices[pos].0 {
                if *alt != choices[pos].1 {
                    let mut p = taken[..pos].to_vec();
                    p.push(*alt);
                    alts.push(p);
                }
            }
        }
        if max_runs < 10_000 && alts.len() > 64 {
            // sampled exploration for the larger configurations
            for _ in 0..8 {
                let i = rng.below(alts.len());
                stack.push(alts.swap_remove(i));
            }
        } else {
            stack.extend(alts);
        }
    }
    runs
}

/// `fileid-schedules --seed S --tier quick|thorough`: Trace_FileId lines
pub fn schedules(args: &[String]) {
    silence_panics();
    let seed = arg_num(args, "--seed", 1);
    let thorough = arg_val(args, "--tier").map(|t| t == "thorough").unwrap_or(false);
    let mut rng = Rng::new(seed ^ 0xC31);
    let mut out = Out::new();
    let mut total = 0;
    for start in [3u64, 100, TAG - 2, TAG - 1] {
        total += explore(2, 2, start, 5000, &mut rng, &mut out);
    }
    total += explore(3, 2, 3, if thorough { 3000 } else { 300 }, &mut rng, &mut out);
    total += explore(3, 2, TAG - 3, if thorough { 3000 } else { 300 }, &mut rng, &mut out);
    total += explore(4, 3, 3, if thorough { 2000 } else { 150 }, &mut rng, &mut out);
    out.line(&json!({"e": "Start", "reg": 3, "threads": 0, "allocs": 0, "schedule": [], "runs": total}));
}

/// `fileid-pack --seed S --count N`: pack/unpack observed through names with locations
pub fn pack(args: &[String]) {
    silence_panics();
    let seed = arg_num(args, "--seed", 1);
    let count = arg_num(args, "--count", 20000) as usize;
    let mut rng = Rng::new(seed ^ 0x9AC);
    let mut out = Out::new();
    let mut ids: Vec<u64> = vec![3, 4, 255, 256, 65535, 65536, (1 << 32) - 1, 1 << 32, (1 << 62), (1 << 63) - 1, (1 << 63) - 2];
    for a in 0..63 {
        ids.push(1u64 << a);
        for b in (a + 1)..63 {
            ids.push((1u64 << a) | (1u64 << b));
            if (a + b) % 5 == 0 {
                for c in (b + 1)..63 {
                    ids.push((1u64 << a) | (1u64 << b) | (1u64 << c));
                }
            }
        }
    }
    for _ in 0..count {
        ids.push(rng.next() & !TAG);
    }
    let (mut n, mut bad) = (0u64, 0u64);
    for id in ids {
        if id < 3 {
            continue;
        }
        n += 1;
        let r = guarded(|| {
            FileId::verif_set_next(id);
            let doc = apollo_compiler::ast::Document::parse("type Tname { fname: Int }", "p.graphql").map_err(|e| e.errors.to_string())?;
            let file_id = *doc.sources.keys().next().unwrap();
            let mut why = vec![];
            if file_id.verif_raw() != id {
                why.push(format!("file id {} for counter {}", file_id.verif_raw(), id));
            }
            let apollo_compiler::ast::Definition::ObjectTypeDefinition(t) = &doc.definitions[0] else { return Err("shape".to_string()) };
            // heap-allocated name (from the parser) with a location
            let heap = t.name.clone();
            let Some(loc) = heap.location() else {
                why.push("parsed name without a location".to_string());
                return Ok(why);
            };
            if loc.file_id().verif_raw() != id || heap.as_str() != "Tname" || heap.as_static_str().is_some() {
                why.push(format!("heap name: file id {} text {:?}", loc.file_id().verif_raw(), heap.as_str()));
            }
            // static name given the same location: the tag bit must survive
            let stat = apollo_compiler::name!("Sname").with_location(loc);
            // (a missing location is an observation about the code under test, not a tool error)
            let Some(l2) = stat.location() else {
                why.push("static name given a location reports none: packing with the tag bit clear lost the file id".to_string());
                return Ok(why);
            };
            if l2.file_id().verif_raw() != id || stat.as_str() != "Sname" || stat.as_static_str() != Some("Sname") || l2.offset() != loc.offset() {
                why.push(format!("static name: file id {} text {:?} static {:?}", l2.file_id().verif_raw(), stat.as_str(), stat.as_static_str()));
            }
            let c = heap.clone();
            if c.location().map(|l| l.file_id().verif_raw()) != Some(id) || c != heap || c.to_cloned_arc().as_deref() != Some("Tname") {
                why.push("clone of heap name".to_string());
            }
            Ok(why)
        });
        let why = match r {
            Err(p) => vec![format!("panic: {p}")],
            Ok(Err(e)) => vec![format!("tool: {e}")],
            Ok(Ok(w)) => w,
        };
        if !why.is_empty() {
            bad += 1;
            out.line(&json!({"bad": true, "id": format!("{id:#x}"), "why": why}));
        }
    }
    FileId::verif_set_next(3);
    out.line(&json!({"summary": true, "cases": n, "bad": bad}));
}

/// `fileid-shared --threads N`: concurrent parse / validate / introspect against one shared Valid<Schema>
pub fn shared(args: &[String]) {
    silence_panics();
    let threads = arg_num(args, "--threads", 8) as usize;
    let mut out = Out::new();
    let sdl = std::fs::read_to_string("/repo/crates/apollo-compiler/test_data/ok/0036_supergraph.graphql")
        .or_else(|_| std::fs::read_to_string("/repo/crates/apollo-compiler/test_data/ok/0001_annonymous_operation_definition.graphql"))
        .unwrap_or_else(|_| "type Query { a: Int }".to_string());
    let ast = apollo_compiler::ast::Document::parse(sdl, "s.graphql").unwrap_or_else(|e| e.partial);
    let schema = match ast.to_schema_validate() {
        Ok(s) => s,
        Err(_) => apollo_compiler::Schema::parse_and_validate("type Query { a: Int b: [Query] } interface I { a: Int } type T implements I { a: Int }", "s.graphql").unwrap(),
    };
    let queries: Vec<String> = vec![
        "{ __typename }".into(),
        "{ __schema { types { name kind fields { name } } } }".into(),
        crate::digest::FULL_INTROSPECTION.to_string(),
        "{ __type(name: \"Query\") { name fields { name type { name kind } } } }".into(),
        "{ nope }".into(),
    ];
    let work = |schema: &apollo_compiler::validation::Valid<apollo_compiler::Schema>| -> Vec<String> {
        let mut v = vec![];
        for q in &queries {
            let r = match apollo_compiler::ExecutableDocument::parse_and_validate(schema, q.clone(), "q.graphql") {
                Ok(_) => crate::digest::introspect(schema, q).unwrap_or_else(|e| format!("err {e}")),
                Err(e) => format!("invalid: {}", e.errors.iter().map(|d| d.error.to_string()).collect::<Vec<_>>().join("|")),
            };
            v.push(crate::digest::fnv(&r));
        }
        v.push(crate::digest::fnv(&schema.to_string()));
        v
    };
    let sequential = work(&schema);
    let shared = Arc::new(schema);
    let mut hs = vec![];
    for _ in 0..threads {
        let s = shared.clone();
        let q = queries.clone();
        hs.push(std::thread::spawn(move || {
            let _ = q;
            let mut all = vec![];
            for _ in 0..5 {
                let mut v = vec![];
                for q in &q {
                    let r = match apollo_compiler::ExecutableDocument::parse_and_validate(&s, q.clone(), "q.graphql") {
                        Ok(_) => crate::digest::introspect(&s, q).unwrap_or_else(|e| format!("err {e}")),
                        Err(e) => format!("invalid: {}", e.errors.iter().map(|d| d.error.to_string()).collect::<Vec<_>>().join("|")),
                    };
                    v.push(crate::digest::fnv(&r));
                }
                v.push(crate::digest::fnv(&s.to_string()));
                all.push(v);
            }
            all
        }));
    }
    for (t, h) in hs.into_iter().enumerate() {
        match h.join() {
            Ok(all) => {
                for (k, v) in all.into_iter().enumerate() {
                    out.line(&json!({"kind": format!("thread-{t}-round-{k}"), "pairs": [["same-as-sequential", sequential, v]], "flags": []}));
                }
            }
            Err(_) => out.line(&json!({"kind": format!("thread-{t}"), "pairs": [], "flags": [["no-panic", false]]})),
        }
    }
}
