//! C21: adversarial structures through the whole compiler pipeline (child process, small stack).
use crate::util::*;
use apollo_compiler::diagnostic::ToCliReport;
use apollo_compiler::validation::DiagnosticList;
use serde_json::{json, Value as J};
use std::io::Write;

pub fn expand(family: &str, l: usize) -> String {
    let mut s = String::new();
    match family {
        "frag_nested" => {
            s.push_str("type Query { a: Int }\nquery Q { __schema { types { ...f1 } } }\n");
            for i in 1..l {
                s.push_str(&format!("fragment f{i} on __Type {{ ofType {{ ...f{} }} }}\n", i + 1));
            }
            s.push_str(&format!("fragment f{l} on __Type {{ ofType {{ name }} }}\n"));
        }
        "frag_flat" => {
            s.push_str("type Query { a: Int }\nquery Q { __schema { types { ...f1 } } }\n");
            for i in 1..l {
                s.push_str(&format!("fragment f{i} on __Type {{ ...f{} }}\n", i + 1));
            }
            s.push_str(&format!("fragment f{l} on __Type {{ name }}\n"));
        }
        "frag_cycle" => {
            s.push_str("type Query { a: Query b: Int }\nquery Q { ...f1 }\n");
            for i in 1..=l {
                let next = if i == l { 1 } else { i + 1 };
                s.push_str(&format!("fragment f{i} on Query {{ a {{ ... on Query {{ a {{ ...f{next} }} }} }} }}\n"));
            }
        }
        "frag_cycle_subscription" => {
            s.push_str("type Query { a: Query b: Int } type Subscription { a: Query }\nsubscription S { a { ...f1 } }\n");
            for i in 1..=l {
                let next = if i == l { 1 } else { i + 1 };
                s.push_str(&format!("fragment f{i} on Query {{ ... {{ ...f{next} }} }}\n"));
            }
        }
        "directive_chain" => {
            s.push_str("type Query { field: Int! @d0(arg: true) }\ndirective @d0(arg: Boolean @a1) on FIELD_DEFINITION\n");
            for i in 1..l {
                s.push_str(&format!("directive @a{i}(arg: Boolean @a{}) on ARGUMENT_DEFINITION\n", i + 1));
            }
            s.push_str(&format!("directive @a{l}(arg: Boolean) on ARGUMENT_DEFINITION\n"));
        }
        "directive_cycle_enum" => {
            // a directive cycle through an enum value
            s.push_str("type Query { field: Int }\nenum E { V @d1 }\n");
            for i in 1..=l {
                let next = if i == l { 1 } else { i + 1 };
                s.push_str(&format!("directive @d{i}(arg: E @d{next}) on ENUM_VALUE | ARGUMENT_DEFINITION\n"));
            }
        }
        "directive_cycle_input" => {
            s.push_str("type Query { field: Int }\n");
            for i in 1..=l {
                let next = if i == l { 1 } else { i + 1 };
                s.push_str(&format!("input I{i} {{ f: Int @d{i} }}\ndirective @d{i}(arg: I{next}) on INPUT_FIELD_DEFINITION\n"));
            }
        }
        "input_chain" => {
            s.push_str("type Query { field(arg: In0): Boolean }\n");
            for i in 0..l {
                s.push_str(&format!("input In{i} {{ nest: In{}! }}\n", i + 1));
            }
            s.push_str(&format!("input In{l} {{ last: Boolean }}\n"));
        }
        "input_cycle_nonnull" => {
            s.push_str("type Query { field(arg: In1): Boolean }\n");
            for i in 1..=l {
                let next = if i == l { 1 } else { i + 1 };
                s.push_str(&format!("input In{i} {{ nest: In{next}! }}\n"));
            }
        }
        "input_cycle_nullable" => {
            s.push_str("type Query { field(arg: In1): Boolean }\n");
            for i in 1..=l {
                let next = if i == l { 1 } else { i + 1 };
                s.push_str(&format!("input In{i} {{ nest: [In{next}] }}\n"));
            }
        }
        "input_lasso_nonnull" => {
            s.push_str("type Query { field(arg: T1): Boolean }\ninput T1 { next: T2! }\ninput T2 { next: In1! }\n");
            for i in 1..=l {
                let next = if i == l { 1 } else { i + 1 };
                s.push_str(&format!("input In{i} {{ nest: In{next}! }}\n"));
            }
        }
        "interface_lasso" => {
            s.push_str("type Query { f: T1 }\ninterface T1 implements T2 { x: Int }\ninterface T2 implements I1 { x: Int }\n");
            for i in 1..=l {
                let next = if i == l { 1 } else { i + 1 };
                s.push_str(&format!("interface I{i} implements I{next} {{ x: Int }}\n"));
            }
        }
        "directive_lasso_input" => {
            s.push_str("type Query { field: Int }\ninput T1 { f: Int @t1 }\ndirective @t1(arg: T2) on INPUT_FIELD_DEFINITION\ninput T2 { f: Int @t2 }\ndirective @t2(arg: I1) on INPUT_FIELD_DEFINITION\n");
            for i in 1..=l {
                let next = if i == l { 1 } else { i + 1 };
                s.push_str(&format!("input I{i} {{ f: Int @d{i} }}\ndirective @d{i}(arg: I{next}) on INPUT_FIELD_DEFINITION\n"));
            }
        }
        "frag_lasso" => {
            s.push_str("type Query { a: Query b: Int }\nquery Q { ...t1 }\nfragment t1 on Query { a { ...t2 } }\nfragment t2 on Query { a { ...f1 } b }\n");
            for i in 1..=l {
                let next = if i == l { 1 } else { i + 1 };
                s.push_str(&format!("fragment f{i} on Query {{ a {{ ...f{next} }} }}\n"));
            }
        }
        "interface_chain" => {
            s.push_str("type Query { f: I0 }\n");
            for i in 0..l {
                let all: Vec<String> = ((i + 1)..=l).map(|j| format!("I{j}")).collect();
                s.push_str(&format!("interface I{i} implements {} {{ x: Int }}\n", all.join(" & ")));
            }
            s.push_str(&format!("interface I{l} {{ x: Int }}\n"));
        }
        "interface_cycle" => {
            s.push_str("type Query { f: I1 }\n");
            for i in 1..=l {
                let next = if i == l { 1 } else { i + 1 };
                s.push_str(&format!("interface I{i} implements I{next} {{ x: Int }}\n"));
            }
        }
        "deep_selection" => {
            s.push_str("type Query { recur: Query leaf(arg: Boolean): Int }\nquery ");
            s.push_str(&"{ recur\n".repeat(l));
            s.push_str("{ leaf(arg: true) leaf(arg: false) }");
            s.push_str(&"\n}".repeat(l));
        }
        "deep_list_value" => {
            s.push_str("type Query { f(a: [[Int]]): Int }\n{ f(a: ");
            s.push_str(&"[".repeat(l));
            s.push('1');
            s.push_str(&"]".repeat(l));
            s.push_str(") }");
        }
        "deep_object_value" => {
            s.push_str("input In { k: In v: Int } type Query { f(a: In): Int }\n{ f(a: ");
            s.push_str(&"{k: ".repeat(l));
            s.push_str("{v: 1}");
            s.push_str(&"}".repeat(l));
            s.push_str(") }");
        }
        "deep_type" => {
            s.push_str("type Query { f: ");
            s.push_str(&"[".repeat(l));
            s.push_str("Int");
            s.push_str(&"]".repeat(l));
            s.push_str(" }\n{ f }");
        }
        "deep_variable_default" => {
            s.push_str("input In { k: In v: Int } type Query { f(a: In): Int }\nquery($v: In = ");
            s.push_str(&"{k: ".repeat(l));
            s.push_str("{v: 1}");
            s.push_str(&"}".repeat(l));
            s.push_str(") { f(a: $v) }");
        }
        "union_members" => {
            s.push_str("type Query { u: U }\nunion U = ");
            let ms: Vec<String> = (0..l.max(1)).map(|i| format!("T{i}")).collect();
            s.push_str(&ms.join(" | "));
            s.push('\n');
            for i in 0..l.max(1) {
                s.push_str(&format!("type T{i} {{ x: Int }}\n"));
            }
            s.push_str("{ u { ");
            for i in 0..l.max(1) {
                s.push_str(&format!("... on T{i} {{ x }} "));
            }
            s.push_str("} }");
        }
        _ => s.push_str("type Query { a: Int } { a }"),
    }
    s
}

fn sorted_ok(list: &DiagnosticList) -> bool {
    let mut prev: Option<(u64, usize)> = None;
    let mut seen_located = false;
    for d in list.iter() {
        match d.error.location() {
            None => {
                if seen_located {
                    return false; // unlocated ones come first
                }
            }
            Some(l) => {
                seen_located = true;
                let key = (l.file_id().verif_raw(), l.offset());
                if let Some(p) = prev {
                    if key < p {
                        return false;
                    }
                }
                prev = Some(key);
            }
        }
    }
    true
}

fn render_all(list: &DiagnosticList, texts: &mut Vec<String>) -> bool {
    let mut ok = true;
    for d in list.iter() {
        let plain = d.to_string();
        let colored = format!("{:?}", d);   // Debug = report with colours if stderr is a terminal
        let js = serde_json::to_string(&d.to_json()).unwrap_or_default();
        ok &= !plain.is_empty() && !colored.is_empty() && !js.is_empty();
        texts.push(plain);
    }
    let whole = list.to_string();
    ok &= list.is_empty() || !whole.is_empty();
    ok
}

fn run_pipeline(text: &str) -> J {
    let mut texts: Vec<String> = vec![];
    let mut sorted = true;
    let mut rendered = true;
    let mut stages: Vec<&str> = vec![];
    let ast = match apollo_compiler::ast::Document::parse(text.to_string(), "adv.graphql") {
        Ok(a) => a,
        Err(e) => {
            sorted &= sorted_ok(&e.errors);
            rendered &= render_all(&e.errors, &mut texts);
            stages.push("syntax-errors");
            e.partial
        }
    };
    let _ = ast.to_string();
    let _ = ast.serialize().no_indent().to_string();
    match ast.to_mixed_validate() {
        Ok((schema, doc)) => {
            stages.push("valid");
            let _ = schema.to_string();
            let _ = doc.to_string();
            let _ = crate::digest::introspect(&schema, crate::digest::FULL_INTROSPECTION);
        }
        Err(errors) => {
            stages.push("invalid");
            sorted &= sorted_ok(&errors);
            rendered &= render_all(&errors, &mut texts);
        }
    }
    // schema alone, executable alone (standalone validation), builder paths
    match ast.to_schema() {
        Ok(s) => {
            let _ = s.to_string();
            if let Err(e) = s.validate() {
                sorted &= sorted_ok(&e.errors);
                rendered &= render_all(&e.errors, &mut texts);
            }
        }
        Err(e) => {
            sorted &= sorted_ok(&e.errors);
            rendered &= render_all(&e.errors, &mut texts);
            let _ = e.partial.to_string();
        }
    }
    let mut errs = DiagnosticList::new(Default::default());
    let exe = apollo_compiler::ExecutableDocument::builder(None, &mut errs).parse(text.to_string(), "adv2.graphql").build();
    let _ = exe.to_string();
    if let Err(e) = ast.validate_standalone_executable() {
        sorted &= sorted_ok(&e);
        rendered &= render_all(&e, &mut texts);
    }
    let limit_diag = texts.iter().any(|t| t.contains("too much recursion") || t.contains("recursion limit") || t.contains("too much nesting") || t.contains("Recursion limit"));
    json!({"sorted": sorted, "rendered": rendered, "limitDiag": limit_diag, "diags": texts.len(), "stages": stages,
           "first": texts.first().map(|t| t.lines().next().unwrap_or("").to_string())})
}

/// child: stdin ["SHAPE", family, L, expect] or {"text":..}; one JSON line per case
pub fn child(args: &[String]) {
    silence_panics();
    let careful = args.iter().any(|a| a == "--careful");
    let stack = arg_num(args, "--stack-kib", 1024) as usize * 1024;
    let h = std::thread::Builder::new()
        .stack_size(stack)
        .spawn(move || {
            let stdout = std::io::stdout();
            let mut w = std::io::BufWriter::new(stdout.lock());
            let mut cases = vec![];
            read_lines(|v| cases.push(v));
            for case in cases {
                if careful {
                    writeln!(w, "{}", json!({"e": "Begin", "id": case["id"]})).unwrap();
                    w.flush().unwrap();
                }
                let text = if case["text"].is_string() { case["text"].as_str().unwrap().to_string() } else {
                    expand(case["family"].as_str().unwrap_or(""), case["L"].as_u64().unwrap_or(1) as usize) };
                let r = guarded(|| run_pipeline(&text));
                let line = match r {
                    Ok(mut o) => {
                        o["e"] = json!("Done");
                        o["id"] = case["id"].clone();
                        o["family"] = case["family"].clone();
                        o["L"] = case["L"].clone();
                        o["expect"] = case["expect"].clone();
                        o["crash"] = json!(false);
                        o
                    }
                    Err(p) => json!({"e": "Crash", "id": case["id"], "family": case["family"], "L": case["L"], "expect": case["expect"], "crash": true, "what": p,
                                     "sorted": false, "rendered": false, "limitDiag": false, "diags": 0, "stages": [], "first": null, "text": case["text"]}),
                };
                writeln!(w, "{line}").unwrap();
                if careful {
                    w.flush().unwrap();
                }
            }
            w.flush().unwrap();
        })
        .unwrap();
    if h.join().is_err() {
        std::process::exit(3);
    }
}

/// random structure combinations + mutated corpus as {"id", "text"} cases
pub fn gen(args: &[String]) {
    let seed = arg_num(args, "--seed", 1);
    let count = arg_num(args, "--count", 300) as usize;
    let mut rng = Rng::new(seed ^ 0xC21);
    let mut out = Out::new();
    let fams = ["frag_nested", "frag_flat", "frag_cycle", "frag_cycle_subscription", "directive_chain", "directive_cycle_enum", "directive_cycle_input",
        "input_chain", "input_cycle_nonnull", "input_cycle_nullable", "interface_chain", "interface_cycle", "deep_selection", "deep_list_value",
        "deep_object_value", "deep_type", "deep_variable_default", "union_members"];
    for id in 0..count {
        // two random structures concatenated (names may collide: also adversarial), with an occasional mutation
        let a = expand(*rng.pick(&fams), *rng.pick(&[1usize, 2, 3, 5, 31, 33, 99, 101, 130]));
        let mut text = if rng.chance(1, 2) { a } else { format!("{a}\n{}", expand(*rng.pick(&fams), *rng.pick(&[1usize, 2, 4, 40]))) };
        if rng.chance(1, 3) {
            let cs: Vec<char> = text.chars().collect();
            if cs.len() > 10 {
                let i = rng.below(cs.len() - 5);
                let k = rng.range(1, 5);
                text = cs[..i].iter().chain(cs[i + k..].iter()).collect();
            }
        }
        // awkward characters in every place a string can stand (values, defaults, descriptions, deprecation reasons):
        // DEL, C1 controls, line / paragraph separators, BOM, astral characters, escapes
        if rng.chance(1, 2) {
            let awkward = ["\u{7f}", "\u{85}", "\u{9f}", "\u{2028}", "\u{2029}", "\u{feff}", "\u{1F680}", "é", "\\u0085", "\\u007F", "\\\\", "\\\"", "\\n", "\t", "\\u0000"];
            let mut lit = String::new();
            for _ in 0..rng.range(1, 4) {
                lit.push_str(*rng.pick(&awkward));
                if rng.chance(1, 2) { lit.push_str("line two"); }
            }
            text.push_str(&format!("\n\"d {lit}\" type Awk{id} {{ \"{lit}\" f(a: String = \"{lit}\", b: [String] = [\"{lit}\", \"x\"]): Int @deprecated(reason: \"{lit}\") }}\nquery Awk{id}Q($s: String = \"{lit}\") {{ __typename @skip(if: false) }}\n"));
        }
        out.line(&json!({"id": id, "family": "random", "L": 0, "expect": "either", "text": text}));
    }
}
