//! C24: full introspection of generated schemas vs Introspection.tla.
use crate::util::*;
use apollo_compiler::introspection;
use apollo_compiler::request::coerce_variable_values;
use apollo_compiler::response::JsonMap;
use apollo_compiler::{ExecutableDocument, Schema};
use serde_json::{json, Value as J};

pub const FULL_QUERY: &str = "query IntrospectionQuery { __schema { description queryType { name } mutationType { name } subscriptionType { name }
  types { ...FullType } directives { name description isRepeatable locations args(includeDeprecated: true) { ...InputValue } } } }
fragment FullType on __Type { kind name description specifiedByURL
  fields(includeDeprecated: true) { name description args(includeDeprecated: true) { ...InputValue } type { ...TypeRef } isDeprecated deprecationReason }
  inputFields(includeDeprecated: true) { ...InputValue } interfaces { ...TypeRef }
  enumValues(includeDeprecated: true) { name description isDeprecated deprecationReason } possibleTypes { ...TypeRef } }
fragment InputValue on __InputValue { name description type { ...TypeRef } defaultValue isDeprecated deprecationReason }
fragment TypeRef on __Type { kind name ofType { kind name ofType { kind name ofType { kind name ofType { kind name ofType { kind name ofType { kind name } } } } } } }";

const NULL: &str = "<null>";

fn type_text(t: &J) -> String {
    match t[0].as_str().unwrap() {
        "named" => t[1].as_str().unwrap().to_string(),
        "list" => format!("[{}]", type_text(&t[1])),
        _ => format!("{}!", type_text(&t[1])),
    }
}
fn value_text(v: &J) -> String {
    match v[0].as_str().unwrap() {
        "int" => v[1].to_string(),
        "float" | "enum" => v[1].as_str().unwrap().to_string(),
        "str" => format!("{:?}", v[1].as_str().unwrap()),
        "bool" => v[1].to_string(),
        "list" => format!("[{}]", v[1].as_array().unwrap().iter().map(value_text).collect::<Vec<_>>().join(", ")),
        "obj" => format!("{{{}}}", v[1].as_array().unwrap().iter().map(|kv| format!("{}: {}", kv[0].as_str().unwrap(), value_text(&kv[1]))).collect::<Vec<_>>().join(", ")),
        _ => "null".to_string(),
    }
}
fn desc_text(d: &J) -> String {
    match d.as_str() {
        Some(NULL) | None => String::new(),
        Some(s) => format!("{:?} ", s),
    }
}
fn dep_text(d: &J) -> String {
    if !d["is"].as_bool().unwrap() {
        String::new()
    } else if d["explicit"].as_bool().unwrap() {
        format!(" @deprecated(reason: {:?})", d["reason"].as_str().unwrap())
    } else {
        " @deprecated".to_string()
    }
}
fn ivd_text(i: &J) -> String {
    format!("{}{}: {}{}{}", desc_text(&i["desc"]), i["name"].as_str().unwrap(), type_text(&i["type"]),
        if i["default"][0] == "none" { String::new() } else { format!(" = {}", value_text(&i["default"])) }, dep_text(&i["dep"]))
}
fn args_text(a: &J) -> String {
    let a = a.as_array().unwrap();
    if a.is_empty() { String::new() } else { format!("({})", a.iter().map(ivd_text).collect::<Vec<_>>().join(", ")) }
}

pub fn render(s: &J) -> String {
    let mut out = String::new();
    out.push_str(&format!("{}schema {{ query: {}", desc_text(&s["description"]), s["query"].as_str().unwrap()));
    for k in ["mutation", "subscription"] {
        if !s[k].as_str().unwrap().is_empty() {
            out.push_str(&format!(" {k}: {}", s[k].as_str().unwrap()));
        }
    }
    out.push_str(" }\n");
    for d in s["directives"].as_array().unwrap() {
        out.push_str(&format!("{}directive @{}{}{} on {}\n", desc_text(&d["desc"]), d["name"].as_str().unwrap(), args_text(&d["args"]),
            if d["repeatable"].as_bool().unwrap() { " repeatable" } else { "" },
            d["locations"].as_array().unwrap().iter().map(|l| l.as_str().unwrap()).collect::<Vec<_>>().join(" | ")));
    }
    for t in s["types"].as_array().unwrap() {
        let name = t["name"].as_str().unwrap();
        let imp = { let i = t["interfaces"].as_array().unwrap(); if i.is_empty() { String::new() } else { format!(" implements {}", i.iter().map(|x| x.as_str().unwrap()).collect::<Vec<_>>().join(" & ")) } };
        let fields = || t["fields"].as_array().unwrap().iter().map(|f| format!("  {}{}{}: {}{}", desc_text(&f["desc"]), f["name"].as_str().unwrap(), args_text(&f["args"]), type_text(&f["type"]), dep_text(&f["dep"]))).collect::<Vec<_>>().join("\n");
        out.push_str(&desc_text(&t["desc"]));
        match t["kind"].as_str().unwrap() {
            "OBJECT" => out.push_str(&format!("type {name}{imp} {{\n{}\n}}\n", fields())),
            "INTERFACE" => out.push_str(&format!("interface {name}{imp} {{\n{}\n}}\n", fields())),
            "UNION" => out.push_str(&format!("union {name} = {}\n", t["members"].as_array().unwrap().iter().map(|x| x.as_str().unwrap()).collect::<Vec<_>>().join(" | "))),
            "ENUM" => out.push_str(&format!("enum {name} {{ {} }}\n", t["values"].as_array().unwrap().iter().map(|v| format!("{}{}{}", desc_text(&v["desc"]), v["name"].as_str().unwrap(), dep_text(&v["dep"]))).collect::<Vec<_>>().join(" "))),
            "INPUT_OBJECT" => out.push_str(&format!("input {name} {{ {} }}\n", t["inputFields"].as_array().unwrap().iter().map(ivd_text).collect::<Vec<_>>().join(" "))),
            _ => out.push_str(&format!("scalar {name}{}\n", match t["specifiedBy"].as_str() { Some(NULL) | None => String::new(), Some(u) => format!(" @specifiedBy(url: {u:?})") })),
        }
    }
    out
}

struct G<'a> {
    rng: &'a mut Rng,
}
impl G<'_> {
    fn desc(&mut self, what: &str) -> J {
        if self.rng.chance(1, 2) { json!(NULL) } else { json!(format!("{what} {}", self.rng.below(100))) }
    }
    fn dep(&mut self, allowed: bool) -> J {
        if !allowed || self.rng.chance(2, 3) {
            json!({"is": false, "explicit": false, "reason": NULL})
        } else if self.rng.chance(1, 2) {
            json!({"is": true, "explicit": false, "reason": "No longer supported"})
        } else {
            json!({"is": true, "explicit": true, "reason": format!("because {}", self.rng.below(10))})
        }
    }
    fn wrap(&mut self, named: J, depth: usize) -> J {
        match self.rng.below(if depth == 0 { 2 } else { 4 }) {
            0 => named,
            1 => json!(["nonnull", named]),
            2 => { let inner = self.wrap(named, depth - 1); json!(["list", inner]) }
            _ => { let inner = self.wrap(named, depth - 1); json!(["nonnull", ["list", inner]]) }
        }
    }
    /// a literal that is valid for the type, written in a possibly non-canonical form
    fn literal(&mut self, t: &J, inputs: &[(String, Vec<J>)], enums: &[(String, Vec<String>)], depth: usize) -> J {
        match t[0].as_str().unwrap() {
            "nonnull" => { let mut v = self.literal(&t[1], inputs, enums, depth); if v[0] == "null" { v = self.literal(&t[1], inputs, enums, depth); } if v[0] == "null" { json!(["none"]) } else { v } }
            "list" => {
                if self.rng.chance(1, 6) { return json!(["null"]); }
                if self.rng.chance(1, 4) {
                    // a single item stands for a one-element list
                    let v = self.literal(&t[1], inputs, enums, depth);
                    if v[0] == "none" || v[0] == "null" { return json!(["list", []]); }
                    return v;
                }
                let n = self.rng.below(3);
                let mut items = vec![];
                for _ in 0..n {
                    let v = self.literal(&t[1], inputs, enums, depth);
                    if v[0] == "none" { continue; }
                    if v[0] == "null" && t[1][0] == "nonnull" { continue; }
                    items.push(v);
                }
                json!(["list", items])
            }
            _ => {
                let n = t[1].as_str().unwrap();
                if self.rng.chance(1, 8) { return json!(["null"]); }
                match n {
                    "Int" => json!(["int", self.rng.below(50) as i64 - 10]),
                    "Float" => if self.rng.chance(1, 2) { json!(["int", self.rng.below(9)]) } else { { let (t, c) = *self.rng.pick(&[("1.5", "1.5"), ("0.25", "0.25"), ("1e3", "1000"), ("2.0", "2")]); json!(["float", t, c]) } },
                    "String" => { let (r, p) = *self.rng.pick(&[("s", "\"s\""), ("", "\"\""), ("two words", "\"two words\""), ("quote\"inside", "\"quote\\\"inside\""), ("line\nbreak", "\"line\\nbreak\"")]); json!(["str", r, p, false]) }
                    "Boolean" => json!(["bool", self.rng.chance(1, 2)]),
                    "ID" => if self.rng.chance(1, 2) { json!(["int", self.rng.below(99)]) } else { { let (r, p, i) = *self.rng.pick(&[("id1", "\"id1\"", false), ("42", "\"42\"", true)]); json!(["str", r, p, i]) } },
                    _ => {
                        if let Some((_, vals)) = enums.iter().find(|(e, _)| e == n) {
                            return json!(["enum", self.rng.pick(&vals[..]).clone()]);
                        }
                        if let Some((_, fields)) = inputs.iter().find(|(i, _)| i == n) {
                            if depth == 0 { return json!(["null"]); }
                            let mut kvs = vec![];
                            for f in fields {
                                let required = f["type"][0] == "nonnull" && f["default"][0] == "none";
                                if required || self.rng.chance(1, 2) {
                                    let v = self.literal(&f["type"], inputs, enums, depth - 1);
                                    if v[0] == "none" { if required { return json!(["none"]); } continue; }
                                    kvs.push(json!([f["name"], v]));
                                }
                            }
                            if self.rng.chance(1, 2) { kvs.reverse(); }
                            return json!(["obj", kvs]);
                        }
                        // custom scalar
                        self.rng.pick(&[json!(["int", 7]), json!(["str", "custom", "\"custom\"", false]), json!(["bool", true])]).clone()
                    }
                }
            }
        }
    }
}

pub fn random_schema(rng: &mut Rng) -> J {
    let mut g = G { rng };
    let scalars: Vec<String> = (0..g.rng.below(3)).map(|i| format!("Sc{i}")).collect();
    let enums: Vec<(String, Vec<String>)> = (0..g.rng.range(1, 2)).map(|i| (format!("En{i}"), (0..g.rng.range(1, 3)).map(|k| format!("V{k}")).collect())).collect();
    let n_inputs = g.rng.range(1, 2);
    let n_ifaces = g.rng.range(1, 3);
    let n_objs = g.rng.range(2, 4);
    let n_unions = g.rng.below(2);
    let mut input_named: Vec<String> = vec!["Int".into(), "Float".into(), "String".into(), "Boolean".into(), "ID".into()];
    input_named.extend(scalars.iter().cloned());
    input_named.extend(enums.iter().map(|e| e.0.clone()));
    // input objects (earlier ones may be referenced by later ones; self-reference nullable)
    let mut inputs: Vec<(String, Vec<J>)> = vec![];
    for i in 0..n_inputs {
        let name = format!("In{i}");
        let mut fields = vec![];
        for k in 0..g.rng.range(1, 3) {
            let mut pool = input_named.clone();
            pool.extend(inputs.iter().map(|x| x.0.clone()));
            let named = json!(["named", g.rng.pick(&pool[..]).clone()]);
            let ty = g.wrap(named, 2);
            let default = if g.rng.chance(1, 2) { g.literal(&ty, &inputs, &enums, 2) } else { json!(["none"]) };
            let required = ty[0] == "nonnull" && default[0] == "none";
            fields.push(json!({"name": format!("f{k}"), "desc": g.desc("input field"), "type": ty, "default": default, "dep": g.dep(!required)}));
        }
        if g.rng.chance(1, 3) {
            fields.push(json!({"name": "self", "desc": NULL, "type": ["named", name], "default": ["none"], "dep": g.dep(true)}));
        }
        inputs.push((name, fields));
    }
    let mut all_input = input_named.clone();
    all_input.extend(inputs.iter().map(|x| x.0.clone()));
    let mut args = |g: &mut G, max: usize| -> Vec<J> {
        (0..g.rng.below(max + 1)).map(|k| {
            let named = json!(["named", g.rng.pick(&all_input[..]).clone()]);
            let ty = g.wrap(named, 2);
            let default = if g.rng.chance(1, 2) { g.literal(&ty, &inputs, &enums, 2) } else { json!(["none"]) };
            let required = ty[0] == "nonnull" && default[0] == "none";
            json!({"name": format!("a{k}"), "desc": g.desc("argument"), "type": ty, "default": default, "dep": g.dep(!required)})
        }).collect()
    };
    // interfaces: I0 root; later ones may implement earlier ones (with their closure)
    let iface_names: Vec<String> = (0..n_ifaces).map(|i| format!("If{i}")).collect();
    let obj_names: Vec<String> = (0..n_objs).map(|i| format!("Ob{i}")).collect();
    let union_names: Vec<String> = (0..n_unions).map(|i| format!("Un{i}")).collect();
    let mut out_named: Vec<String> = vec!["Int".into(), "Float".into(), "String".into(), "Boolean".into(), "ID".into()];
    out_named.extend(scalars.iter().cloned());
    out_named.extend(enums.iter().map(|e| e.0.clone()));
    out_named.extend(iface_names.iter().cloned());
    out_named.extend(obj_names.iter().cloned());
    out_named.extend(union_names.iter().cloned());
    let mut types = vec![];
    let mut iface_fields: Vec<Vec<J>> = vec![];
    let mut iface_parents: Vec<Vec<usize>> = vec![];
    for i in 0..n_ifaces {
        let mut parents: Vec<usize> = vec![];
        if i > 0 && g.rng.chance(1, 2) {
            let p = g.rng.below(i);
            parents.push(p);
            for pp in iface_parents[p].clone() { if !parents.contains(&pp) { parents.push(pp); } }
        }
        let mut fields: Vec<J> = vec![];
        for p in &parents { for f in &iface_fields[*p] { if !fields.iter().any(|x| x["name"] == f["name"]) { fields.push(f.clone()); } } }
        for k in 0..g.rng.range(1, 2) {
            let named = json!(["named", g.rng.pick(&out_named[..]).clone()]);
            let ty = g.wrap(named, 2);
            fields.push(json!({"name": format!("i{i}f{k}"), "desc": g.desc("interface field"), "args": args(&mut g, 2), "type": ty, "dep": g.dep(true)}));
        }
        iface_fields.push(fields.clone());
        iface_parents.push(parents.clone());
        types.push(json!({"kind": "INTERFACE", "name": iface_names[i], "desc": g.desc("interface"), "specifiedBy": NULL, "fields": fields,
            "interfaces": parents.iter().map(|p| iface_names[*p].clone()).collect::<Vec<_>>(), "members": [], "values": [], "inputFields": []}));
    }
    for (i, name) in obj_names.iter().enumerate() {
        let mut parents: Vec<usize> = vec![];
        if g.rng.chance(2, 3) {
            let p = g.rng.below(n_ifaces);
            parents.push(p);
            for pp in iface_parents[p].clone() { if !parents.contains(&pp) { parents.push(pp); } }
        }
        let mut fields: Vec<J> = vec![];
        for p in &parents { for f in &iface_fields[*p] { if !fields.iter().any(|x| x["name"] == f["name"]) { fields.push(f.clone()); } } }
        for k in 0..g.rng.range(1, 3) {
            let named = json!(["named", g.rng.pick(&out_named[..]).clone()]);
            let ty = g.wrap(named, 2);
            fields.push(json!({"name": format!("o{i}f{k}"), "desc": g.desc("field"), "args": args(&mut g, 2), "type": ty, "dep": g.dep(true)}));
        }
        types.push(json!({"kind": "OBJECT", "name": name, "desc": g.desc("object"), "specifiedBy": NULL, "fields": fields,
            "interfaces": parents.iter().map(|p| iface_names[*p].clone()).collect::<Vec<_>>(), "members": [], "values": [], "inputFields": []}));
    }
    for u in &union_names {
        let mut members: Vec<String> = obj_names.iter().filter(|_| g.rng.chance(1, 2)).cloned().collect();
        if members.is_empty() { members.push(obj_names[0].clone()); }
        if g.rng.chance(1, 2) { members.reverse(); }
        types.push(json!({"kind": "UNION", "name": u, "desc": g.desc("union"), "specifiedBy": NULL, "fields": [], "interfaces": [], "members": members, "values": [], "inputFields": []}));
    }
    for (e, vals) in &enums {
        let values: Vec<J> = vals.iter().map(|v| json!({"name": v, "desc": g.desc("enum value"), "dep": g.dep(true)})).collect();
        types.push(json!({"kind": "ENUM", "name": e, "desc": g.desc("enum"), "specifiedBy": NULL, "fields": [], "interfaces": [], "members": [], "values": values, "inputFields": []}));
    }
    for (n, fields) in &inputs {
        types.push(json!({"kind": "INPUT_OBJECT", "name": n, "desc": g.desc("input"), "specifiedBy": NULL, "fields": [], "interfaces": [], "members": [], "values": [], "inputFields": fields}));
    }
    for s in &scalars {
        let by = if g.rng.chance(1, 2) { json!(format!("https://example.com/{s}")) } else { json!(NULL) };
        types.push(json!({"kind": "SCALAR", "name": s, "desc": g.desc("scalar"), "specifiedBy": by, "fields": [], "interfaces": [], "members": [], "values": [], "inputFields": []}));
    }
    // shuffle the definition order
    for i in (1..types.len()).rev() { let j = g.rng.below(i + 1); types.swap(i, j); }
    let locs = ["QUERY", "FIELD", "FRAGMENT_SPREAD", "OBJECT", "FIELD_DEFINITION", "ARGUMENT_DEFINITION", "ENUM_VALUE", "INPUT_FIELD_DEFINITION", "SCHEMA", "SCALAR", "VARIABLE_DEFINITION"];
    let directives: Vec<J> = (0..g.rng.below(3)).map(|i| {
        let mut l: Vec<&str> = locs.iter().filter(|_| g.rng.chance(1, 3)).cloned().collect();
        if l.is_empty() { l.push("FIELD"); }
        json!({"name": format!("dir{i}"), "desc": g.desc("directive"), "repeatable": g.rng.chance(1, 3), "locations": l, "args": args(&mut g, 2)})
    }).collect();
    let mutation = if g.rng.chance(1, 3) && n_objs >= 2 { obj_names[1].clone() } else { String::new() };
    let subscription = if g.rng.chance(1, 4) && n_objs >= 3 { obj_names[2].clone() } else { String::new() };
    json!({"description": g.desc("schema"), "query": obj_names[0], "mutation": mutation, "subscription": subscription, "types": types, "directives": directives})
}

/// JSON null becomes "<null>" in string positions and {"null": true, "v": []} in composite positions
/// (TLC cannot compare a string with a record or a sequence)
fn norm(v: &J) -> J {
    const COMPOSITE: &[&str] = &["fields", "inputFields", "interfaces", "enumValues", "possibleTypes", "ofType", "queryType", "mutationType", "subscriptionType"];
    match v {
        J::Null => json!(NULL),
        J::Array(a) => J::Array(a.iter().map(norm).collect()),
        J::Object(m) => J::Object(m.iter().map(|(k, v)| {
            let nv = if COMPOSITE.contains(&k.as_str()) {
                // the placeholder has the shape of what is absent: a record for single objects, a list otherwise
                let record_position = matches!(k.as_str(), "ofType" | "queryType" | "mutationType" | "subscriptionType");
                if v.is_null() { if record_position { json!({"null": true, "v": {"absent": true}}) } else { json!({"null": true, "v": []}) } } else { json!({"null": false, "v": norm(v)}) }
            } else {
                norm(v)
            };
            (k.clone(), nv)
        }).collect()),
        x => x.clone(),
    }
}

/// `intro-record --seed S --count N`: Trace_Introspection lines
pub fn record(args: &[String]) {
    silence_panics();
    let seed = arg_num(args, "--seed", 1);
    let count = arg_num(args, "--count", 100) as usize;
    let mut out = Out::new();
    let (mut emitted, mut k) = (0usize, 0u64);
    while emitted < count && k < count as u64 * 20 {
        k += 1;
        let mut rng = Rng::new((seed ^ 0xC24).wrapping_mul(7919).wrapping_add(k));
        let abs = random_schema(&mut rng);
        let sdl = render(&abs);
        let with_concrete = rng.chance(1, 3);
        let r = guarded(|| {
            let schema = Schema::parse_and_validate(sdl.clone(), "schema.graphql").map_err(|e| format!("invalid: {}", e.errors.to_string().lines().next().unwrap_or("")))?;
            // sometimes the query also selects a concrete root field: it must be skipped without error
            let root_field = abs["types"].as_array().unwrap().iter().find(|t| t["name"] == abs["query"]).unwrap()["fields"].as_array().unwrap().iter()
                .find(|f| f["args"].as_array().unwrap().iter().all(|a| !(a["type"][0] == "nonnull" && a["default"][0] == "none"))
                    && matches!(f["type"].to_string().as_str(), s if ["Int", "Float", "String", "Boolean", "ID", "Sc", "En"].iter().any(|p| s.contains(&format!("\"{p}")))))
                .map(|f| f["name"].as_str().unwrap().to_string());
            let query = match (&root_field, with_concrete) {
                (Some(f), true) => FULL_QUERY.replacen("{ __schema", &format!("{{ {f} __schema"), 1),
                _ => FULL_QUERY.to_string(),
            };
            let concrete = with_concrete && root_field.is_some();
            let doc = ExecutableDocument::parse_and_validate(&schema, query, "q.graphql").map_err(|e| format!("tool: query invalid: {}", e.errors))?;
            let op = doc.operations.get(None).map_err(|_| "tool: no operation".to_string())?;
            let vars = coerce_variable_values(&schema, op, &JsonMap::new()).map_err(|e| format!("tool: {e:?}"))?;
            let resp = introspection::partial_execute(&schema, &schema.implementers_map(), &doc, op, &vars).map_err(|e| format!("request error: {e:?}"))?;
            let j: J = serde_json::to_value(&resp).unwrap();
            // the same query with every `(includeDeprecated: true)` removed: the default (false) filters deprecated entries
            let q2 = FULL_QUERY.replace("(includeDeprecated: true)", "");
            let doc2 = ExecutableDocument::parse_and_validate(&schema, q2, "q2.graphql").map_err(|e| format!("tool: query 2 invalid: {}", e.errors))?;
            let op2 = doc2.operations.get(None).map_err(|_| "tool: no operation".to_string())?;
            let resp2 = introspection::partial_execute(&schema, &schema.implementers_map(), &doc2, op2, &vars).map_err(|e| format!("request error: {e:?}"))?;
            let j2: J = serde_json::to_value(&resp2).unwrap();
            Ok::<_, String>((j, concrete, j2))
        });
        match r {
            Ok(Ok((j, concrete, j2))) => {
                let errors = j.get("errors").and_then(|e| e.as_array()).map(|a| a.len()).unwrap_or(0) + j2.get("errors").and_then(|e| e.as_array()).map(|a| a.len()).unwrap_or(0);
                let data = j.get("data").cloned().unwrap_or(J::Null);
                let keys: Vec<String> = data.as_object().map(|m| m.keys().cloned().collect()).unwrap_or_default();
                out.line(&json!({"schema": abs, "resp": norm(&data["__schema"]), "respNoDep": norm(&j2["data"]["__schema"]), "hasData": data["__schema"].is_object() && j2["data"]["__schema"].is_object(), "errors": errors, "errorsText": j.get("errors"), "dataKeys": keys, "concrete": concrete, "crash": false, "sdl": sdl}));
                emitted += 1;
            }
            Ok(Err(e)) if e.starts_with("invalid") => out.line(&json!({"skipped": e, "sdl": sdl})),
            Ok(Err(e)) => { out.line(&json!({"schema": abs, "resp": {}, "respNoDep": {}, "hasData": false, "errors": 1, "errorsText": e, "dataKeys": [], "concrete": false, "crash": false, "sdl": sdl})); emitted += 1; }
            Err(p) => { out.line(&json!({"schema": abs, "resp": {}, "respNoDep": {}, "hasData": false, "errors": 0, "dataKeys": [], "concrete": false, "crash": true, "panic": p, "sdl": sdl})); emitted += 1; }
        }
    }
}
