//! C03: the lexer against LexGrammar (spec -> impl replay and impl -> spec recording).
use crate::util::*;
use apollo_parser::{Lexer, TokenKind};
use serde_json::{json, Value};

pub fn kind_name(k: TokenKind) -> &'static str {
    match k {
        TokenKind::Whitespace => "Whitespace",
        TokenKind::Comment => "Comment",
        TokenKind::Bang => "!",
        TokenKind::Dollar => "$",
        TokenKind::Amp => "&",
        TokenKind::Spread => "...",
        TokenKind::Comma => "Comma",
        TokenKind::Colon => ":",
        TokenKind::Eq => "=",
        TokenKind::At => "@",
        TokenKind::LParen => "(",
        TokenKind::RParen => ")",
        TokenKind::LBracket => "[",
        TokenKind::RBracket => "]",
        TokenKind::LCurly => "{",
        TokenKind::RCurly => "}",
        TokenKind::Pipe => "|",
        TokenKind::Eof => "Eof",
        TokenKind::Name => "Name",
        TokenKind::StringValue => "StringValue",
        TokenKind::Int => "Int",
        TokenKind::Float => "Float",
    }
}

/// One lexer item projected to char offsets: (kind | "Error", start (0-based chars), len (chars)).
#[derive(Debug, Clone, PartialEq)]
pub struct Item {
    pub kind: &'static str,
    pub start: usize,
    pub len: usize,
    pub err: bool,
}

pub struct LexObs {
    pub items: Vec<Item>,
    /// bytes of all item data concatenated equal the input, contiguously and in order
    pub concat_ok: bool,
    pub boundaries_ok: bool,
    pub eof_count: usize,
    pub eof_last: bool,
}

pub fn observe(text: &str) -> LexObs {
    let table = char_index_table(text);
    let mut items = vec![];
    let mut pos = 0usize; // byte position reached by concatenation
    let mut concat_ok = true;
    let mut boundaries_ok = true;
    let mut eof_count = 0;
    let mut eof_last = false;
    for it in Lexer::new(text) {
        eof_last = false;
        let (kind, data_len, err, data_ok) = match &it {
            Ok(t) => {
                if t.kind() == TokenKind::Eof {
                    eof_count += 1;
                    eof_last = true;
                    if t.index() != text.len() || !t.data().is_empty() {
                        concat_ok = false;
                    }
                    continue;
                }
                let ok = t.index() == pos && text.get(pos..pos + t.data().len()) == Some(t.data());
                (kind_name(t.kind()), t.data().len(), false, ok)
            }
            Err(e) => {
                let ok = text.get(pos..pos + e.data().len()) == Some(e.data());
                ("Error", e.data().len(), true, ok)
            }
        };
        if !data_ok {
            concat_ok = false;
        }
        let end = pos + data_len;
        let (cs, ce) = (
            table.get(pos).copied().unwrap_or(usize::MAX),
            table.get(end).copied().unwrap_or(usize::MAX),
        );
        if cs == usize::MAX || ce == usize::MAX {
            boundaries_ok = false;
            items.push(Item { kind, start: 0, len: 0, err });
        } else {
            items.push(Item { kind, start: cs, len: ce - cs, err });
        }
        pos = end;
    }
    if pos != text.len() {
        concat_ok = false;
    }
    LexObs { items, concat_ok, boundaries_ok, eof_count, eof_last }
}

fn merge_ws(toks: &[(String, usize, usize)]) -> Vec<(String, usize, usize)> {
    let mut out: Vec<(String, usize, usize)> = vec![];
    for t in toks {
        if t.0 == "Whitespace" {
            if let Some(l) = out.last_mut() {
                if l.0 == "Whitespace" && l.2 == t.1 {
                    l.2 = t.2;
                    continue;
                }
            }
        }
        out.push(t.clone());
    }
    out
}

/// stdin: ["CASE", cps, [ok, [[kind, start, end]...]]]  (1-based positions, end exclusive)
/// Class-preserving substitution: every code point is replaced by another member of the same
/// lexical class, so kinds and char boundaries of the reference tokenisation are unchanged.
pub fn variant_cp(c: u32) -> u32 {
    match c {
        65 => 67,          // A -> C   (hex letter, not e/E, not an escape letter)
        68 => 70,          // D -> F
        101 => 69,         // e -> E
        110 => 116,        // n -> t   (escape letter, not hex)
        49 => 57,          // 1 -> 9
        56 => 57,          // 8 -> 9   (only the reference value of \uD8xx escapes depends on it: still a surrogate)
        37 => 126,         // % -> ~
        233 => 20013,      // é -> 中
        128640 => 0x10FFFF,
        32 => 32,
        c => c,
    }
}

pub fn replay(args: &[String]) {
    silence_panics();
    let variant = arg_num(args, "--variant", 0);
    let mut out = Out::new();
    let mut n = 0u64;
    let mut bad = 0u64;
    let mut nontrivial = 0u64;
    read_lines(|v| {
        let mut cps = cps_from_json(&v[1]);
        if variant == 1 {
            for c in cps.iter_mut() {
                *c = variant_cp(*c);
            }
        }
        let ok = v[2][0].as_bool().unwrap();
        let toks: Vec<(String, usize, usize)> = v[2][1]
            .as_array()
            .unwrap()
            .iter()
            .map(|t| {
                (
                    t[0].as_str().unwrap().to_string(),
                    t[1].as_u64().unwrap() as usize - 1,
                    t[2].as_u64().unwrap() as usize - 1,
                )
            })
            .collect();
        let text = text_of(&cps);
        n += 1;
        if toks.len() >= 2 || !ok {
            nontrivial += 1;
        }
        let res = guarded(|| observe(&text));
        let mut why: Vec<String> = vec![];
        match res {
            Err(p) => why.push(format!("panic: {p}")),
            Ok(o) => {
                if !o.concat_ok {
                    why.push("items do not concatenate to the input".into());
                }
                if !o.boundaries_ok {
                    why.push("item not on a char boundary".into());
                }
                let has_err = o.items.iter().any(|i| i.err);
                if has_err == ok {
                    why.push(format!("verdict: reference ok={ok}, lexer error={has_err}"));
                }
                // tokens before the first error must be the reference tokens (whitespace merged)
                let expect = merge_ws(&toks);
                let got: Vec<(String, usize, usize)> = o
                    .items
                    .iter()
                    .take_while(|i| !i.err)
                    .map(|i| (i.kind.to_string(), i.start, i.start + i.len))
                    .collect();
                if ok {
                    if got != expect {
                        why.push("token sequence differs from reference".into());
                    }
                } else {
                    // reference fails at the first position where no token starts; the lexer's
                    // clean prefix may be shorter by whitespace merging at the failure point only
                    let m = got.len().min(expect.len());
                    let mut prefix_ok = true;
                    for k in 0..m {
                        let last = k + 1 == m;
                        if got[k] != expect[k] {
                            let ws_tail = last
                                && got[k].0 == "Whitespace"
                                && expect[k].0 == "Whitespace"
                                && got[k].1 == expect[k].1;
                            if !ws_tail {
                                prefix_ok = false;
                            }
                        }
                    }
                    if got.len() > expect.len() {
                        prefix_ok = false;
                    }
                    if !prefix_ok {
                        why.push("tokens before the first error differ from the reference prefix".into());
                    }
                }
                if o.eof_count != 1 || !o.eof_last {
                    why.push("EOF token not exactly once at the end".into());
                }
                if !why.is_empty() {
                    let items: Vec<Value> = o
                        .items
                        .iter()
                        .map(|i| json!([i.kind, i.start, i.len, i.err]))
                        .collect();
                    out.line(&json!({"bad": true, "cps": cps, "text": text, "why": why, "ref": v[2], "items": items}));
                    bad += 1;
                    return;
                }
            }
        }
        if !why.is_empty() {
            out.line(&json!({"bad": true, "cps": cps, "text": text, "why": why, "ref": v[2]}));
            bad += 1;
        }
    });
    out.line(&json!({"summary": true, "cases": n, "bad": bad, "nontrivial": nontrivial}));
}

const POOL: &[&str] = &[
    "a", "e", "E", "u", "n", "x", "_", "0", "1", "9", "\"", "\\", ".", "-", "+", "#", "!", "$", "&", "(", ")",
    ":", "=", "@", "[", "]", "{", "|", "}", ",", " ", "\t", "\n", "\r", "\u{feff}", "%", "é", "中", "🚀", "/",
    "...", "\"\"\"", "\\\"\"\"", "\\u", "\\u00e9", "\\uD83D", "\\n", "1.5", "0.0", "1e5", "1E-3", "-0", "\"a\"",
    "query", "true", "\r\n", "\u{0}", "\u{b}", "~", "`", "'", "*", "\\\\", "0x1F", "1.", ".5", "1e", "1e+", "--", "..",
];

pub fn random_input(rng: &mut Rng) -> String {
    let n = rng.range(0, 24);
    let mut s = String::new();
    let mode = rng.below(4);
    for _ in 0..n {
        let frag = match mode {
            0 => *rng.pick(POOL),
            1 => *rng.pick(&POOL[..16]),                // numbers / names / strings
            2 => *rng.pick(&["\"", "\\", "u", "0", "A", "\n", " ", "\"\"\"", "\\\"\"\"", "\\u", "\\n", "é", "\r", "D8", "00"]),
            _ => *rng.pick(POOL),
        };
        s.push_str(frag);
    }
    s
}

/// Record lexer runs for trace validation: {"cps":[..], "items":[[kind,start,len,err]..], "flags":[concat,bound,eofok]}
pub fn record(args: &[String]) {
    silence_panics();
    let seed = arg_num(args, "--seed", 1);
    let count = arg_num(args, "--count", 1000);
    let mut rng = Rng::new(seed ^ 0xC03);
    let mut out = Out::new();
    let mut inputs: Vec<String> = vec![];
    if let Some(f) = arg_val(args, "--file") {
        inputs.push(std::fs::read_to_string(f).expect("read --file"));
    }
    for dir in [arg_val(args, "--corpus"), arg_val(args, "--corpus2")].into_iter().flatten() {
        if let Ok(rd) = std::fs::read_dir(&dir) {
            let mut files: Vec<_> = rd.filter_map(|e| e.ok()).map(|e| e.path()).collect();
            files.sort();
            for p in files {
                if p.extension().map(|e| e == "graphql").unwrap_or(false) {
                    if let Ok(s) = std::fs::read_to_string(&p) {
                        if s.chars().count() <= 1500 {
                            inputs.push(s);
                        }
                    }
                }
            }
        }
    }
    for _ in 0..count {
        inputs.push(random_input(&mut rng));
    }
    for text in inputs {
        let cps = cps_of(&text);
        match guarded(|| observe(&text)) {
            Ok(o) => {
                let items: Vec<Value> =
                    o.items.iter().map(|i| json!([i.kind, i.start, i.len, i.err])).collect();
                out.line(&json!({"cps": cps, "items": items,
                    "flags": [o.concat_ok, o.boundaries_ok, o.eof_count == 1 && o.eof_last], "crash": false}));
            }
            Err(_) => out.line(&json!({"cps": cps, "items": [], "flags": [false, false, false], "crash": true})),
        }
    }
}
