//! C12 / C13: schema builder histories from MC_SchemaBuilder replayed on the real builder.
use crate::util::*;
use apollo_compiler::schema::ExtendedType;
use apollo_compiler::Schema;
use serde_json::{json, Value as J};

fn strs(v: &J) -> Vec<String> {
    v.as_array().map(|a| a.iter().map(|x| x.as_str().unwrap_or("").to_string()).collect()).unwrap_or_default()
}

pub fn render_item(it: &J) -> String {
    let tag = it["tag"].as_str().unwrap();
    let kind = it["kind"].as_str().unwrap();
    let name = it["name"].as_str().unwrap();
    let dirs: String = strs(&it["dirs"]).iter().map(|d| format!(" @{d}")).collect();
    let ifaces = strs(&it["ifaces"]);
    let ext = if tag == "ext" { "extend " } else { "" };
    match kind {
        "directive" => format!("directive @{name} repeatable on OBJECT | INTERFACE | UNION | ENUM | SCALAR | INPUT_OBJECT | SCHEMA | FIELD_DEFINITION"),
        "schema" => {
            let roots: Vec<String> = it["mems"].as_array().unwrap().iter().map(|p| format!("{}: {}", p[0].as_str().unwrap(), p[1].as_str().unwrap())).collect();
            if roots.is_empty() { format!("{ext}schema{dirs}") } else { format!("{ext}schema{dirs} {{ {} }}", roots.join(" ")) }
        }
        _ => {
            let mems = strs(&it["mems"]);
            let imp = if ifaces.is_empty() { String::new() } else { format!(" implements {}", ifaces.join(" & ")) };
            match kind {
                "object" | "interface" | "input" => {
                    let kw = match kind { "object" => "type", "interface" => "interface", _ => "input" };
                    let body: Vec<String> = mems.iter().map(|m| format!("{m}: Int")).collect();
                    if body.is_empty() { format!("{ext}{kw} {name}{imp}{dirs}") } else { format!("{ext}{kw} {name}{imp}{dirs} {{ {} }}", body.join(" ")) }
                }
                "union" => {
                    if mems.is_empty() { format!("{ext}union {name}{dirs}") } else { format!("{ext}union {name}{dirs} = {}", mems.join(" | ")) }
                }
                "enum" => {
                    if mems.is_empty() { format!("{ext}enum {name}{dirs}") } else { format!("{ext}enum {name}{dirs} {{ {} }}", mems.join(" ")) }
                }
                _ => format!("{ext}scalar {name}{dirs}"),
            }
        }
    }
}

fn kind_of(t: &ExtendedType) -> &'static str {
    match t {
        ExtendedType::Scalar(_) => "scalar",
        ExtendedType::Object(_) => "object",
        ExtendedType::Interface(_) => "interface",
        ExtendedType::Union(_) => "union",
        ExtendedType::Enum(_) => "enum",
        ExtendedType::InputObject(_) => "input",
    }
}

/// The observable orders of a real schema, in the shape of SchemaBuilder!Order.
pub fn order_of(schema: &Schema) -> J {
    let mut types = vec![];
    for (name, ty) in &schema.types {
        if ty.is_built_in() {
            continue;
        }
        let dirs: Vec<String> = ty.directives().iter().map(|d| d.name.to_string()).collect();
        let (ifaces, mems): (Vec<String>, Vec<String>) = match ty {
            ExtendedType::Object(o) => (o.implements_interfaces.iter().map(|i| i.name.to_string()).collect(), o.fields.keys().map(|k| k.to_string()).collect()),
            ExtendedType::Interface(o) => (o.implements_interfaces.iter().map(|i| i.name.to_string()).collect(), o.fields.keys().map(|k| k.to_string()).collect()),
            ExtendedType::Union(u) => (vec![], u.members.iter().map(|m| m.name.to_string()).collect()),
            ExtendedType::Enum(e) => (vec![], e.values.keys().map(|k| k.to_string()).collect()),
            ExtendedType::InputObject(o) => (vec![], o.fields.keys().map(|k| k.to_string()).collect()),
            ExtendedType::Scalar(_) => (vec![], vec![]),
        };
        types.push(json!({"name": name.as_str(), "kind": kind_of(ty), "dirs": dirs, "ifaces": ifaces, "mems": mems}));
    }
    let dirdefs: Vec<String> = schema.directive_definitions.iter().filter(|(_, d)| !d.is_built_in()).map(|(n, _)| n.to_string()).collect();
    let sd = &schema.schema_definition;
    let root = |r: &Option<apollo_compiler::schema::ComponentName>| r.as_ref().map(|c| c.name.to_string()).unwrap_or_default();
    json!({
        "types": types,
        "dirdefs": dirdefs,
        "schemaDirs": sd.directives.iter().map(|d| d.name.to_string()).collect::<Vec<_>>(),
        "roots": [root(&sd.query), root(&sd.mutation), root(&sd.subscription)],
    })
}

fn backticked(msg: &str) -> Vec<String> {
    msg.split('`').enumerate().filter(|(i, _)| i % 2 == 1).map(|(_, s)| s.to_string()).collect()
}

/// Map a build error message to SchemaBuilder's abstract <<kind, name>>.
pub fn classify(msg: &str) -> (String, String) {
    let b = backticked(msg);
    let first = b.first().cloned().unwrap_or_default();
    let last = b.last().cloned().unwrap_or_default();
    if msg.contains("the type `") && msg.contains("defined multiple times") {
        ("TypeDefinitionCollision".into(), first)
    } else if msg.contains("the directive `") && msg.contains("defined multiple times") {
        ("DirectiveDefinitionCollision".into(), first.trim_start_matches('@').to_string())
    } else if msg.contains("must not have multiple `schema` definitions") {
        ("SchemaDefinitionCollision".into(), String::new())
    } else if msg.contains("schema extension without a schema definition") {
        ("OrphanSchemaExtension".into(), String::new())
    } else if msg.contains("type extension for undefined type") {
        ("OrphanTypeExtension".into(), first)
    } else if msg.starts_with("adding ") && msg.contains(", but `") {
        ("ExtensionKindMismatch".into(), first)
    } else if msg.contains("root operation type") && msg.contains("duplicate definitions") {
        ("DuplicateRootOperation".into(), first)
    } else if msg.contains("more than once") {
        ("DuplicateImplements".into(), first)
    } else if msg.contains("duplicate definitions for the `") {
        ("DuplicateMember".into(), last)
    } else {
        ("Other".into(), msg.to_string())
    }
}

fn build_chunks(chunks: &[String]) -> (Schema, Vec<String>) {
    let mut b = Schema::builder();
    for (k, c) in chunks.iter().enumerate() {
        b = b.parse(c.clone(), format!("s{k}.graphql"));
    }
    match b.build() {
        Ok(s) => (s, vec![]),
        Err(e) => {
            let msgs = e.errors.iter().map(|d| d.error.to_string()).collect();
            (e.partial, msgs)
        }
    }
}

fn bag(mut v: Vec<(String, String)>) -> Vec<(String, String)> {
    v.sort();
    v
}

/// stdin: ["CASE", history, {errors, order}, discoveryRoundTripOrder]
pub fn replay(_args: &[String]) {
    silence_panics();
    let mut out = Out::new();
    let (mut n, mut bad, mut clean, mut known_c12) = (0u64, 0u64, 0u64, 0u64);
    read_lines(|v| {
        let items: Vec<String> = v[1].as_array().unwrap().iter().map(render_item).collect();
        if items.is_empty() {
            return; // the empty text is not a schema document (syntax error: unexpected EOF)
        }
        n += 1;
        let expect_errors: Vec<(String, String)> = bag(v[2]["errors"].as_array().unwrap().iter().map(|e| (e[0].as_str().unwrap().to_string(), e[1].as_str().unwrap().to_string())).collect());
        let expect_order = &v[2]["order"];
        let mut why13: Vec<String> = vec![];
        let mut why12: Vec<String> = vec![];
        let mut c12_discovery = false;
        let r = guarded(|| {
            // C13: one concatenated text, one source per item, and every two-way cut
            let whole = vec![items.join("\n")];
            let (s_whole, m_whole) = build_chunks(&whole);
            let (s_each, m_each) = build_chunks(&items);
            let mut cuts_ok = true;
            let o_whole = order_of(&s_whole);
            let mut sorted_whole = m_whole.clone();
            sorted_whole.sort();
            for k in 1..items.len() {
                let two = vec![items[..k].join("\n"), items[k..].join("\n")];
                let (s2, mut m2) = build_chunks(&two);
                m2.sort();
                if order_of(&s2) != o_whole || m2 != sorted_whole || s2.to_string() != s_whole.to_string() {
                    cuts_ok = false;
                }
            }
            let mut sorted_each = m_each.clone();
            sorted_each.sort();
            let each_ok = order_of(&s_each) == o_whole && sorted_each == sorted_whole && s_each.to_string() == s_whole.to_string();
            // C12 on the schema built from one source per item
            let mut rt: Option<(bool, bool, J, bool, bool, bool)> = None;
            if m_each.is_empty() {
                let text = s_each.to_string();
                let (s2, m2) = build_chunks(&[text.clone()]);
                let text2 = s2.to_string();
                let valid1 = s_each.clone().validate().is_ok();
                let valid2 = s2.clone().validate().is_ok();
                rt = Some((m2.is_empty(), s2 == s_each, order_of(&s2), text2 == text, valid1, valid2));
            }
            (o_whole, m_whole, cuts_ok, each_ok, rt)
        });
        match r {
            Err(p) => why13.push(format!("panic: {p}")),
            Ok((order, msgs, cuts_ok, each_ok, rt)) => {
                if !cuts_ok {
                    why13.push("building from two sources differs from building from their concatenation".into());
                }
                if !each_ok {
                    why13.push("building from one source per definition differs from building from the concatenation".into());
                }
                let got_errors = bag(msgs.iter().map(|m| classify(m)).collect());
                if got_errors != expect_errors {
                    why13.push(format!("diagnostics {got_errors:?} differ from the builder model {expect_errors:?}"));
                }
                if &order != expect_order {
                    why13.push(format!("built schema {order} differs from the builder model {expect_order}"));
                }
                if let Some((no_errors, equal, order2, same_text, valid1, valid2)) = rt {
                    clean += 1;
                    if !no_errors {
                        why12.push("serialized schema does not rebuild without errors".into());
                    }
                    if order2 != order {
                        if &order2 == &v[3] {
                            c12_discovery = true;
                        }
                        why12.push(format!("order after round trip {order2} differs from {order}"));
                    } else {
                        if !equal {
                            why12.push("round-tripped schema is not equal to the original".into());
                        }
                        if !same_text {
                            why12.push("second serialization is not byte-identical".into());
                        }
                    }
                    if valid1 && !valid2 {
                        why12.push("valid schema became invalid after the round trip".into());
                    }
                }
            }
        }
        if c12_discovery {
            known_c12 += 1;
        }
        if !why13.is_empty() || !why12.is_empty() {
            bad += 1;
            out.line(&json!({"bad": true, "history": v[1], "sdl": items, "why12": why12, "why13": why13, "discovery_order_predicted": c12_discovery}));
        }
    });
    out.line(&json!({"summary": true, "cases": n, "bad": bad, "clean": clean, "discovery_order": known_c12}));
}

// ------------------------------------------------------------------ impl -> spec: corpus schemas

use apollo_compiler::ast;

fn corpus_schema_files() -> Vec<String> {
    let mut out = vec![];
    for d in [
        "/repo/crates/apollo-compiler/test_data/ok",
        "/repo/crates/apollo-compiler/test_data/serializer/ok",
        "/repo/crates/apollo-compiler/test_data/introspection",
        "/repo/crates/apollo-parser/test_data/parser/ok",
    ] {
        if let Ok(rd) = std::fs::read_dir(d) {
            let mut es: Vec<_> = rd.filter_map(|e| e.ok()).map(|e| e.path()).collect();
            es.sort();
            for e in es {
                if e.extension().map(|x| x == "graphql").unwrap_or(false) {
                    if let Ok(s) = std::fs::read_to_string(&e) {
                        if s.len() < 20000 {
                            out.push(s);
                        }
                    }
                }
            }
        }
    }
    out
}

fn is_type_system(def: &ast::Definition) -> bool {
    !matches!(def, ast::Definition::OperationDefinition(_) | ast::Definition::FragmentDefinition(_))
}

/// Split one definition with >= 2 members into a definition plus extensions (AST transformation).
fn split_def(def: &ast::Definition, rng: &mut Rng) -> Vec<ast::Definition> {
    use ast::Definition as D;
    match def {
        D::ObjectTypeDefinition(o) if o.fields.len() >= 2 => {
            let k = rng.range(1, o.fields.len() - 1);
            let mut base = (**o).clone();
            let rest: Vec<_> = base.fields.split_off(k);
            let mut out = vec![D::ObjectTypeDefinition(apollo_compiler::Node::new(base))];
            let mid = rng.range(0, rest.len());
            for part in [&rest[..mid], &rest[mid..]] {
                if !part.is_empty() {
                    out.push(D::ObjectTypeExtension(apollo_compiler::Node::new(ast::ObjectTypeExtension {
                        name: o.name.clone(),
                        implements_interfaces: vec![],
                        directives: Default::default(),
                        fields: part.to_vec(),
                    })));
                }
            }
            out
        }
        D::EnumTypeDefinition(o) if o.values.len() >= 2 => {
            let k = rng.range(1, o.values.len() - 1);
            let mut base = (**o).clone();
            let rest: Vec<_> = base.values.split_off(k);
            vec![
                D::EnumTypeDefinition(apollo_compiler::Node::new(base)),
                D::EnumTypeExtension(apollo_compiler::Node::new(ast::EnumTypeExtension { name: o.name.clone(), directives: Default::default(), values: rest })),
            ]
        }
        D::InputObjectTypeDefinition(o) if o.fields.len() >= 2 => {
            let k = rng.range(1, o.fields.len() - 1);
            let mut base = (**o).clone();
            let rest: Vec<_> = base.fields.split_off(k);
            vec![
                D::InputObjectTypeDefinition(apollo_compiler::Node::new(base)),
                D::InputObjectTypeExtension(apollo_compiler::Node::new(ast::InputObjectTypeExtension { name: o.name.clone(), directives: Default::default(), fields: rest })),
            ]
        }
        D::UnionTypeDefinition(o) if o.members.len() >= 2 => {
            let k = rng.range(1, o.members.len() - 1);
            let mut base = (**o).clone();
            let rest: Vec<_> = base.members.split_off(k);
            vec![
                D::UnionTypeDefinition(apollo_compiler::Node::new(base)),
                D::UnionTypeExtension(apollo_compiler::Node::new(ast::UnionTypeExtension { name: o.name.clone(), directives: Default::default(), members: rest })),
            ]
        }
        other => vec![other.clone()],
    }
}

fn sorted(mut v: Vec<String>) -> Vec<String> {
    v.sort();
    v
}

/// `sb-corpus --seed S --rounds N`: Trace_Monitor lines for C12 (prop 12) and C13 (prop 13)
pub fn corpus(args: &[String]) {
    silence_panics();
    let seed = arg_num(args, "--seed", 1);
    let rounds = arg_num(args, "--rounds", 2) as usize;
    let mut rng = Rng::new(seed ^ 0xC12);
    let mut out = Out::new();
    for (fi, src) in corpus_schema_files().iter().enumerate() {
        let Ok(doc) = ast::Document::parse(src.clone(), "c.graphql") else { continue };
        let defs: Vec<ast::Definition> = doc.definitions.iter().filter(|d| is_type_system(d)).cloned().collect();
        if defs.is_empty() {
            continue;
        }
        for round in 0..rounds {
            let r = guarded(std::panic::AssertUnwindSafe(|| {
                // --- texts of the definitions (optionally split into extensions)
                let mut parts: Vec<ast::Definition> = vec![];
                for d in &defs {
                    if round > 0 && rng.chance(1, 2) {
                        parts.extend(split_def(d, &mut rng));
                    } else {
                        parts.push(d.clone());
                    }
                }
                let texts: Vec<String> = parts.iter().map(|d| d.serialize().no_indent().to_string()).collect();
                let (s_whole, m_whole) = build_chunks(&[texts.join("\n")]);
                let mut lines = vec![];
                // C13 chunking: random cuts
                let mut chunks: Vec<String> = vec![];
                let mut cur = String::new();
                for t in &texts {
                    cur.push_str(t);
                    cur.push('\n');
                    if rng.chance(1, 3) {
                        chunks.push(std::mem::take(&mut cur));
                    }
                }
                if !cur.is_empty() {
                    chunks.push(cur);
                }
                let (s_chunks, m_chunks) = build_chunks(&chunks);
                lines.push(json!({"prop": 13, "kind": "chunking", "file": fi, "pairs": [
                    ["definitions-and-order", order_of(&s_whole), order_of(&s_chunks)],
                    ["serialization", s_whole.to_string(), s_chunks.to_string()],
                    ["diagnostics", sorted(m_whole.clone()), sorted(m_chunks)]], "flags": []}));
                // C13 commute: move one extension directly before its definition
                let ext_positions: Vec<usize> = parts.iter().enumerate().filter(|(_, d)| d.is_extension_definition() && d.name().is_some()).map(|(i, _)| i).collect();
                if !ext_positions.is_empty() {
                    let e = *rng.pick(&ext_positions);
                    let name = parts[e].name().cloned();
                    if let Some(dpos) = parts.iter().position(|d| !d.is_extension_definition() && d.name().cloned() == name && is_type_system(d) && !matches!(d, ast::Definition::DirectiveDefinition(_))) {
                        let no_ext_between = !parts.iter().enumerate().any(|(i, d)| i > dpos.min(e) && i < dpos.max(e) && d.is_extension_definition() && d.name().cloned() == name);
                        if dpos < e && no_ext_between {
                            let mut moved = texts.clone();
                            let t = moved.remove(e);
                            moved.insert(dpos, t);
                            let (s_moved, m_moved) = build_chunks(&[moved.join("\n")]);
                            lines.push(json!({"prop": 13, "kind": "extension-before-definition", "file": fi, "pairs": [
                                ["definitions-and-order", order_of(&s_whole), order_of(&s_moved)],
                                ["diagnostics", sorted(m_whole.iter().map(|m| format!("{:?}", classify(m))).collect()), sorted(m_moved.iter().map(|m| format!("{:?}", classify(m))).collect())]], "flags": []}));
                        }
                    }
                }
                // C12 round trip
                if m_whole.is_empty() {
                    let text = s_whole.to_string();
                    let (s2, m2) = build_chunks(&[text.clone()]);
                    let valid1 = s_whole.clone().validate().is_ok();
                    let valid2 = s2.clone().validate().is_ok();
                    lines.push(json!({"prop": 12, "kind": "round-trip", "file": fi, "split": round > 0, "pairs": [
                        ["order", order_of(&s_whole), order_of(&s2)],
                        ["reserialization", text, s2.to_string()]],
                        "flags": [["rebuilds-without-errors", m2.is_empty()], ["equal", s2 == s_whole], ["validity-preserved", !valid1 || valid2]]}));
                }
                lines
            }));
            match r {
                Ok(lines) => {
                    for l in lines {
                        out.line(&l);
                    }
                }
                Err(p) => out.line(&json!({"prop": 0, "kind": "crash", "file": fi, "pairs": [], "flags": [["no-panic", false]], "what": p})),
            }
        }
    }
}
