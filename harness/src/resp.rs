//! C33: ResponseBuilder output vs Response.tla (shape) and vs execution over the same data.
use crate::exec::{abstract_value, render_op};
use crate::util::*;
use apollo_compiler::ast::Type;
use apollo_compiler::resolvers::{Execution, FieldError, ObjectValue, ResolveInfo, ResolvedValue};
use apollo_compiler::response::JsonMap;
use apollo_compiler::schema::ExtendedType;
use apollo_compiler::validation::Valid;
use apollo_compiler::{ExecutableDocument, Schema};
use apollo_smith::{RandomProvider, ResponseBuilder, ResponseError};
use serde_json::{json, Value as J};
use std::sync::Arc;

pub const SCHEMAS: &[&str] = &[
    "type Query { a: Int b: Int! o: Obj on: Obj! i: Iface u: Uni l: [Int] ln: [Int!] lnn: [Int!]! lo: [Obj] ll: [[Int!]] lll: [[[String]!]]! loo: [[Obj!]] lu: [Uni!]! li: [[Iface]!] e: En le: [En!] s: String f: Float id: ID bo: Boolean! cs: Custom }
type Mutation { m1: Int m2: Int! mo: Obj }
type Obj implements Iface & OnlyObj { x: Int y: Int! o: Obj os: [Obj!] e: En! }
interface OnlyObj { y: Int! }
union JustOther = Other
type Other implements Iface { x: Int z: Int f: Float! u: Uni }
interface Iface { x: Int }
union Uni = Obj | Other
enum En { V W }
scalar Custom",
    "schema { query: R }
type R { n: N! ns: [N!]! nn: [[N]] t: T }
interface N implements T { id: ID! next: N }
interface T { id: ID! }
type A implements N & T { id: ID! next: N a: String! tags: [String!]! }
type B implements N & T { id: ID! next: N b: [[Boolean!]!]! k: K }
enum K { ONE }
type C implements T { id: ID! c: Float }",
];

fn type_abs(t: &Type) -> J {
    match t {
        Type::Named(n) => json!(["named", n.as_str()]),
        Type::NonNullNamed(n) => json!(["nonnull", ["named", n.as_str()]]),
        Type::List(i) => json!(["list", type_abs(i)]),
        Type::NonNullList(i) => json!(["nonnull", ["list", type_abs(i)]]),
    }
}

/// the schema in the format of Execution.tla (sets as arrays)
pub fn project(schema: &Schema) -> J {
    let mut types = serde_json::Map::new();
    for (name, t) in &schema.types {
        if name.starts_with("__") {
            continue;
        }
        macro_rules! fields {
            ($fs: expr) => {
                J::Object($fs.iter().map(|(n, f)| (n.to_string(), type_abs(&f.ty))).collect())
            };
        }
        let v = match t {
            ExtendedType::Object(o) => json!({"kind": "object", "fields": fields!(o.fields), "implements": o.implements_interfaces.iter().map(|i| i.name.as_str()).collect::<Vec<_>>(), "members": [], "values": []}),
            ExtendedType::Interface(o) => json!({"kind": "interface", "fields": fields!(o.fields), "implements": o.implements_interfaces.iter().map(|i| i.name.as_str()).collect::<Vec<_>>(), "members": [], "values": []}),
            ExtendedType::Union(u) => json!({"kind": "union", "fields": {}, "implements": [], "members": u.members.iter().map(|m| m.name.as_str()).collect::<Vec<_>>(), "values": []}),
            ExtendedType::Enum(e) => json!({"kind": "enum", "fields": {}, "implements": [], "members": [], "values": e.values.keys().map(|k| k.as_str()).collect::<Vec<_>>()}),
            ExtendedType::Scalar(_) => json!({"kind": "scalar", "fields": {}, "implements": [], "members": [], "values": []}),
            ExtendedType::InputObject(_) => continue,
        };
        types.insert(name.to_string(), v);
    }
    json!({"types": types,
           "query": schema.schema_definition.query.as_ref().map(|n| n.name.as_str()).unwrap_or(""),
           "mutation": schema.schema_definition.mutation.as_ref().map(|n| n.name.as_str()).unwrap_or("")})
}

fn possible(schema: &Schema, name: &str) -> Vec<String> {
    match schema.types.get(name) {
        Some(ExtendedType::Object(_)) => vec![name.to_string()],
        Some(ExtendedType::Union(u)) => u.members.iter().map(|m| m.name.to_string()).collect(),
        Some(ExtendedType::Interface(_)) => schema.types.iter().filter_map(|(n, t)| match t {
            ExtendedType::Object(o) if o.implements_interfaces.iter().any(|i| i.name.as_str() == name) => Some(n.to_string()),
            _ => None,
        }).collect(),
        _ => vec![],
    }
}

fn fields_of(schema: &Schema, name: &str) -> Vec<(String, String, bool)> {
    let fs = match schema.types.get(name) {
        Some(ExtendedType::Object(o)) => &o.fields,
        Some(ExtendedType::Interface(o)) => &o.fields,
        _ => return vec![],
    };
    fs.iter().map(|(n, f)| {
        let inner = f.ty.inner_named_type().to_string();
        let composite = matches!(schema.types.get(inner.as_str()), Some(ExtendedType::Object(_) | ExtendedType::Interface(_) | ExtendedType::Union(_)));
        (n.to_string(), inner, composite)
    }).collect()
}

struct Gen<'a> {
    schema: &'a Schema,
    rng: &'a mut Rng,
    keyc: usize,
    frags: serde_json::Map<String, J>,
    typenames: bool,
    budget: usize,
}

impl Gen<'_> {
    fn conditions(&self, t: &str) -> Vec<String> {
        // type conditions that can apply inside a selection set on `t`: its possible objects, itself, interfaces / unions of those objects
        let objs = possible(self.schema, t);
        let mut out = objs.clone();
        out.push(t.to_string());
        for (n, ty) in &self.schema.types {
            let overlaps = match ty {
                ExtendedType::Interface(_) | ExtendedType::Union(_) => possible(self.schema, n).iter().any(|o| objs.contains(o)),
                _ => false,
            };
            if overlaps && !out.contains(&n.to_string()) {
                out.push(n.to_string());
            }
        }
        out
    }

    fn sels(&mut self, t: &str, depth: usize, allow_spread: bool) -> J {
        let mut sels = vec![];
        let is_abstract = matches!(self.schema.types.get(t), Some(ExtendedType::Interface(_) | ExtendedType::Union(_)));
        if self.typenames && is_abstract {
            self.keyc += 1;
            sels.push(json!(["field", format!("tn{}", self.keyc), "__typename", [], true]));
        }
        let n = self.rng.range(1, 3);
        for _ in 0..n {
            let fs = fields_of(self.schema, t);
            if self.budget == 0 {
                break;
            }
            self.budget -= 1;
            let choice = self.rng.below(10);
            if fs.is_empty() || choice == 0 || (choice == 1 && is_abstract) {
                let conds = self.conditions(t);
                let on = self.rng.pick(&conds[..]).clone();
                let inner = self.sels(&on, depth, allow_spread);
                if allow_spread && self.rng.chance(1, 3) {
                    let name = format!("F{}", self.frags.len() + 1);
                    // fragment bodies contain no spreads (no cycles)
                    let body = self.sels(&on, depth.min(1), false);
                    self.frags.insert(name.clone(), json!({"on": on, "sels": body}));
                    sels.push(json!(["spread", name, true]));
                } else {
                    sels.push(json!(["inline", on, inner, true]));
                }
                continue;
            }
            if choice == 2 {
                sels.push(json!(["field", "__typename", "__typename", [], true]));
                continue;
            }
            if choice == 3 {
                let inner = self.sels(t, depth, allow_spread);
                sels.push(json!(["inline", "", inner, true]));
                continue;
            }
            let (f, nt, composite) = self.rng.pick(&fs[..]).clone();
            if composite && depth == 0 {
                continue;
            }
            self.keyc += 1;
            let key = if self.rng.chance(1, 3) { f.clone() } else { format!("k{}", self.keyc) };
            let subs = if composite { self.sels(&nt, depth - 1, allow_spread) } else { json!([]) };
            sels.push(json!(["field", key, f, subs, true]));
        }
        if sels.is_empty() || (sels.len() == 1 && self.typenames && is_abstract) {
            sels.push(json!(["field", "__typename", "__typename", [], true]));
        }
        J::Array(sels)
    }
}

/// a randomness source driven by the harness's generator
struct ScriptRng(Rng);
impl RandomProvider for ScriptRng {
    fn gen_bool(&mut self) -> Result<bool, ResponseError> { Ok(self.0.chance(1, 2)) }
    fn gen_i32_range(&mut self, min: i32, max: i32) -> Result<i32, ResponseError> {
        let span = (max as i64 - min as i64 + 1) as u64;
        Ok((min as i64 + (self.0.next() % span) as i64) as i32)
    }
    fn gen_usize_range(&mut self, min: usize, max: usize) -> Result<usize, ResponseError> { Ok(self.0.range(min, max)) }
    fn gen_f64_range(&mut self, min: f64, max: f64) -> Result<f64, ResponseError> {
        let f = (self.0.next() % 1000) as f64 / 999.0;
        Ok(min + f * (max - min))
    }
    fn gen_alphanumeric_char(&mut self) -> Result<char, ResponseError> { Ok((b'a' + (self.0.next() % 26) as u8) as char) }
    fn choose_index(&mut self, len: usize) -> Result<usize, ResponseError> {
        if len == 0 { Err(ResponseError::EmptyChoose) } else { Ok(self.0.below(len)) }
    }
    fn ratio(&mut self, numerator: u32, denominator: u32) -> Result<bool, ResponseError> { Ok(self.0.chance(numerator as usize, denominator as usize)) }
}

/// resolvers that serve one generated response: fields are looked up by response key
struct D {
    type_name: String,
    data: Arc<J>,
    schema: Arc<Valid<Schema>>,
}

fn serve<'a>(v: &J, named: &str, schema: &Arc<Valid<Schema>>) -> Result<ResolvedValue<'a>, FieldError> {
    match v {
        J::Null => Ok(ResolvedValue::null()),
        J::Array(items) => {
            let items = items.clone();
            let schema = schema.clone();
            let named = named.to_string();
            Ok(ResolvedValue::List(Box::new(items.into_iter().map(move |it| serve(&it, &named, &schema)))))
        }
        J::Object(m) => {
            let tn = match schema.types.get(named) {
                Some(ExtendedType::Object(_)) => named.to_string(),
                _ => m.iter().find(|(k, _)| k.starts_with("tn")).and_then(|(_, v)| v.as_str()).map(|s| s.to_string())
                    .ok_or(FieldError { message: "harness: no typename in data".into() })?,
            };
            Ok(ResolvedValue::object(D { type_name: tn, data: Arc::new(v.clone()), schema: schema.clone() }))
        }
        leaf => Ok(ResolvedValue::leaf(serde_json::from_value::<serde_json_bytes::Value>(leaf.clone()).unwrap())),
    }
}

impl ObjectValue for D {
    fn type_name(&self) -> &str {
        &self.type_name
    }
    fn resolve_field<'a>(&'a self, info: &'a ResolveInfo<'a>) -> Result<ResolvedValue<'a>, FieldError> {
        let key = info.field_selections()[0].response_key().as_str();
        match self.data.get(key) {
            Some(v) => serve(v, info.field_definition().ty.inner_named_type().as_str(), &self.schema),
            None => Err(FieldError { message: format!("harness: key {key} not in the generated data") }),
        }
    }
}

/// a partial response: a random sub-structure of a full one (objects lose some keys, lists are kept whole)
fn prune(v: &J, rng: &mut Rng) -> J {
    match v {
        J::Object(m) => {
            let mut out = serde_json::Map::new();
            for (k, x) in m {
                if k.starts_with("tn") || rng.chance(1, 2) {
                    out.insert(k.clone(), prune(x, rng));
                }
            }
            J::Object(out)
        }
        J::Array(a) => J::Array(a.iter().map(|x| prune(x, rng)).collect()),
        x => x.clone(),
    }
}

/// `resp-record --seed S --count N --schemas-out FILE`: Trace_Response lines
pub fn record(args: &[String]) {
    silence_panics();
    let seed = arg_num(args, "--seed", 1);
    let count = arg_num(args, "--count", 500) as usize;
    let overlay_all = args.iter().any(|a| a == "--overlay");
    let mut rng = Rng::new(seed ^ 0xC33);
    let schemas: Vec<Arc<Valid<Schema>>> = SCHEMAS.iter().map(|s| Arc::new(Schema::parse_and_validate(*s, "s.graphql").expect("schema"))).collect();
    if let Some(path) = arg_val(args, "--schemas-out") {
        let text: String = schemas.iter().map(|s| format!("{}\n", project(s))).collect();
        std::fs::write(path, text).unwrap();
    }
    let mut out = Out::new();
    let (mut emitted, mut tries) = (0usize, 0usize);
    while emitted < count && tries < count * 30 {
        tries += 1;
        let si = rng.below(schemas.len());
        let schema = schemas[si].clone();
        let mutation = schema.schema_definition.mutation.is_some() && rng.chance(1, 8);
        let kind = if mutation { "mutation" } else { "query" };
        let root = if mutation { schema.schema_definition.mutation.as_ref().unwrap().name.to_string() } else { schema.schema_definition.query.as_ref().unwrap().name.to_string() };
        let typenames = rng.chance(1, 2);
        let (sels, frags) = {
            let mut g = Gen { schema: &schema, rng: &mut rng, keyc: 0, frags: serde_json::Map::new(), typenames, budget: 40 };
            let s = g.sels(&root, 3, true);
            (s, J::Object(g.frags))
        };
        let text = render_op(kind, &sels, &frags);
        let Ok(doc) = ExecutableDocument::parse_and_validate(&schema, text.clone(), "q.graphql") else { continue };
        // only the fragments the operation uses are part of the document (and of the model's input)
        let used: serde_json::Map<String, J> = frags.as_object().unwrap().iter().filter(|(k, _)| doc.fragments.contains_key(k.as_str())).map(|(k, v)| (k.clone(), v.clone())).collect();
        let (min, max) = { let a = rng.range(0, 2); (a, a + rng.range(0, 2)) };
        let null_ratio = *rng.pick(&[None, Some((1u32, 3u32)), Some((1, 1)), Some((2, 3))]);
        let source = *rng.pick(&["script", "unstructured"]);
        let bytes: Vec<u8> = (0..rng.range(0, 400)).map(|_| rng.next() as u8).collect();
        let sub = rng.next();
        // a third of the cases: generate once, prune the result to a partial response, generate again over it
        let with_overlay = overlay_all;
        let prune_seed = rng.next();
        let r = guarded(|| {
            macro_rules! build {
                ($r: expr) => {{
                    let mut b = ResponseBuilder::new($r, &doc, &schema).with_min_list_size(min).with_max_list_size(max);
                    if let Some((n, d)) = null_ratio {
                        b = b.with_null_ratio(n, d);
                    }
                    b.build()
                }};
            }
            let mut script = ScriptRng(Rng::new(sub));
            let mut unstructured = arbitrary::Unstructured::new(&bytes);
            let built = if source == "script" { build!(&mut script) } else { build!(&mut unstructured) };
            let resp = match built {
                Ok(v) => v,
                Err(e) => return Err(e.to_string()),
            };
            let mut overlay = J::Null;
            let resp = if with_overlay {
                let j0: J = serde_json::to_value(&resp).unwrap();
                overlay = prune(j0.get("data").unwrap_or(&J::Null), &mut Rng::new(prune_seed));
                let partial: serde_json_bytes::Value = serde_json::from_value(overlay.clone()).unwrap();
                let mut script2 = ScriptRng(Rng::new(sub ^ 0x9e37));
                let mut b = ResponseBuilder::new(&mut script2, &doc, &schema).with_min_list_size(min).with_max_list_size(max).with_partial_data(partial);
                if let Some((n, d)) = null_ratio {
                    b = b.with_null_ratio(n, d);
                }
                match b.build() {
                    Ok(v) => v,
                    Err(e) => return Err(e.to_string()),
                }
            } else {
                resp
            };
            let j: J = serde_json::to_value(&resp).unwrap();
            let data = j.get("data").cloned().unwrap_or(J::Null);
            // execution over the same data (only when every abstract object in the data names its type)
            let exec = if typenames && data.is_object() {
                let rootv = D { type_name: root.clone(), data: Arc::new(data.clone()), schema: schema.clone() };
                let vars = Valid::assume_valid(JsonMap::new());
                match Execution::new(&schema, &doc).coerced_variable_values(&vars).execute_sync(&rootv) {
                    Ok(resp2) => {
                        let j2: J = serde_json::to_value(&resp2).unwrap();
                        let errs = j2.get("errors").and_then(|e| e.as_array()).map(|a| a.len()).unwrap_or(0);
                        Some((j2.get("data").cloned().unwrap_or(J::Null) == data, errs, j2.get("errors").cloned().unwrap_or(J::Null)))
                    }
                    Err(e) => Some((false, 1, json!(format!("request error: {e:?}")))),
                }
            } else {
                None
            };
            Ok((data, exec, overlay))
        });
        match r {
            Ok(Ok((data, exec, overlay))) => {
                out.line(&json!({"overlay": if overlay.is_null() { json!(["none"]) } else { abstract_value(&overlay) }, "overlayRaw": overlay, "typenameAliasPrefix": "tn", "schema": si + 1, "kind": kind, "sels": sels, "fragments": used, "data": abstract_value(&data), "minList": min, "maxList": max,
                    "executed": exec.is_some(), "reproduced": exec.as_ref().map(|e| e.0).unwrap_or(true), "execErrors": exec.as_ref().map(|e| e.1).unwrap_or(0),
                    "errorsText": exec.as_ref().map(|e| e.2.clone()).unwrap_or(J::Null), "source": source, "text": text, "raw": data, "crash": false}));
                emitted += 1;
            }
            Ok(Err(_exhausted)) => continue,
            Err(p) => {
                out.line(&json!({"overlay": ["none"], "schema": si + 1, "kind": kind, "sels": sels, "fragments": used, "data": ["null"], "minList": min, "maxList": max, "executed": false, "reproduced": true,
                    "execErrors": 0, "source": source, "text": text, "crash": true, "panic": p}));
                emitted += 1;
            }
        }
    }
}
