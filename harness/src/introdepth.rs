//! C25: introspection depth limit vs IntroDepth.tla.
use crate::util::*;
use apollo_compiler::{introspection, ExecutableDocument, Schema};
use serde_json::{json, Value as J};

fn render(sels: &J, out: &mut String, k: &mut usize) {
    for s in sels.as_array().unwrap() {
        *k += 1;
        match s[0].as_str().unwrap() {
            "list" => {
                let f = ["interfaces", "possibleTypes"][*k % 2];
                out.push_str(&format!(" a{k}: {f} {{ name"));
                render(&s[1], out, k);
                out.push_str(" }");
            }
            "plain" => {
                out.push_str(&format!(" a{k}: ofType {{ name"));
                render(&s[1], out, k);
                out.push_str(" }");
            }
            "inline" => {
                out.push_str(if *k % 2 == 0 { " ... on __Type { name" } else { " ... { name" });
                render(&s[1], out, k);
                out.push_str(" }");
            }
            _ => out.push_str(&format!(" ...{}", s[1].as_str().unwrap())),
        }
    }
}

fn mentions(sels: &J, f: &str) -> bool {
    sels.as_array().unwrap().iter().any(|s| if s[0] == "spread" { s[1] == f } else { mentions(&s[1], f) })
}

/// stdin: ["CASE", op, {f1, f2}, rejects]
pub fn replay(_args: &[String]) {
    silence_panics();
    let schema = Schema::parse_and_validate("type Query { q: Int }", "s.graphql").unwrap();
    let mut out = Out::new();
    let (mut n, mut bad, mut nontrivial) = (0u64, 0u64, 0u64);
    read_lines(|v| {
        n += 1;
        let expect = v[3].as_bool().unwrap();
        let (op, f1, f2) = (&v[1], &v[2]["f1"], &v[2]["f2"]);
        let use_f1 = mentions(op, "f1");
        let use_f2 = mentions(op, "f2") || (use_f1 && mentions(f1, "f2"));
        if use_f1 || use_f2 {
            nontrivial += 1;
        }
        let mut k = 0;
        let mut doc = String::from("{ __type(name: \"Query\") { name");
        render(op, &mut doc, &mut k);
        doc.push_str(" } }");
        if use_f1 {
            doc.push_str(" fragment f1 on __Type { name");
            render(f1, &mut doc, &mut k);
            doc.push_str(" }");
        }
        if use_f2 {
            doc.push_str(" fragment f2 on __Type { name");
            render(f2, &mut doc, &mut k);
            doc.push_str(" }");
        }
        let r = guarded(|| {
            let d = ExecutableDocument::parse_and_validate(&schema, doc.clone(), "q.graphql").map_err(|e| e.errors.to_string())?;
            let operation = d.operations.get(None).map_err(|_| "no operation".to_string())?;
            Ok::<bool, String>(introspection::check_max_depth(&d, operation).is_err())
        });
        let why = match r {
            Err(p) => Some(format!("panic: {p}")),
            Ok(Err(e)) => Some(format!("tool: rendered operation is invalid: {}", e.lines().next().unwrap_or(""))),
            Ok(Ok(got)) => {
                if got != expect { Some(format!("check_max_depth rejects = {got}, reference = {expect}")) } else { None }
            }
        };
        if let Some(w) = why {
            bad += 1;
            out.line(&json!({"bad": true, "op": v[1], "frags": v[2], "doc": doc, "why": [w]}));
        }
    });
    out.line(&json!({"summary": true, "cases": n, "bad": bad, "nontrivial": nontrivial}));
}
