---------------------------- MODULE MC_Determinism ----------------------------
EXTENDS Determinism, TLC
CONSTANT Variant      \* "indexset" (the code) | "hashset" (negative test: TLC must refute Deterministic)

Missing == {"Int", "Float", "ID"}
VARIABLES site, input, perm1, perm2
vars == <<site, input, perm1, perm2>>

Init ==
  \/ /\ site = "A" /\ \E ro \in Perms(Missing) : input = ro
     /\ \E p \in Perms(Missing), q \in Perms(Missing) : perm1 = p /\ perm2 = q
  \/ /\ site = "B"
     /\ \E locs \in [{"a", "b", "c"} -> 1..3] :
          /\ \A x, y \in {"a", "b", "c"} : x # y => locs[x] # locs[y]     \* variables have distinct locations
          /\ input = {<<n, locs[n]>> : n \in {"a", "b", "c"}}
     /\ \E p \in Perms(input), q \in Perms(input) : perm1 = p /\ perm2 = q
  \/ /\ site = "C" /\ \E imp \in SUBSET {"T1", "T2", "T3"} : input = imp
     /\ perm1 = <<>> /\ perm2 = <<>>
Next == UNCHANGED vars
Spec == Init /\ [][Next]_vars

Observable(p) ==
  CASE site = "A" -> SiteA(Variant, <<"Query", "String", "Boolean">>, input, p)
    [] site = "B" -> SiteB(p)
    [] OTHER -> SiteC(<<"T1", "T2", "T3">>, input)

\* two processes (two hash orders) observe the same thing
Deterministic == Observable(perm1) = Observable(perm2)
=============================================================================
