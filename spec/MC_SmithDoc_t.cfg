SPECIFICATION SSpec
CONSTANTS
  Names <- NamePool
  FieldNames <- FieldPool
  MaxI = 3
  MaxO = 1
  MaxF = 2
  MaxOps = 2
INVARIANT GeneratedOK
CHECK_DEADLOCK FALSE
