SPECIFICATION SSpec
CONSTANTS
  Names <- SmallPool
  FieldNames <- FieldPool
  MaxI = 2
  MaxO = 1
  MaxF = 2
  MaxOps = 2
INVARIANT GeneratedOK
CHECK_DEADLOCK FALSE
