SPECIFICATION Spec
INVARIANT Inv
CHECK_DEADLOCK FALSE
CONSTANTS
  OpLen = 2
  F1Len = 2
  F2Len = 2
