---------------------------- MODULE Trace_FileId ----------------------------
(* Trace validation for C31: every atomic operation on the real counter, as     *)
(* recorded by the hook under a forced schedule, must follow register           *)
(* semantics (binding), and every returned id must be new and not reserved      *)
(* until the counter wraps (property).  Values near 2^63 are logged shifted:    *)
(* TAGM stands for 2^63.  Rejections are recorded with a reason; a run          *)
(* ("Start" ... ) is one segment.                                               *)
EXTENDS Naturals, Sequences, FiniteSets, TLC, Json, IOUtils
Rec == ndJsonDeserialize(IOEnv.TRACE)
TAGM == 1000000

VARIABLES l, reg, ids, wrapped, fails, run
vars == <<l, reg, ids, wrapped, fails, run>>
Ev == Rec[l]

Init == l = 1 /\ reg = 3 /\ ids = {} /\ wrapped = FALSE /\ fails = {} /\ run = 0

OpOK ==
  CASE Ev.op = "fetch_add" -> Ev.r = reg
    [] Ev.op = "load" -> Ev.r = reg
    [] Ev.op = "swap" -> Ev.r = reg
    [] Ev.op = "compare_exchange" -> Ev.r = reg
    [] OTHER -> TRUE
RegAfter ==
  CASE Ev.op = "fetch_add" -> reg + Ev.a
    [] Ev.op = "store" -> Ev.a
    [] Ev.op = "swap" -> Ev.a
    [] Ev.op = "compare_exchange" -> (IF reg = Ev.a THEN Ev.b ELSE reg)
    [] OTHER -> reg

Next ==
  /\ l <= Len(Rec) /\ l' = l + 1
  /\ CASE Ev.e = "Start" ->
            /\ reg' = Ev.reg /\ ids' = {} /\ wrapped' = (Ev.reg >= TAGM) /\ run' = run + 1 /\ UNCHANGED fails
       [] Ev.e = "Op" ->
            /\ reg' = RegAfter /\ wrapped' = (wrapped \/ reg >= TAGM \/ RegAfter >= TAGM)
            /\ fails' = IF OpOK THEN fails ELSE fails \cup {<<run, l, "register-semantics">>}
            /\ UNCHANGED <<ids, run>>
       [] Ev.e = "Return" ->
            /\ ids' = ids \cup {Ev.id}
            /\ fails' = fails \cup (IF ~wrapped /\ Ev.id \in ids THEN {<<run, l, "duplicate-id">>} ELSE {})
                              \cup (IF Ev.id \in {0, 1, 2} \/ Ev.id >= TAGM THEN {<<run, l, "reserved-or-tagged-id">>} ELSE {})
            /\ UNCHANGED <<reg, wrapped, run>>
       [] OTHER -> /\ fails' = fails \cup {<<run, l, "crash">>} /\ UNCHANGED <<reg, ids, wrapped, run>>
Spec == Init /\ [][Next]_vars
Report == (l = Len(Rec) + 1) => PrintT(ToJson(<<"RESULT", l - 1, fails>>))
=============================================================================
