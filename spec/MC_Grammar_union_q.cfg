SPECIFICATION Spec
INVARIANT Inv
CHECK_DEADLOCK FALSE
CONSTANTS
  MaxLen = 4
  Prefix <- PUnion
  Suffix <- PNone
  Alphabet = {"=", "|", "n1", "@", "(", ")", ":", "int", "type"}
