SPECIFICATION Spec
INVARIANT Inv
CHECK_DEADLOCK FALSE
CONSTANTS
  MaxNest = 3
  MaxLimit = 3
  MaxOps = 8
