SPECIFICATION Spec
INVARIANT Inv
CHECK_DEADLOCK FALSE
CONSTANTS
  MaxLen = 4
  Prefix <- PFrag
  Suffix <- PNone
  Alphabet = {"n1", "on", "@", "{", "}", "...", "(", ")", ":"}
