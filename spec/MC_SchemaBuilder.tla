-------------------------- MODULE MC_SchemaBuilder --------------------------
(* All histories (sequences of distinct items) up to MaxLen over an item       *)
(* universe chosen by the configuration.  For every history TLC checks the     *)
(* model-level properties and prints a replay case.                            *)
EXTENDS SchemaBuilder, TLC, Json

CONSTANTS Items, MaxLen

It(tag, kind, name, dirs, ifaces, mems) ==
  [tag |-> tag, kind |-> kind, name |-> name, dirs |-> dirs, ifaces |-> ifaces, mems |-> mems]

\* ---- item universes (kind-pair configurations) -------------------------------
ItemsObject == {
  It("def", "object", "X", <<>>, <<>>, <<"f">>),
  It("def", "object", "X", <<"d">>, <<"I">>, <<"f", "g">>),
  It("ext", "object", "X", <<>>, <<>>, <<"a">>),
  It("ext", "object", "X", <<"d">>, <<>>, <<"b">>),
  It("ext", "object", "X", <<"e">>, <<"J">>, <<>>),
  It("ext", "object", "X", <<>>, <<"I">>, <<"f">>),
  It("ext", "interface", "X", <<"d">>, <<>>, <<>>),
  It("def", "interface", "X", <<>>, <<>>, <<"f">>) }

\* interfaces: every single kind of contribution an extension can make on its own (implements only, directive only,
\* fields only), and the same for an object extension that only adds an interface
ItemsInterface == {
  It("def", "interface", "X", <<>>, <<>>, <<"f">>),
  It("def", "interface", "X", <<"d">>, <<"I">>, <<"f", "g">>),
  It("ext", "interface", "X", <<>>, <<>>, <<"a">>),
  It("ext", "interface", "X", <<"d">>, <<>>, <<>>),
  It("ext", "interface", "X", <<>>, <<"J">>, <<>>),
  It("ext", "interface", "X", <<>>, <<"I">>, <<"f">>),
  It("ext", "object", "X", <<>>, <<"J">>, <<>>),
  It("def", "object", "X", <<>>, <<>>, <<"f">>) }

ItemsUnionEnum == {
  It("def", "union", "X", <<>>, <<>>, <<"A">>),
  It("def", "union", "X", <<"d">>, <<>>, <<"A", "B">>),
  It("ext", "union", "X", <<>>, <<>>, <<"C">>),
  It("ext", "union", "X", <<"d">>, <<>>, <<"B">>),
  It("ext", "union", "X", <<"e">>, <<>>, <<>>),
  It("def", "enum", "X", <<>>, <<>>, <<"V">>),
  It("ext", "enum", "X", <<"d">>, <<>>, <<"W">>),
  It("def", "object", "X", <<>>, <<>>, <<"f">>) }

ItemsScalarInput == {
  It("def", "scalar", "X", <<>>, <<>>, <<>>),
  It("def", "scalar", "X", <<"d">>, <<>>, <<>>),
  It("ext", "scalar", "X", <<"d">>, <<>>, <<>>),
  It("ext", "scalar", "X", <<"e">>, <<>>, <<>>),
  It("def", "input", "X", <<>>, <<>>, <<"f">>),
  It("ext", "input", "X", <<"d">>, <<>>, <<"g">>),
  It("ext", "input", "X", <<>>, <<>>, <<"h">>),
  It("ext", "input", "X", <<"e">>, <<>>, <<"f">>) }

ItemsSchema == {
  It("def", "object", "Query", <<>>, <<>>, <<"f">>),
  It("def", "object", "Mutation", <<>>, <<>>, <<"f">>),
  It("def", "object", "Q", <<>>, <<>>, <<"f">>),
  It("def", "schema", "", <<>>, <<>>, <<<<"query", "Q">>>>),
  It("def", "schema", "", <<>>, <<>>, <<<<"query", "Query">>>>),          \* could be left implicit — unless an extension adds to it
  It("def", "schema", "", <<"d">>, <<>>, <<<<"query", "Query">>, <<"mutation", "Mutation">>>>),
  It("ext", "schema", "", <<"d">>, <<>>, <<>>),
  It("ext", "schema", "", <<>>, <<>>, <<<<"mutation", "Mutation">>>>),
  It("ext", "schema", "", <<"e">>, <<>>, <<<<"subscription", "Q">>>>),
  It("ext", "schema", "", <<>>, <<>>, <<<<"query", "Mutation">>>>) }     \* same operation as the definitions, another type

ItemsDirectives == {
  It("def", "directive", "d", <<>>, <<>>, <<>>),
  It("def", "directive", "deprecated", <<>>, <<>>, <<>>),
  It("def", "directive", "skip", <<>>, <<>>, <<>>),
  It("def", "object", "Query", <<"d">>, <<>>, <<"f">>),
  It("ext", "object", "Query", <<"deprecated">>, <<>>, <<"g">>),
  It("def", "scalar", "S", <<"specifiedBy">>, <<>>, <<>>) }

VARIABLE h
Init == h = <<>>
Next == /\ Len(h) < MaxLen
        /\ \E it \in Items : (\A k \in 1..Len(h) : h[k] # it) /\ h' = Append(h, it)
Spec == Init /\ [][Next]_h

S == BuildSeq(h)

\* C12 (what the property demands): the INTENDED serializer (extensions in their original order) round-trips
RoundTripIntended == RoundTripBy(h, TRUE)
\* the serializer as written (extensions in discovery order) - kept as a diagnostic, TLC reports the histories
\* on which it differs; those are replayed on the real code before anything is said
RoundTripDiscovery == RoundTripBy(h, FALSE)

\* C13: an extension directly after its definition can be moved directly before it
SwapAt(s, k) == [s EXCEPT ![k] = s[k + 1], ![k + 1] = s[k]]
Commute ==
  \A k \in 1..(Len(h) - 1) :
     (h[k].tag = "def" /\ h[k + 1].tag = "ext" /\ h[k].name = h[k + 1].name
        /\ (h[k].kind = "schema") = (h[k + 1].kind = "schema") /\ h[k].kind # "directive")
     => SameOutcome(BuildSeq(h), BuildSeq(SwapAt(h, k)))
\* C13: cutting the sequence into sources is immaterial (true by construction of BuildSeq; stated for the record)
Chunking == \A k \in 0..Len(h) : AddAll(AddAll(EmptyState, SubSeq(h, 1, k)), SubSeq(h, k + 1, Len(h))) = AddAll(EmptyState, h)

Emit == PrintT(ToJson(<<"CASE", h,
                        [errors |-> S.errors, order |-> Order(S)],
                        IF S.errors = <<>> THEN Order(BuildSeq(ToAst(S, FALSE))) ELSE Order(S)>>))

Inv == RoundTripIntended /\ Commute /\ Chunking /\ Emit
=============================================================================
