#!/usr/bin/env python3
"""Generates the MC_Grammar_*.cfg files (kept in git; rerun after editing the tables)."""
FULL = ["!", "$", "&", "(", ")", "...", ":", "=", "@", "[", "]", "{", "|", "}",
        "query", "mutation", "subscription", "fragment", "on", "schema", "scalar", "type", "interface", "union", "enum",
        "input", "extend", "directive", "implements", "repeatable", "true", "false", "null",
        "FIELD", "OBJECT", "n1", "n2", "int", "float", "str", "bstr"]


def cfg(name, maxlen, alpha, pre="PNone", suf="PNone"):
    open("MC_Grammar_%s.cfg" % name, "w").write(
        "SPECIFICATION Spec\nINVARIANT Inv\nCHECK_DEADLOCK FALSE\nCONSTANTS\n  MaxLen = %d\n  Prefix <- %s\n  Suffix <- %s\n  Alphabet = {%s}\n"
        % (maxlen, pre, suf, ", ".join('"%s"' % a for a in alpha)))


TABLE = {
    # name: (alphabet, prefix, suffix, quick len, thorough len)
    "full": (FULL, "PNone", "PNone", 3, 4),
    "exec": (["{", "}", "(", ")", ":", "$", "n1", "int", "...", "on", "@", "query", "fragment"], "PNone", "PNone", 4, 5),
    "tsys": (["type", "n1", "{", "}", ":", "(", ")", "=", "@", "extend", "schema", "query", "[", "]", "!", "implements", "&", "str"], "PNone", "PNone", 3, 4),
    "args": (["n1", ":", "int", "[", "]", "{", "}", "$", "str", "true"], "PArgs", "SArgs", 4, 6),
    "fields": (["n1", ":", "(", ")", "[", "]", "!", "=", "int", "@", "str"], "PFields", "SBrace", 4, 5),
    "vars": (["$", "n1", ":", "[", "]", "!", "=", "int", "@", "{", "}"], "PVars", "SVars", 4, 5),
    "dirdef": (["on", "|", "FIELD", "OBJECT", "repeatable", "(", ")", "n1", ":", "str", "@"], "PDirective", "PNone", 4, 5),
    "extend": (["type", "interface", "union", "enum", "input", "scalar", "schema", "n1", "@", "{", "}", "=", "|", "&", "implements", ":", "query"], "PExtend", "PNone", 3, 4),
    "enum": (["n1", "true", "null", "@", "str", "(", ")", ":", "int", "}"], "PEnum", "SBrace", 4, 6),
    "union": (["=", "|", "n1", "@", "(", ")", ":", "int", "type"], "PUnion", "PNone", 4, 6),
    "input": (["n1", ":", "[", "]", "!", "=", "int", "@", "str", "{", "}"], "PInput", "SBrace", 4, 5),
    "sel": (["n1", ":", "...", "on", "@", "{", "}", "(", ")", "int"], "PSel", "SBrace", 4, 6),
    "schema": (["@", "n1", "{", "}", "query", "mutation", ":", "(", ")", "int", "str"], "PSchema", "PNone", 4, 5),
    "c07type": (["n1", "[", "]", "!", "{", "}", ":", "int"], "PNone", "PNone", 5, 6),
    "c07fs": (["n1", "{", "}", ":", "(", ")", "int", "...", "on", "@"], "PNone", "PNone", 4, 5),
    "items": (["{", "}", "n1", ":", "[", "]", "!", "bad", "uni", "comma", "comment", "str", "...", "$", "(", "type"], "PNone", "PNone", 3, 4),
    "extschema": (["@", "n1", "{", "}", "query", ":", "mutation", "(", ")", "int"], "PExtSchema", "PNone", 4, 6),
    "cvardir": (["n1", ":", "$", "int", "[", "]", "{", "}", "str"], "PVarDirArg", "SVarDirArg", 4, 6),
    "cvardef": (["n1", ":", "$", "int", "[", "]", "{", "}", "@", "(", ")"], "PVarDefault", "SVars", 4, 5),
    "ctypedir": (["n1", ":", "$", "int", "[", "]", "{", "}", "str"], "PTypeDirArg", "STypeDirArg", 4, 6),
    "cargdef": (["n1", ":", "$", "int", "[", "]", "{", "}", "@", "str"], "PArgDefault", "SArgDefault", 4, 6),
    "frag": (["n1", "on", "@", "{", "}", "...", "(", ")", ":"], "PFrag", "PNone", 4, 6),
}

if __name__ == "__main__":
    for name, (alpha, pre, suf, q, t) in TABLE.items():
        cfg(name + "_q", q, alpha, pre, suf)
        cfg(name + "_t", t, alpha, pre, suf)
