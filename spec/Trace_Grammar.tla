--------------------------- MODULE Trace_Grammar ---------------------------
(* Trace validation for C05: each line records the non-ignored token kinds   *)
(* of one document (from the real lexer), whether the real parser reported   *)
(* no error, and the top-level definitions of its syntax tree.               *)
EXTENDS Grammar, TLC, Json, IOUtils

Rec == ndJsonDeserialize(IOEnv.TRACE)

VARIABLES l, bad
vars == <<l, bad>>

LineOK(r) ==
  CASE r.mode = "type"     -> r.ok = IsTypeRef(r.toks)
    [] r.mode = "fieldset" -> r.ok = IsFieldSet(r.toks)
    [] OTHER -> LET m == InGrammar(r.toks) IN
                  /\ r.ok = m
                  /\ m => (r.top = TopLevel(r.toks))

\* membership only (used to attribute a disagreement to a listed defect after repairing it)
MemberOnly(r) == InGrammar(r.toks)

Init == l = 1 /\ bad = {}
Next == /\ l <= Len(Rec)
        /\ l' = l + 1
        /\ bad' = IF LineOK(Rec[l]) THEN bad ELSE bad \cup {l}
Spec == Init /\ [][Next]_vars
NextMember == /\ l <= Len(Rec)
              /\ l' = l + 1
              /\ bad' = IF MemberOnly(Rec[l]) THEN bad ELSE bad \cup {l}
SpecMember == Init /\ [][NextMember]_vars
Report == (l = Len(Rec) + 1) => PrintT(ToJson(<<"RESULT", l - 1, bad>>))
=============================================================================
