--------------------------- MODULE BuiltinScalars ---------------------------
(***************************************************************************)
(* The bookkeeping of built-in scalars by schema validation                *)
(* (schema/validation.rs: BuiltInScalars, validate_schema): a Valid<Schema>*)
(* contains exactly the built-in scalars that are referenced.  C16.        *)
(***************************************************************************)
EXTENDS Naturals, Sequences, FiniteSets

Scalars == {"Int", "Float", "String", "Boolean", "ID"}
\* referenced by the introspection types and the built-in directives of every schema
AlwaysUsed == {"String", "Boolean"}

VARIABLES present,   \* built-in scalars in the type map, in map order (a sequence without duplicates)
          refs,      \* built-in scalars referenced by user fields (Query's fields in this model)
          valid      \* the schema is wrapped in Valid<..> (nothing changed since the last validation)
bvars == <<present, refs, valid>>

SetOf(s) == {s[k] : k \in 1..Len(s)}
InitScalars ==      \* a freshly built schema has all five, in the order of built_in_types.graphql
  /\ present = <<"Int", "Float", "String", "Boolean", "ID">> /\ refs = {} /\ valid = FALSE

Used == refs \cup AlwaysUsed

\* first-reference order of the scalars that have to be restored: the user's fields are visited in order;
\* the model leaves that order to the caller (argument `order` is a permutation of the missing ones)
Validate(order) ==
  /\ SetOf(order) = Used \ SetOf(present) /\ Len(order) = Cardinality(SetOf(order))
  /\ present' = SelectSeq(present, LAMBDA s : s \in Used) \o order
  /\ valid' = TRUE /\ UNCHANGED refs
AddFieldRef(s) == /\ refs' = refs \cup {s} /\ valid' = FALSE /\ UNCHANGED present
DropFieldRef(s) == /\ s \in refs /\ refs' = refs \ {s} /\ valid' = FALSE /\ UNCHANGED present

\* ---- properties -------------------------------------------------------------
ExactlyUsed == valid => SetOf(present) = Used                 \* present = referenced
AlwaysThere == valid => AlwaysUsed \subseteq SetOf(present)
NoDuplicates == Len(present) = Cardinality(SetOf(present))
=============================================================================
