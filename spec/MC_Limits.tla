------------------------------ MODULE MC_Limits ------------------------------
(* (1) LimitTracker model-checked over all balanced call sequences: the      *)
(*     environment enters (CheckAndIncrement; returns early when reached)    *)
(*     and leaves (Decrement) like the grammar functions do.                 *)
(* (2) Every nest up to MaxNest is emitted as a replay case with the         *)
(*     reference nesting depth and item count.                               *)
EXTENDS Limits, TLC, Json

CONSTANTS MaxNest, MaxLimit, MaxOps

VARIABLES t,        \* the tracker
          open,     \* successful increments not yet decremented (the call stack of the environment)
          attempts, \* the history: deepest attempted level so far
          ops,
          sels, vals, types, phase
vars == <<t, open, attempts, ops, sels, vals, types, phase>>

Init == /\ \E lim \in 0..MaxLimit : t = NewTracker(lim)
        /\ open = 0 /\ attempts = 0 /\ ops = 0
        /\ sels = <<>> /\ vals = <<>> /\ types = 0 /\ phase = "tracker"

Enter == /\ phase = "tracker" /\ ops < MaxOps
         /\ t' = CheckAndIncrement(t)
         /\ open' = IF Reached(t) THEN open ELSE open + 1
         /\ attempts' = Max(attempts, open + 1)
         /\ ops' = ops + 1
         /\ UNCHANGED <<sels, vals, types, phase>>
Leave == /\ phase = "tracker" /\ open > 0 /\ ops < MaxOps
         /\ CanDecrement(t)
         /\ t' = Decrement(t) /\ open' = open - 1 /\ ops' = ops + 1
         /\ UNCHANGED <<attempts, sels, vals, types, phase>>

\* case generation: grow a nest (only from the initial tracker state with limit 0 to avoid duplicates)
Grow == /\ ops = 0 /\ t.limit = 0
        /\ phase' = "nest"
        /\ \/ /\ Len(vals) = 0 /\ Len(sels) < MaxNest /\ \E c \in {"sel", "inline"} : sels' = Append(sels, c)
              /\ UNCHANGED <<vals, types>>
           \/ /\ Len(sels) + Len(vals) < MaxNest /\ \E c \in {"list", "obj"} : vals' = Append(vals, c)
              /\ UNCHANGED <<sels, types>>
           \/ /\ types < MaxNest + 1 /\ types' = types + 1 /\ UNCHANGED <<sels, vals>>
        /\ UNCHANGED <<t, open, attempts, ops>>

Next == Enter \/ Leave \/ Grow
Spec == Init /\ [][Next]_vars

\* ---- tracker invariants (C04) ------------------------------------------------
Balanced     == t.cur = open                       \* increments and decrements stay balanced
WithinLimit  == t.cur <= t.limit
HighIsMax    == t.high = Min(attempts, t.limit + 1) \* high-water mark = deepest attempt, capped at limit + 1
NeverUnder   == (phase = "tracker" /\ open > 0) => CanDecrement(t)
TrackerInv   == Balanced /\ WithinLimit /\ HighIsMax /\ NeverUnder

Emit == (phase = "nest" /\ ops = 0) =>
          PrintT(ToJson(<<"CASE", DocToks(sels, vals, types), NestingDepth(sels, vals, types),
                          ItemCount(DocToks(sels, vals, types)), sels, vals, types>>))
Inv == TrackerInv /\ Emit
=============================================================================
