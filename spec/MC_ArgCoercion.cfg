SPECIFICATION Spec
INVARIANT Inv
CHECK_DEADLOCK FALSE
