---------------------------- MODULE Introspection ----------------------------
(***************************************************************************)
(* The result of the standard full introspection query as a function of an  *)
(* abstract schema (C24): the reference (specification section 4 with the    *)
(* reference implementation's choices where the text is silent: which        *)
(* built-in scalars are listed, [] vs null, default values printed from the  *)
(* COERCED value in canonical form).                                         *)
(*                                                                           *)
(* S = [description, query, mutation, subscription, types, directives]       *)
(* type = [kind, name, desc, specifiedBy, fields, interfaces, members,       *)
(*         values, inputFields];  field = [name, desc, args, type, dep]      *)
(* input value = [name, desc, type, default, dep]; dep = [is, reason]        *)
(* type ref = <<"named", n>> | <<"list", t>> | <<"nonnull", t>>              *)
(* value = <<"int", n>> | <<"float", text, canonical>> | <<"bool", b>>       *)
(*   | <<"str", raw, printed, integerLike>> | <<"enum", name>> | <<"null">>  *)
(*   | <<"list", seq>> | <<"obj", seq of <<name, value>>>> | <<"none">>      *)
(* absent JSON values are the string "<null>".                               *)
(***************************************************************************)
EXTENDS Naturals, Integers, Sequences, FiniteSets, TLC

CONSTANTS S,
          Inc          \* the value of includeDeprecated given to fields / args / inputFields / enumValues
NULL == "<null>"                        \* an absent string
\* an absent list / object: the placeholder has the SHAPE of what it stands for (a sequence, a record), because TLC
\* raises an evaluation error, not FALSE, when it compares a record with a sequence or a string
None == [null |-> TRUE, v |-> <<>>]
NoneRec == [null |-> TRUE, v |-> [absent |-> TRUE]]
NoneSet == [null |-> TRUE, v |-> {}]
Opt(x) == [null |-> FALSE, v |-> x]
BuiltinScalars == {"Int", "Float", "String", "Boolean", "ID"}
IntrospectionKinds == [n \in {"__Schema", "__Type", "__Field", "__InputValue", "__EnumValue", "__Directive"} |-> "OBJECT"]
                      @@ [n \in {"__TypeKind", "__DirectiveLocation"} |-> "ENUM"]
Range(s) == {s[k] : k \in 1..Len(s)}
UserTypeNames == {S.types[k].name : k \in 1..Len(S.types)}
TypeNamed(n) == S.types[CHOOSE k \in 1..Len(S.types) : S.types[k].name = n]
KindOf(n) == IF n \in BuiltinScalars THEN "SCALAR"
             ELSE IF n \in DOMAIN IntrospectionKinds THEN IntrospectionKinds[n]
             ELSE TypeNamed(n).kind

RECURSIVE TypeRef(_)
TypeRef(t) == CASE t[1] = "named" -> [kind |-> KindOf(t[2]), name |-> t[2], ofType |-> NoneRec]
                [] t[1] = "list" -> [kind |-> "LIST", name |-> NULL, ofType |-> Opt(TypeRef(t[2]))]
                [] OTHER -> [kind |-> "NON_NULL", name |-> NULL, ofType |-> Opt(TypeRef(t[2]))]
RECURSIVE NamedOf(_)
NamedOf(t) == IF t[1] = "named" THEN t[2] ELSE NamedOf(t[2])

\* ---- default values: the reference prints the value COERCED to the type, in canonical form -------------------
RECURSIVE Join(_, _)
Join(ss, sep) == IF ss = <<>> THEN "" ELSE IF Len(ss) = 1 THEN ss[1] ELSE ss[1] \o sep \o Join(Tail(ss), sep)
IntText(n) == IF n < 0 THEN "-" \o ToString(0 - n) ELSE ToString(n)
HasKey(obj, k) == \E j \in 1..Len(obj) : obj[j][1] = k
ValueAt(obj, k) == obj[CHOOSE j \in 1..Len(obj) : obj[j][1] = k][2]
RECURSIVE Canon(_, _)
Canon(t, v) ==
  IF v[1] = "null" THEN "null"
  ELSE IF t[1] = "nonnull" THEN Canon(t[2], v)
  ELSE IF t[1] = "list"
       THEN (IF v[1] = "list" THEN "[" \o Join([k \in 1..Len(v[2]) |-> Canon(t[2], v[2][k])], ", ") \o "]"
             ELSE "[" \o Canon(t[2], v) \o "]")                              \* a single item is coerced to a list of one
  ELSE LET n == t[2] IN
       IF n \in UserTypeNames /\ TypeNamed(n).kind = "INPUT_OBJECT"
       THEN LET fs == TypeNamed(n).inputFields
                present == SelectSeq([k \in 1..Len(fs) |-> k],
                                     LAMBDA k : HasKey(v[2], fs[k].name) \/ fs[k].default[1] # "none")
            IN "{" \o Join([i \in 1..Len(present) |->
                              LET f == fs[present[i]] IN
                                f.name \o ": " \o (IF HasKey(v[2], f.name) THEN Canon(f.type, ValueAt(v[2], f.name))
                                                   ELSE Canon(f.type, f.default))], ", ") \o "}"
       ELSE CASE v[1] = "int" -> IntText(v[2])
              [] v[1] = "float" -> v[3]
              [] v[1] = "bool" -> IF v[2] THEN "true" ELSE "false"
              [] v[1] = "enum" -> v[2]
              [] v[1] = "str" -> IF n = "ID" /\ v[4] THEN v[2] ELSE v[3]        \* an integer-like ID prints as an integer
              [] OTHER -> "?"

\* ---- entries ---------------------------------------------------------------------------------------------------
Keep(seq) == IF Inc THEN seq ELSE SelectSeq(seq, LAMBDA x : ~x.dep.is)      \* deprecated entries are listed only on request
InputValue(i) == [name |-> i.name, description |-> i.desc, type |-> TypeRef(i.type),
                  defaultValue |-> IF i.default[1] = "none" THEN NULL ELSE Canon(i.type, i.default),
                  isDeprecated |-> i.dep.is, deprecationReason |-> IF i.dep.is THEN i.dep.reason ELSE NULL]
Field(f) == [name |-> f.name, description |-> f.desc, args |-> [k \in 1..Len(Keep(f.args)) |-> InputValue(Keep(f.args)[k])],
             type |-> TypeRef(f.type), isDeprecated |-> f.dep.is, deprecationReason |-> IF f.dep.is THEN f.dep.reason ELSE NULL]
EnumValue(v) == [name |-> v.name, description |-> v.desc, isDeprecated |-> v.dep.is,
                 deprecationReason |-> IF v.dep.is THEN v.dep.reason ELSE NULL]
Named(n) == TypeRef(<<"named", n>>)
PossibleTypes(t) ==
  IF t.kind = "UNION" THEN {Named(t.members[k]) : k \in 1..Len(t.members)}
  ELSE {Named(S.types[k].name) : k \in {j \in 1..Len(S.types) : S.types[j].kind = "OBJECT" /\ t.name \in Range(S.types[j].interfaces)}}

\* one entry of __schema.types for a user-defined type; possibleTypes is a SET (its order follows the type order)
TypeEntry(t) ==
  [kind |-> t.kind, name |-> t.name, description |-> t.desc,
   specifiedByURL |-> IF t.kind = "SCALAR" THEN t.specifiedBy ELSE NULL,
   fields |-> IF t.kind \in {"OBJECT", "INTERFACE"} THEN Opt([k \in 1..Len(Keep(t.fields)) |-> Field(Keep(t.fields)[k])]) ELSE None,
   inputFields |-> IF t.kind = "INPUT_OBJECT" THEN Opt([k \in 1..Len(Keep(t.inputFields)) |-> InputValue(Keep(t.inputFields)[k])]) ELSE None,
   interfaces |-> IF t.kind \in {"OBJECT", "INTERFACE"} THEN Opt([k \in 1..Len(t.interfaces) |-> Named(t.interfaces[k])]) ELSE None,
   enumValues |-> IF t.kind = "ENUM" THEN Opt([k \in 1..Len(Keep(t.values)) |-> EnumValue(Keep(t.values)[k])]) ELSE None,
   possibleTypes |-> IF t.kind \in {"INTERFACE", "UNION"} THEN Opt(PossibleTypes(t)) ELSE NoneSet]

\* the same entry read from a response (possibleTypes as a set, duplicates are an error)
NoDupSeq(s) == Cardinality(Range(s)) = Len(s)
ReadEntry(r) == [r EXCEPT !.possibleTypes = IF r.possibleTypes.null THEN NoneSet ELSE Opt(Range(r.possibleTypes.v))]
EntryMatches(r, t) == ReadEntry(r) = TypeEntry(t) /\ (~r.possibleTypes.null => NoDupSeq(r.possibleTypes.v))

\* which built-in scalars the reference lists: String and Boolean always (the introspection types use them),
\* the others when some field, argument, input field or directive argument refers to them
RefsInArgs(args) == {NamedOf(args[k].type) : k \in 1..Len(args)}
Referenced ==
  UNION {UNION {{NamedOf(S.types[k].fields[j].type)} \cup RefsInArgs(S.types[k].fields[j].args) : j \in 1..Len(S.types[k].fields)}
           \cup RefsInArgs(S.types[k].inputFields) : k \in 1..Len(S.types)}
  \cup UNION {RefsInArgs(S.directives[k].args) : k \in 1..Len(S.directives)}
ListedBuiltinScalars == {"String", "Boolean"} \cup (Referenced \cap BuiltinScalars)

BuiltinScalarMatches(r) ==
  /\ r.kind = "SCALAR" /\ r.specifiedByURL = NULL /\ r.fields.null /\ r.inputFields.null /\ r.interfaces.null
  /\ r.enumValues.null /\ r.possibleTypes.null

DirectiveEntry(d) == [name |-> d.name, description |-> d.desc, isRepeatable |-> d.repeatable, locations |-> d.locations,
                      args |-> [k \in 1..Len(Keep(d.args)) |-> InputValue(Keep(d.args)[k])]]
\* built-in directives (descriptions are not compared)
BoolNN == TypeRef(<<"nonnull", <<"named", "Boolean">>>>)
StrNN == TypeRef(<<"nonnull", <<"named", "String">>>>)
Str == TypeRef(<<"named", "String">>)
BuiltinDirectives ==
  [skip |-> [locations |-> {"FIELD", "FRAGMENT_SPREAD", "INLINE_FRAGMENT"}, args |-> <<[name |-> "if", type |-> BoolNN, defaultValue |-> NULL]>>],
   include |-> [locations |-> {"FIELD", "FRAGMENT_SPREAD", "INLINE_FRAGMENT"}, args |-> <<[name |-> "if", type |-> BoolNN, defaultValue |-> NULL]>>],
   deprecated |-> [locations |-> {"FIELD_DEFINITION", "ARGUMENT_DEFINITION", "INPUT_FIELD_DEFINITION", "ENUM_VALUE"},
                   args |-> <<[name |-> "reason", type |-> Str, defaultValue |-> "\"No longer supported\""]>>],
   specifiedBy |-> [locations |-> {"SCALAR"}, args |-> <<[name |-> "url", type |-> StrNN, defaultValue |-> NULL]>>]]
BuiltinDirectiveMatches(r) ==
  LET b == BuiltinDirectives[r.name] IN
    /\ r.isRepeatable = FALSE /\ Range(r.locations) = b.locations /\ NoDupSeq(r.locations)
    /\ Len(r.args) = Len(b.args)
    /\ \A k \in 1..Len(b.args) : r.args[k].name = b.args[k].name /\ r.args[k].type = b.args[k].type
                                 /\ r.args[k].defaultValue = b.args[k].defaultValue /\ r.args[k].isDeprecated = FALSE

\* ---- diagnosis: is a mismatch only in printed default values, and which ------------------------------------------
MaskIV(i) == [i EXCEPT !.defaultValue = ""]
MaskIVs(s) == [k \in 1..Len(s) |-> MaskIV(s[k])]
MaskFields(o) == IF o.null THEN o ELSE Opt([k \in 1..Len(o.v) |-> [o.v[k] EXCEPT !.args = MaskIVs(@)]])
MaskEntry(e) == [e EXCEPT !.fields = MaskFields(@), !.inputFields = IF @.null THEN @ ELSE Opt(MaskIVs(@.v))]
\* apollo-compiler prints the literal as it was written (the known finding is attributed only to exactly that text)
RECURSIVE AsWritten(_)
AsWritten(v) ==
  CASE v[1] = "int" -> IntText(v[2]) [] v[1] = "float" -> v[2] [] v[1] = "str" -> v[3]
    [] v[1] = "bool" -> (IF v[2] THEN "true" ELSE "false") [] v[1] = "enum" -> v[2] [] v[1] = "null" -> "null"
    [] v[1] = "list" -> "[" \o Join([k \in 1..Len(v[2]) |-> AsWritten(v[2][k])], ", ") \o "]"
    [] OTHER -> "{" \o Join([k \in 1..Len(v[2]) |-> v[2][k][1] \o ": " \o AsWritten(v[2][k][2])], ", ") \o "}"
DefaultDiffs(coord, got, ivds) ==      \* got: input values of the response; ivds: the schema's, of equal length
  {<<(IF got[k].defaultValue = AsWritten(ivds[k].default) THEN "default-value-printed-as-written" ELSE "default-value"),
     coord \o "." \o ivds[k].name, InputValue(ivds[k]).defaultValue, got[k].defaultValue>> :
     k \in {j \in 1..Len(ivds) : j <= Len(got) /\ got[j].defaultValue # InputValue(ivds[j]).defaultValue}}
EntryDefaultDiffs(r, t) ==
  LET e == TypeEntry(t) IN
    (IF e.fields.null \/ r.fields.null THEN {}
     ELSE UNION {DefaultDiffs(t.name \o "." \o e.fields.v[k].name, r.fields.v[k].args, Keep(Keep(t.fields)[k].args)) :
                   k \in {j \in 1..Len(e.fields.v) : j <= Len(r.fields.v) /\ Len(r.fields.v[j].args) = Len(e.fields.v[j].args)}})
    \cup (IF e.inputFields.null \/ r.inputFields.null \/ Len(r.inputFields.v) # Len(e.inputFields.v) THEN {}
         ELSE DefaultDiffs(t.name, r.inputFields.v, Keep(t.inputFields)))
EntryProblems(r, t) ==
  IF EntryMatches(r, t) THEN {}
  ELSE IF MaskEntry(ReadEntry(r)) = MaskEntry(TypeEntry(t)) THEN EntryDefaultDiffs(r, t)
  ELSE {<<"type-entry", t.name>>}
DirectiveProblems(r, d) ==
  LET e == DirectiveEntry(d) IN
  IF r = e THEN {}
  ELSE IF [r EXCEPT !.args = MaskIVs(@)] = [e EXCEPT !.args = MaskIVs(@)] THEN DefaultDiffs("@" \o d.name, r.args, Keep(d.args))
  ELSE {<<"directive-entry", d.name>>}

RootRef(n) == IF n = "" THEN NoneRec ELSE Opt([name |-> n])

\* ---- the whole comparison; Problems(resp) is the set of named disagreements ------------------------------------
\* every problem is a tuple (TLC cannot hold strings and tuples in one set)
Sel(name, cond) == IF cond THEN {} ELSE {<<name, "-">>}
Problems(resp) ==
  LET names == [k \in 1..Len(resp.types) |-> resp.types[k].name]
      dnames == [k \in 1..Len(resp.directives) |-> resp.directives[k].name]
  IN UNION {
    Sel("roots-or-description", resp.description = S.description /\ resp.queryType = RootRef(S.query)
                                /\ resp.mutationType = RootRef(S.mutation) /\ resp.subscriptionType = RootRef(S.subscription)),
    Sel("type-listed-twice", NoDupSeq(names)),
    Sel("set-of-types", Range(names) = UserTypeNames \cup ListedBuiltinScalars \cup DOMAIN IntrospectionKinds),
    UNION {EntryProblems(resp.types[k], TypeNamed(resp.types[k].name)) : k \in {j \in 1..Len(resp.types) : resp.types[j].name \in UserTypeNames}},
    {<<"builtin-scalar-entry", resp.types[k].name>> : k \in {j \in 1..Len(resp.types) :
         resp.types[j].name \in BuiltinScalars /\ ~BuiltinScalarMatches(resp.types[j])}},
    {<<"introspection-type-kind", resp.types[k].name>> : k \in {j \in 1..Len(resp.types) :
         resp.types[j].name \in DOMAIN IntrospectionKinds /\ resp.types[j].kind # IntrospectionKinds[resp.types[j].name]}},
    Sel("directive-listed-twice", NoDupSeq(dnames)),
    Sel("set-of-directives", Range(dnames) = {S.directives[k].name : k \in 1..Len(S.directives)} \cup DOMAIN BuiltinDirectives),
    UNION {DirectiveProblems(resp.directives[k], S.directives[CHOOSE i \in 1..Len(S.directives) : S.directives[i].name = resp.directives[k].name]) :
             k \in {j \in 1..Len(resp.directives) : \E i \in 1..Len(S.directives) : S.directives[i].name = resp.directives[j].name}},
    {<<"builtin-directive-entry", resp.directives[k].name>> : k \in {j \in 1..Len(resp.directives) :
         resp.directives[j].name \in DOMAIN BuiltinDirectives /\ ~BuiltinDirectiveMatches(resp.directives[j])}} }
=============================================================================
