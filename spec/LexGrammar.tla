---------------------------- MODULE LexGrammar ----------------------------
(***************************************************************************)
(* Reference lexical grammar of GraphQL (October 2021, section 2.1 and     *)
(* Appendix B "Lexical Tokens"), written from the specification text over  *)
(* sequences of Unicode code points.  It is the oracle of property C03 and *)
(* is reused by Grammar (C05, C07), Strings (C06, C09), Names (C10) and    *)
(* Printer (C08).  Positions are 1-based; an "end" is the position just    *)
(* after the token.                                                        *)
(***************************************************************************)
EXTENDS Naturals, Sequences, FiniteSets

EOFC == 2000000          \* what At returns beyond the end (no code point)

At(s, i) == IF i >= 1 /\ i <= Len(s) THEN s[i] ELSE EOFC

Digit(c)        == c >= 48 /\ c <= 57
NonZeroDigit(c) == c >= 49 /\ c <= 57
Letter(c)       == (c >= 65 /\ c <= 90) \/ (c >= 97 /\ c <= 122)
NameStart(c)    == Letter(c) \/ c = 95
NameCont(c)     == NameStart(c) \/ Digit(c)
HexDigit(c)     == Digit(c) \/ (c >= 65 /\ c <= 70) \/ (c >= 97 /\ c <= 102)
LineTerm(c)     == c = 10 \/ c = 13
WhiteSp(c)      == c = 9 \/ c = 32
BOM             == 65279
Comma           == 44
IgnoredWsChar(c) == WhiteSp(c) \/ LineTerm(c) \/ c = BOM
\* ! $ & ( ) : = @ [ ] { | }     (the spread "..." is handled separately)
Punct1 == {33, 36, 38, 40, 41, 58, 61, 64, 91, 93, 123, 124, 125}
PunctName(c) ==
  CASE c = 33 -> "!" [] c = 36 -> "$" [] c = 38 -> "&" [] c = 40 -> "(" [] c = 41 -> ")"
    [] c = 58 -> ":" [] c = 61 -> "=" [] c = 64 -> "@" [] c = 91 -> "[" [] c = 93 -> "]"
    [] c = 123 -> "{" [] c = 124 -> "|" [] c = 125 -> "}" [] OTHER -> "?"

HexVal(c) == IF Digit(c) THEN c - 48 ELSE IF c >= 97 THEN c - 87 ELSE c - 55
Hex4(s, i) == HexVal(s[i]) * 4096 + HexVal(s[i+1]) * 256 + HexVal(s[i+2]) * 16 + HexVal(s[i+3])
IsSurrogate(v) == v >= 55296 /\ v <= 57343

RECURSIVE ScanDigits(_, _)
ScanDigits(s, i) == IF Digit(At(s, i)) THEN ScanDigits(s, i + 1) ELSE i
RECURSIVE ScanName(_, _)
ScanName(s, i) == IF NameCont(At(s, i)) THEN ScanName(s, i + 1) ELSE i
RECURSIVE ScanComment(_, _)
ScanComment(s, i) == IF i > Len(s) \/ LineTerm(s[i]) THEN i ELSE ScanComment(s, i + 1)

NoTok == <<"none", 0>>

(* Numbers: IntValue / FloatValue with the lookahead restrictions           *)
(*   IntValue   :: IntegerPart [lookahead != {Digit, ".", NameStart}]       *)
(*   FloatValue :: IntegerPart (FractionalPart | ExponentPart | both)       *)
(*                             [lookahead != {Digit, ".", NameStart}]       *)
NumberAt(s, i) ==
  LET j0 == IF At(s, i) = 45 THEN i + 1 ELSE i
      j1 == IF At(s, j0) = 48 THEN j0 + 1
            ELSE IF NonZeroDigit(At(s, j0)) THEN ScanDigits(s, j0 + 1) ELSE 0
  IN IF j1 = 0 THEN NoTok ELSE
     LET j2 == IF At(s, j1) = 46 /\ Digit(At(s, j1 + 1)) THEN ScanDigits(s, j1 + 2) ELSE j1
         k  == IF At(s, j2 + 1) = 43 \/ At(s, j2 + 1) = 45 THEN j2 + 2 ELSE j2 + 1
         j3 == IF (At(s, j2) = 101 \/ At(s, j2) = 69) /\ Digit(At(s, k))
               THEN ScanDigits(s, k + 1) ELSE j2
         la == At(s, j3)
     IN IF Digit(la) \/ la = 46 \/ NameStart(la) THEN NoTok
        ELSE <<(IF j3 > j1 THEN "Float" ELSE "Int"), j3>>

(* Apollo_RejectedEscapes: a \uXXXX escape naming a surrogate code point is  *)
(* rejected (paired surrogates unsupported); the braced form \u{...} is not  *)
(* in the October 2021 grammar at all.                                       *)
Apollo_RejectedEscape(v) == IsSurrogate(v)

IsEscapedChar(c) == c \in {34, 92, 47, 98, 102, 110, 114, 116}

RECURSIVE ScanString(_, _)
\* i is a position inside a quoted string (after the opening quote); result is the end
\* position (after the closing quote) or 0 when the literal is not a valid StringValue.
ScanString(s, i) ==
  LET c == At(s, i) IN
  IF c = EOFC \/ LineTerm(c) THEN 0
  ELSE IF c = 34 THEN i + 1
  ELSE IF c = 92 THEN
     LET d == At(s, i + 1) IN
     IF d = 117 THEN
        IF HexDigit(At(s, i+2)) /\ HexDigit(At(s, i+3)) /\ HexDigit(At(s, i+4)) /\ HexDigit(At(s, i+5))
        THEN IF Apollo_RejectedEscape(Hex4(s, i + 2)) THEN 0 ELSE ScanString(s, i + 6)
        ELSE 0
     ELSE IF IsEscapedChar(d) THEN ScanString(s, i + 2) ELSE 0
  ELSE ScanString(s, i + 1)

RECURSIVE ScanBlock(_, _)
\* i is a position inside a block string (after the opening """)
ScanBlock(s, i) ==
  IF i > Len(s) THEN 0
  ELSE IF s[i] = 92 /\ At(s, i+1) = 34 /\ At(s, i+2) = 34 /\ At(s, i+3) = 34 THEN ScanBlock(s, i + 4)
  ELSE IF s[i] = 34 /\ At(s, i+1) = 34 /\ At(s, i+2) = 34 THEN i + 3
  ELSE ScanBlock(s, i + 1)

StringAt(s, i) ==
  IF At(s, i+1) = 34 /\ At(s, i+2) = 34
  THEN LET e == ScanBlock(s, i + 3) IN IF e = 0 THEN NoTok ELSE <<"StringValue", e>>
  ELSE IF At(s, i+1) = 34 THEN <<"StringValue", i + 2>>      \* "" [lookahead != "]
  ELSE LET e == ScanString(s, i + 1) IN IF e = 0 THEN NoTok ELSE <<"StringValue", e>>

(* The longest token (lexical or ignored) starting at position i, as       *)
(* <<kind, end>>; NoTok if no token of the grammar starts there.           *)
TokenAt(s, i) ==
  LET c == At(s, i) IN
  IF c = EOFC THEN NoTok
  ELSE IF c \in Punct1 THEN <<PunctName(c), i + 1>>
  ELSE IF c = 46 THEN (IF At(s, i+1) = 46 /\ At(s, i+2) = 46 THEN <<"...", i + 3>> ELSE NoTok)
  ELSE IF NameStart(c) THEN <<"Name", ScanName(s, i + 1)>>
  ELSE IF Digit(c) \/ c = 45 THEN NumberAt(s, i)
  ELSE IF c = 34 THEN StringAt(s, i)
  ELSE IF c = 35 THEN <<"Comment", ScanComment(s, i + 1)>>
  ELSE IF c = Comma THEN <<"Comma", i + 1>>
  ELSE IF IgnoredWsChar(c) THEN <<"Whitespace", i + 1>>
  ELSE NoTok

IsIgnoredKind(k) == k \in {"Comment", "Comma", "Whitespace"}

RECURSIVE LexFrom(_, _, _)
\* Greedy tokenisation from position i; acc is the sequence of <<kind, start, end>>.
\* Result: <<ok, tokens>>.
LexFrom(s, i, acc) ==
  IF i > Len(s) THEN <<TRUE, acc>>
  ELSE LET t == TokenAt(s, i) IN
       IF t = NoTok THEN <<FALSE, acc>>
       ELSE LexFrom(s, t[2], Append(acc, <<t[1], i, t[2]>>))

RefLex(s) == LexFrom(s, 1, <<>>)
RefLexOK(s) == RefLex(s)[1]

\* The non-ignored tokens of a successful tokenisation.
Significant(toks) == SelectSeq(toks, LAMBDA t : ~IsIgnoredKind(t[1]))

SubSeqSafe(s, a, b) == IF a > b THEN <<>> ELSE SubSeq(s, a, b)

(* Stand-alone literal predicates used by Names (C10) and Coordinate (C23) *)
IsName(s)  == Len(s) >= 1 /\ NameStart(s[1]) /\ ScanName(s, 2) = Len(s) + 1
IsIntLiteral(s)   == Len(s) >= 1 /\ NumberAt(s, 1) = <<"Int", Len(s) + 1>>
IsFloatLiteral(s) == Len(s) >= 1 /\ NumberAt(s, 1) = <<"Float", Len(s) + 1>>
=============================================================================
