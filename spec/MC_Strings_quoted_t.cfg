SPECIFICATION Spec
INVARIANT Inv
CHECK_DEADLOCK FALSE
CONSTANTS
  Mode = "quoted"
  MaxLen = 7
  Alphabet = {97, 34, 92, 117, 48, 65, 110, 47, 233}
