SPECIFICATION Spec
INVARIANT Inv
CHECK_DEADLOCK FALSE
CONSTANTS
  MaxLen = 4
  Prefix <- PDirective
  Suffix <- PNone
  Alphabet = {"on", "|", "FIELD", "OBJECT", "repeatable", "(", ")", "n1", ":", "str", "@"}
