------------------------------ MODULE MC_Lex ------------------------------
(* Exhaustive enumeration of all strings up to MaxLen over a finite         *)
(* alphabet of class representatives.  Each state is one string; for each   *)
(* state the reference tokenisation is printed as one replay case.          *)
EXTENDS LexGrammar, TLC, Json

CONSTANTS Alphabet, MaxLen, Prefix, Suffix

PfxNone == <<>>
PfxQuote == <<34>>
PfxBlock == <<34, 34, 34>>

VARIABLE str
vars == <<str>>

Init == str = <<>>
Next == /\ Len(str) < MaxLen
        /\ \E c \in Alphabet : str' = Append(str, c)
Spec == Init /\ [][Next]_vars

Full == Prefix \o str \o Suffix

\* Model-level sanity of the reference itself.
TokensContiguous ==
  LET r == RefLex(Full) IN
    /\ \A k \in 1..Len(r[2]) :
         /\ r[2][k][2] = (IF k = 1 THEN 1 ELSE r[2][k-1][3])
         /\ r[2][k][3] > r[2][k][2]
    /\ r[1] => (IF Len(r[2]) = 0 THEN Len(Full) = 0 ELSE r[2][Len(r[2])][3] = Len(Full) + 1)

Emit == PrintT(ToJson(<<"CASE", Full, RefLex(Full)>>))

Inv == TokensContiguous /\ Emit
=============================================================================
