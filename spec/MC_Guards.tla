------------------------------ MODULE MC_Guards ------------------------------
EXTENDS Guards, TLC
\* every graph over Nodes in which every node has at most two references, every root
Succs == {<<>>} \cup {<<a>> : a \in Nodes} \cup {<<a, b>> : a \in Nodes, b \in Nodes}
VARIABLE root
Init == \E g \in [Nodes -> Succs], r \in Nodes : GInit(g, r) /\ root = r
Next == Visit /\ UNCHANGED root
Spec == Init /\ [][Next]_<<gvars, root>>
\* termination: the number of steps is bounded by (edges + 1) per frame ever pushed
Terminates == steps <= 200
Inv == DepthBounded /\ SeenIsPath /\ NoRepeatOnPath /\ OutcomeCorrect(root) /\ Terminates
=============================================================================
