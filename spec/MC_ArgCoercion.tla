--------------------------- MODULE MC_ArgCoercion ---------------------------
(* Every case of the universe below: one argument definition, one way of      *)
(* writing the argument, one variable declaration and one provided value.     *)
(* TLC checks the reference's own guarantees and prints the expected outcome; *)
(* the harness renders schema + operation, lets the REAL validator and the    *)
(* REAL CoerceVariableValues have their say, executes and compares what the   *)
(* resolver received.                                                         *)
EXTENDS ArgCoercion, TLC, Json

Int == Named("Int")
ArgDef(t, d) == [type |-> t, default |-> d]
ArgDefs == { ArgDef(Int, NoDefault), ArgDef(Int, Default(I(4))), ArgDef(NN(Int), NoDefault), ArgDef(NN(Int), Default(I(4))),
             ArgDef(ListOf(Int), NoDefault), ArgDef(ListOf(NN(Int)), NoDefault), ArgDef(NN(ListOf(Int)), Default(L(<<I(4)>>))),
             ArgDef(ListOf(ListOf(Int)), NoDefault),
             ArgDef(Named("In"), NoDefault), ArgDef(NN(Named("In")), NoDefault), ArgDef(Named("Req"), NoDefault),
             ArgDef(ListOf(Named("In")), NoDefault) }

Usages == { <<"absent">>, VNull, I(1), Var,
            L(<<I(1), Var>>), L(<<Var>>), L(<<VNull>>), L(<<>>), L(<<L(<<Var, I(2)>>)>>),
            O(<<>>), O(<<<<"a", Var>>>>), O(<<<<"b", Var>>>>), O(<<<<"c", Var>>>>), O(<<<<"a", I(1)>>, <<"c", VNull>>>>),
            O(<<<<"c", Var>>, <<"a", Var>>>>), O(<<<<"b", I(2)>>>>),
            O(<<<<"r", Var>>>>), O(<<<<"r", I(1)>>, <<"o", O(<<<<"c", Var>>>>)>>>>), O(<<<<"r", I(1)>>, <<"o", Var>>>>),
            L(<<O(<<<<"a", Var>>>>), O(<<>>)>>) }

\* variable declarations ($v) and what the request provides for it
VarDecls == {"none", "Int", "Int = 9", "Int!"}
Provisions == {<<"missing">>, <<"val", VNull>>, <<"val", I(3)>>}
\* CoerceVariableValues for $v (C28's subject; the harness uses the real one and the model must agree to be usable)
VarState(decl, prov) ==
  IF prov[1] = "val" THEN prov
  ELSE IF decl = "Int = 9" THEN <<"val", I(9)>>
  ELSE <<"missing">>
VarOK(decl, prov) ==
  CASE decl = "none" -> prov[1] = "missing"
    [] decl = "Int!" -> prov[1] = "val" /\ prov[2][1] = "int"
    [] OTHER -> TRUE

VARIABLES ad, usage, decl, prov
vars == <<ad, usage, decl, prov>>
Init == /\ ad \in ArgDefs /\ usage \in Usages /\ decl \in VarDecls /\ prov \in Provisions
        /\ (usage[1] # "absent" => Fits(ad.type, usage))
        /\ (decl = "none") = (usage[1] = "absent" \/ ~UsesVar(usage))
        /\ VarOK(decl, prov)
Next == UNCHANGED vars
Spec == Init /\ [][Next]_vars

Out == CoerceArg(ad, usage, VarState(decl, prov))
Sound == OutcomeConforms(ad, Out)
Emit == PrintT(ToJson(<<"CASE", ad, usage, decl, prov, Out>>))
Inv == Sound /\ Emit
=============================================================================
