----------------------------- MODULE Coordinate -----------------------------
(***************************************************************************)
(* Schema coordinates (C23): the five forms                                *)
(*    Name | Name.Name | Name.Name(Name:) | @Name | @Name(Name:)           *)
(* over the GraphQL Name grammar; parse, print, and lookup in an abstract  *)
(* schema.                                                                 *)
(***************************************************************************)
EXTENDS LexGrammar

Invalid == <<"invalid">>

\* end position of a Name starting at i, or 0
NameEnd(s, i) == IF NameStart(At(s, i)) THEN ScanName(s, i + 1) ELSE 0
Sub(s, a, b) == SubSeqSafe(s, a, b - 1)

\* "(" Name ":" ")" starting at i and ending the string; returns the name or <<>>
ArgPart(s, i) ==
  IF At(s, i) # 40 THEN <<>>
  ELSE LET e == NameEnd(s, i + 1) IN
       IF e # 0 /\ At(s, e) = 58 /\ At(s, e + 1) = 41 /\ e + 1 = Len(s) THEN Sub(s, i + 1, e) ELSE <<>>

ParseCoordinate(s) ==
  IF At(s, 1) = 64                                          \* @Name | @Name(Name:)
  THEN LET e == NameEnd(s, 2) IN
       IF e = 0 THEN Invalid
       ELSE IF e = Len(s) + 1 THEN <<"directive", Sub(s, 2, e)>>
       ELSE LET a == ArgPart(s, e) IN IF a = <<>> THEN Invalid ELSE <<"directiveArgument", Sub(s, 2, e), a>>
  ELSE LET e == NameEnd(s, 1) IN
       IF e = 0 THEN Invalid
       ELSE IF e = Len(s) + 1 THEN <<"type", Sub(s, 1, e)>>
       ELSE IF At(s, e) # 46 THEN Invalid
       ELSE LET f == NameEnd(s, e + 1) IN
            IF f = 0 THEN Invalid
            ELSE IF f = Len(s) + 1 THEN <<"typeAttribute", Sub(s, 1, e), Sub(s, e + 1, f)>>
            ELSE LET a == ArgPart(s, f) IN
                 IF a = <<>> THEN Invalid ELSE <<"fieldArgument", Sub(s, 1, e), Sub(s, e + 1, f), a>>

PrintCoordinate(c) ==
  CASE c[1] = "type"              -> c[2]
    [] c[1] = "typeAttribute"     -> c[2] \o <<46>> \o c[3]
    [] c[1] = "fieldArgument"     -> c[2] \o <<46>> \o c[3] \o <<40>> \o c[4] \o <<58, 41>>
    [] c[1] = "directive"         -> <<64>> \o c[2]
    [] c[1] = "directiveArgument" -> <<64>> \o c[2] \o <<40>> \o c[3] \o <<58, 41>>

\* ---- lookup in an abstract schema -------------------------------------------
\* schema = [types: name -> [kind, attrs: name -> set of argument names], directives: name -> set of arg names]
\* (names are strings here).  Result: <<"ok", element kind, names...>> or <<"error">>.
HasAttrs(kind) == kind \in {"object", "interface", "input", "enum"}
AttrKind(kind) == CASE kind \in {"object", "interface"} -> "field" [] kind = "input" -> "inputField" [] OTHER -> "enumValue"

Lookup(schema, c) ==
  CASE c[1] = "type" ->
         IF c[2] \in DOMAIN schema.types THEN <<"ok", "type", schema.types[c[2]].kind, c[2]>> ELSE <<"error">>
    [] c[1] = "typeAttribute" ->
         IF c[2] \notin DOMAIN schema.types THEN <<"error">>
         ELSE LET t == schema.types[c[2]] IN
              IF HasAttrs(t.kind) /\ c[3] \in DOMAIN t.attrs THEN <<"ok", AttrKind(t.kind), c[2], c[3]>> ELSE <<"error">>
    [] c[1] = "fieldArgument" ->
         IF c[2] \notin DOMAIN schema.types THEN <<"error">>
         ELSE LET t == schema.types[c[2]] IN
              IF t.kind \in {"object", "interface"} /\ c[3] \in DOMAIN t.attrs /\ c[4] \in t.attrs[c[3]]
              THEN <<"ok", "argument", c[2], c[3], c[4]>> ELSE <<"error">>
    [] c[1] = "directive" ->
         IF c[2] \in DOMAIN schema.directives THEN <<"ok", "directive", c[2]>> ELSE <<"error">>
    [] c[1] = "directiveArgument" ->
         IF c[2] \in DOMAIN schema.directives /\ c[3] \in schema.directives[c[2]]
         THEN <<"ok", "argument", c[2], c[3]>> ELSE <<"error">>
=============================================================================
