SPECIFICATION Spec
INVARIANT Inv
CHECK_DEADLOCK FALSE
CONSTANTS
  MaxLen = 4
  Prefix <- PNone
  Suffix <- PNone
  Alphabet = {"{", "}", "n1", ":", "[", "]", "!", "bad", "uni", "comma", "comment", "str", "...", "$", "(", "type"}
