SPECIFICATION Spec
INVARIANT Inv
CHECK_DEADLOCK FALSE
CONSTANTS
  MaxLen = 4
  Prefix <- PNone
  Suffix <- PNone
  Alphabet = {"type", "n1", "{", "}", ":", "(", ")", "=", "@", "extend", "schema", "query", "[", "]", "!", "implements", "&", "str"}
