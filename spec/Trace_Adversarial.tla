-------------------------- MODULE Trace_Adversarial --------------------------
(* C21 monitor: one line per adversarial input pushed through the whole         *)
(* pipeline in a child process with a small stack.                              *)
EXTENDS Naturals, Sequences, TLC, Json, IOUtils
Rec == ndJsonDeserialize(IOEnv.TRACE)
VARIABLES l, bad
vars == <<l, bad>>
Sel(name, cond) == IF cond THEN {} ELSE {name}
Fails(r) ==
  UNION { Sel("crash-or-hang", r.e = "Done" /\ ~r.crash),
          Sel("diagnostics-not-sorted", r.e # "Done" \/ r.sorted),
          Sel("diagnostic-rendering", r.e # "Done" \/ r.rendered),
          Sel("missing-recursion-limit-diagnostic", r.e # "Done" \/ (r.expect = "limit" => r.limitDiag)),
          Sel("spurious-recursion-limit-diagnostic", r.e # "Done" \/ (r.expect = "nolimit" => ~r.limitDiag)) }
Init == l = 1 /\ bad = {}
Next == /\ l <= Len(Rec) /\ l' = l + 1
        /\ bad' = IF Fails(Rec[l]) = {} THEN bad ELSE bad \cup {<<l, Fails(Rec[l])>>}
Spec == Init /\ [][Next]_vars
Report == (l = Len(Rec) + 1) => PrintT(ToJson(<<"RESULT", l - 1, bad>>))
=============================================================================
