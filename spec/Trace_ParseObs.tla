--------------------------- MODULE Trace_ParseObs ---------------------------
(* Per-run observations of the real parser (no primitive-operation events):   *)
(* each line is the Reset configuration merged with the Done observation, or  *)
(* a Crash/Hang/Call record.  A line is accepted iff the state-independent    *)
(* part of ParserCore!Done holds (C01, C02, C04).                             *)
EXTENDS Naturals, Sequences, TLC, Json, IOUtils

Rec == ndJsonDeserialize(IOEnv.TRACE)
INF == 1000000000
Lim(x) == IF x < 0 THEN INF ELSE x

VARIABLES l, bad
vars == <<l, bad>>

Sel(name, cond) == IF cond THEN {} ELSE {name}

\* the names of the conjuncts of the state-independent part of ParserCore!Done that fail
DoneFails(o) ==
  LET tl == Lim(o.tokLimit) IN
  UNION {
    Sel("C01-root-kind", o.rootKindOk),
    Sel("C04-tree-text-not-prefix", o.prefixOk),
    Sel("C02-ranges-or-tiling", o.boundsOk),
    Sel("C04-error-after-limit", ~o.errAfterLimit),
    Sel("C04-more-than-n-items", o.tokHigh <= tl + 1),
    Sel("C02-not-lossless", (o.entry = "Document" /\ tl = INF) => o.textEq),
    Sel("C04-missing-token-limit-error", (o.entry = "Document" /\ o.unlimitedCount > tl) => o.limitErrs >= 1),
    Sel("C04-spurious-limit-error", (o.entry = "Document" /\ o.unlimitedCount <= tl /\ o.recHigh <= o.recLimit) => o.limitErrs = 0),
    Sel("C04-missing-recursion-limit-error", (tl = INF /\ o.recHigh > o.recLimit) => o.limitErrs >= 1),
    Sel("C04-spurious-recursion-limit-error", (tl = INF /\ o.recHigh <= o.recLimit) => o.limitErrs = 0)
  }

CallFails(c) ==                                          \* compiler entry points (C01, C04)
  UNION { Sel("C04-recursion-reached-differs", c.recReached = c.parserRecHigh),
          Sel("C04-tokens-reached-differs", c.tokReached = c.parserTokHigh) }

Fails(r) ==
  CASE r.e = "Done" -> DoneFails(r)
    [] r.e = "Call" -> CallFails(r)
    [] OTHER -> {"C01-crash-or-hang"}

Init == l = 1 /\ bad = {}
Next == /\ l <= Len(Rec)
        /\ l' = l + 1
        /\ bad' = IF Fails(Rec[l]) = {} THEN bad ELSE bad \cup {<<l, Fails(Rec[l])>>}
Spec == Init /\ [][Next]_vars
Report == (l = Len(Rec) + 1) => PrintT(ToJson(<<"RESULT", l - 1, bad>>))
=============================================================================
