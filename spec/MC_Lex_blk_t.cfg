SPECIFICATION Spec
INVARIANT Inv
CHECK_DEADLOCK FALSE
CONSTANTS
  MaxLen = 8
  Alphabet = {34, 92, 65, 10, 32}
  Prefix <- PfxBlock
  Suffix <- PfxNone
