SPECIFICATION PSpec
CONSTANTS
  Cfg <- CfgIndent2
  MaxItems = 4
INVARIANT LevelIsDepth
INVARIANT EngineOutputAccepted
CHECK_DEADLOCK FALSE
