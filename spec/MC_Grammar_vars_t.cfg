SPECIFICATION Spec
INVARIANT Inv
CHECK_DEADLOCK FALSE
CONSTANTS
  MaxLen = 6
  Prefix <- PVars
  Suffix <- SVars
  Alphabet = {"$", "n1", ":", "[", "]", "!", "=", "int", "@", "{", "}"}
