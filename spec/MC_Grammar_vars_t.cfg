SPECIFICATION Spec
INVARIANT Inv
CHECK_DEADLOCK FALSE
CONSTANTS
  MaxLen = 5
  Prefix <- PVars
  Suffix <- SVars
  Alphabet = {"$", "n1", ":", "[", "]", "!", "=", "int", "@", "{", "}"}
