SPECIFICATION GSpec
CONSTANTS
  Start = "Document"
  NamePool <- SmallNames
  MaxOut = 4
  MaxForm = 12
INVARIANT GeneratedIsMember
CHECK_DEADLOCK FALSE
