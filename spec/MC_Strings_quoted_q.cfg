SPECIFICATION Spec
INVARIANT Inv
CHECK_DEADLOCK FALSE
CONSTANTS
  Mode = "quoted"
  MaxLen = 5
  Alphabet = {97, 34, 92, 117, 48, 65, 110, 47, 233}
