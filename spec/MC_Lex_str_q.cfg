SPECIFICATION Spec
INVARIANT Inv
CHECK_DEADLOCK FALSE
CONSTANTS
  MaxLen = 5
  Alphabet = {34, 92, 117, 68, 56, 48, 10, 110}
  Prefix <- PfxQuote
  Suffix <- PfxNone
