SPECIFICATION Spec
INVARIANT Inv
CHECK_DEADLOCK FALSE
CONSTANTS
  MaxLen = 4
  Items <- ItemsInterface
