SPECIFICATION Spec
INVARIANT Inv
CHECK_DEADLOCK FALSE
CONSTANTS
  Texts = {"a", "b"}
  Locs = {1, 2}
  Values = {"x", "y"}
  MaxHandles = 3
  MaxNodes = 3
  MaxOps = 3
  NThreads = 2
  Family = "names"
