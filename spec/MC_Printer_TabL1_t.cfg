SPECIFICATION PSpec
CONSTANTS
  Cfg <- CfgTabL1
  MaxItems = 5
INVARIANT LevelIsDepth
INVARIANT EngineOutputAccepted
CHECK_DEADLOCK FALSE
