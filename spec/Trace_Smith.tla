----------------------------- MODULE Trace_Smith -----------------------------
(* C32: what apollo-smith's generator returned for recorded byte strings:     *)
(* exhausted, or a document with its verdicts (parses, validates as a mixed   *)
(* document / against the schema, same text when generated again) and the     *)
(* structural facts SmithDoc!DocOK is about.                                  *)
EXTENDS Naturals, Sequences, FiniteSets, TLC, Json, IOUtils
Rec == ndJsonDeserialize(IOEnv.TRACE)
VARIABLES l, bad
vars == <<l, bad>>
S == INSTANCE SmithDoc WITH Names <- {}, FieldNames <- {}, MaxI <- 0, MaxO <- 0, MaxF <- 0, MaxOps <- 0,
                            phase <- "done", used <- {}, itfs <- {}, objs <- {}, impl <- <<>>, fields <- <<>>, frags <- <<>>, ops <- <<>>
ToSet(s) == {s[k] : k \in 1..Len(s)}
Facts(f) == [types |-> f.types, directives |-> f.directives,
             impl |-> [n \in DOMAIN f.impl |-> ToSet(f.impl[n])],
             fields |-> [n \in DOMAIN f.fields |-> ToSet(f.fields[n])],
             frags |-> [n \in DOMAIN f.frags |-> ToSet(f.frags[n])],
             ops |-> [k \in 1..Len(f.ops) |-> [name |-> f.ops[k].name, spreads |-> ToSet(f.ops[k].spreads)]]]
Sel(name, cond) == IF cond THEN {} ELSE {name}
Pfx(r) == IF r.what = "document" THEN "C32-document" ELSE "C32-operation"
Fails(r) ==
  IF r.crash THEN {Pfx(r) \o "-crash"}
  ELSE IF r.exhausted THEN Sel(Pfx(r) \o "-not-deterministic", r.sameAgain)
  ELSE UNION { Sel(Pfx(r) \o "-not-deterministic", r.sameAgain),
               Sel(Pfx(r) \o "-syntax-error", r.parseOk),
               Sel(Pfx(r) \o "-invalid", r.parseOk => r.valid),
               \* diagnosis: which structural guarantee of the generator's design is broken
               Sel(Pfx(r) \o "-unique-names", S!UniqueNames(Facts(r.facts))),
               Sel(Pfx(r) \o "-lone-anonymous-operation", S!LoneAnonymous(Facts(r.facts))),
               Sel(Pfx(r) \o "-implements-closure", S!ImplementsClosed(Facts(r.facts))),
               Sel(Pfx(r) \o "-inherited-fields", S!Backfilled(Facts(r.facts))),
               Sel(Pfx(r) \o "-fragments", LET d == Facts(r.facts) IN S!SpreadsDefined(d) /\ S!NoFragmentCycle(d) /\ S!FragmentsReachable(d)) }
Init == l = 1 /\ bad = {}
Next == /\ l <= Len(Rec) /\ l' = l + 1
        /\ bad' = IF Fails(Rec[l]) = {} THEN bad ELSE bad \cup {<<l, Fails(Rec[l])>>}
Spec == Init /\ [][Next]_vars
Report == (l = Len(Rec) + 1) => PrintT(ToJson(<<"RESULT", l - 1, bad>>))
=============================================================================
