------------------------- MODULE MC_BuiltinScalars -------------------------
(* All histories up to MaxOps of validate / add a field of a built-in scalar  *)
(* type / drop those fields; every history is printed for replay.             *)
EXTENDS BuiltinScalars, TLC, Json

CONSTANT MaxOps
VARIABLE hist            \* the history: <<op, arg, presentAfter>> per step
vars == <<present, refs, valid, hist>>

UserScalars == {"Int", "Float", "ID", "String"}
Perms(S) == {p \in [1..Cardinality(S) -> S] : \A i, j \in 1..Cardinality(S) : i # j => p[i] # p[j]}

Init == InitScalars /\ hist = <<>>
DoValidate == /\ Len(hist) < MaxOps
              /\ \E o \in Perms(Used \ SetOf(present)) : Validate(o)
              /\ hist' = Append(hist, <<"validate", "", SetOf(present')>>)
DoAdd == /\ Len(hist) < MaxOps /\ \E s \in UserScalars : (AddFieldRef(s) /\ hist' = Append(hist, <<"add", s, SetOf(present)>>))
DoDrop == /\ Len(hist) < MaxOps /\ \E s \in UserScalars : (DropFieldRef(s) /\ hist' = Append(hist, <<"drop", s, SetOf(present)>>))
Next == DoValidate \/ DoAdd \/ DoDrop
Spec == Init /\ [][Next]_vars

\* restoring: validate; unwrap; add a field of a removed scalar; validate  ==> exactly that scalar is back
RestoresExactly ==
  (Len(hist) >= 3 /\ hist[Len(hist)][1] = "validate" /\ hist[Len(hist) - 1][1] = "add" /\ hist[Len(hist) - 2][1] = "validate")
    => hist[Len(hist)][3] = hist[Len(hist) - 2][3] \cup {hist[Len(hist) - 1][2]}
IdempotentH ==
  (Len(hist) >= 2 /\ hist[Len(hist)][1] = "validate" /\ hist[Len(hist) - 1][1] = "validate")
    => hist[Len(hist)][3] = hist[Len(hist) - 1][3]

Emit == PrintT(ToJson(<<"CASE", hist>>))
Inv == ExactlyUsed /\ AlwaysThere /\ NoDuplicates /\ RestoresExactly /\ IdempotentH /\ Emit
ViewNoOrder == <<SetOf(present), refs, valid, hist>>
=============================================================================
