SPECIFICATION Spec
CONSTANTS
  MaxLen = 6
INVARIANT Inv
CHECK_DEADLOCK FALSE
