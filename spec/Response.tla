------------------------------ MODULE Response ------------------------------
(***************************************************************************)
(* What a response generated for an operation must look like (C33):         *)
(* exactly the response keys CollectFields yields for the concrete type of  *)
(* each object, never null at a non-null position, lists nested exactly as  *)
(* the field type nests them, leaves of the right JSON kind, enum values    *)
(* that are defined, __typename naming a possible concrete type.            *)
(* CollectFields, field types and the selection / value representation are  *)
(* those of Execution.tla (the executor must reproduce such data).          *)
(***************************************************************************)
EXTENDS Naturals, Sequences, FiniteSets

CONSTANTS Schema, Fragments
X == INSTANCE Execution WITH World <- <<>>, VarValues <- <<>>     \* the generated operations use no variables

PossibleObjects(n) ==
  LET d == Schema.types[n] IN
    CASE d.kind = "object" -> {n}
      [] d.kind = "union" -> d.members
      [] d.kind = "interface" -> {t \in DOMAIN Schema.types : Schema.types[t].kind = "object" /\ n \in Schema.types[t].implements}
      [] OTHER -> {}

LeafConforms(n, v) ==
  LET d == Schema.types[n] IN
  IF d.kind = "enum" THEN v[1] = "str" /\ v[2] \in d.values
  ELSE CASE n = "Int"     -> v[1] = "int"
         [] n = "Float"   -> v[1] \in {"float", "int"}          \* a JSON number
         [] n = "String"  -> v[1] = "str"
         [] n = "Boolean" -> v[1] = "bool"
         [] n = "ID"      -> v[1] \in {"str", "int"}
         [] OTHER -> TRUE                                         \* custom scalar: any JSON

RECURSIVE ObjConforms(_, _, _)
RECURSIVE ValConforms(_, _, _)
KeyIndex(pairs, key) == CHOOSE j \in 1..Len(pairs) : pairs[j][1] = key
ObjConforms(objType, sels, v) ==
  /\ v[1] = "obj"
  /\ LET groups == X!CollectFields(objType, sels) IN
     /\ Len(v[2]) = Len(groups)                                                \* exactly the response keys,
     /\ \A k \in 1..Len(groups) : \E j \in 1..Len(v[2]) : v[2][j][1] = groups[k][1]   \* each once
     /\ \A k \in 1..Len(groups) :
          LET fields == groups[k][2]
              fname == fields[1][3]
              val == v[2][KeyIndex(v[2], groups[k][1])][2] IN
            IF fname = "__typename" THEN val = <<"str", objType>>
            ELSE ValConforms(X!FieldType(objType, fname), val, X!MergedSubSelections(fields))
ValConforms(t, v, subsels) ==
  IF v = <<"null">> THEN ~X!IsNonNull(t)
  ELSE IF X!IsList(t) THEN v[1] = "list" /\ \A i \in 1..Len(v[2]) : ValConforms(X!ItemType(t), v[2][i], subsels)
  ELSE LET n == X!NamedOf(t) IN
       IF Schema.types[n].kind \in {"scalar", "enum"} THEN v[1] # "list" /\ v[1] # "obj" /\ LeafConforms(n, v)
       ELSE v[1] = "obj" /\ \E o \in PossibleObjects(n) : ObjConforms(o, subsels, v)

\* ---- with_partial_data (beyond the listed properties, X02): the overlay's values take precedence ----------------------
\* Covers(v, o): wherever the overlay o has a value at a position that exists in the response v, v carries it: leaves
\* verbatim, lists with the overlay's length and order, objects key by key (keys of the overlay that the chosen
\* concrete type does not request are ignored; a `__typename` entry of the overlay pins the concrete type)
RECURSIVE Covers(_, _)
HasKey(pairs, k) == \E j \in 1..Len(pairs) : pairs[j][1] = k
Covers(v, o) ==
  IF o[1] = "obj"
  THEN /\ v[1] = "obj"
       /\ \A j \in 1..Len(o[2]) : HasKey(v[2], o[2][j][1]) => Covers(v[2][KeyIndex(v[2], o[2][j][1])][2], o[2][j][2])
  ELSE IF o[1] = "list"
  THEN v[1] = "list" /\ Len(v[2]) = Len(o[2]) /\ \A i \in 1..Len(o[2]) : Covers(v[2][i], o[2][i])
  ELSE v = o

\* the same, ignoring the response keys in `skip` (used to attribute a finding: aliased __typename entries)
RECURSIVE CoversExcept(_, _, _)
CoversExcept(v, o, skip) ==
  IF o[1] = "obj"
  THEN /\ v[1] = "obj"
       /\ \A j \in 1..Len(o[2]) : (HasKey(v[2], o[2][j][1]) /\ o[2][j][1] \notin skip)
                                      => CoversExcept(v[2][KeyIndex(v[2], o[2][j][1])][2], o[2][j][2], skip)
  ELSE IF o[1] = "list"
  THEN v[1] = "list" /\ Len(v[2]) = Len(o[2]) /\ \A i \in 1..Len(o[2]) : CoversExcept(v[2][i], o[2][i], skip)
  ELSE v = o

ResponseConforms(op, data) == ObjConforms(X!RootType(op), op.sels, data)

\* attribution switch for a finding: the same predicate over the schema whose nested list types are flattened to
\* one level (what the generator produced before the repair fcffae4)
=============================================================================
