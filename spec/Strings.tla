------------------------------ MODULE Strings ------------------------------
(***************************************************************************)
(* Static semantics of string literals (October 2021, section 2.9.4):       *)
(* StringValue of quoted strings (escape decoding) and BlockStringValue().  *)
(* Transcribed step by step from the specification text, over sequences of  *)
(* code points.  Oracle of C06; decoder of C09.                             *)
(***************************************************************************)
EXTENDS LexGrammar

\* ---- quoted strings --------------------------------------------------------
EscapeValue(c) ==
  CASE c = 34 -> 34 [] c = 92 -> 92 [] c = 47 -> 47 [] c = 98 -> 8 [] c = 102 -> 12
    [] c = 110 -> 10 [] c = 114 -> 13 [] c = 116 -> 9 [] OTHER -> c

RECURSIVE DecodeQuoted(_, _, _)
\* s: the characters between the quotes of a lexically valid StringValue
DecodeQuoted(s, i, acc) ==
  IF i > Len(s) THEN acc
  ELSE IF s[i] = 92
       THEN IF s[i + 1] = 117
            THEN DecodeQuoted(s, i + 6, Append(acc, Hex4(s, i + 2)))
            ELSE DecodeQuoted(s, i + 2, Append(acc, EscapeValue(s[i + 1])))
       ELSE DecodeQuoted(s, i + 1, Append(acc, s[i]))

StringValueOf(inner) == DecodeQuoted(inner, 1, <<>>)

\* ---- block strings ---------------------------------------------------------
RECURSIVE UnescapeTriple(_, _, _)
\* BlockStringCharacter :: \""" evaluates to """
UnescapeTriple(s, i, acc) ==
  IF i > Len(s) THEN acc
  ELSE IF s[i] = 92 /\ At(s, i+1) = 34 /\ At(s, i+2) = 34 /\ At(s, i+3) = 34
       THEN UnescapeTriple(s, i + 4, acc \o <<34, 34, 34>>)
       ELSE UnescapeTriple(s, i + 1, Append(acc, s[i]))

RECURSIVE SplitLines(_, _, _, _)
\* 1. Let lines be the result of splitting rawValue by LineTerminator (\n | \r\n | \r).
SplitLines(s, i, cur, acc) ==
  IF i > Len(s) THEN Append(acc, cur)
  ELSE IF s[i] = 13 /\ At(s, i + 1) = 10 THEN SplitLines(s, i + 2, <<>>, Append(acc, cur))
  ELSE IF LineTerm(s[i]) THEN SplitLines(s, i + 1, <<>>, Append(acc, cur))
  ELSE SplitLines(s, i + 1, Append(cur, s[i]), acc)

RECURSIVE IndentOf(_, _)
IndentOf(line, i) == IF i <= Len(line) /\ WhiteSp(line[i]) THEN IndentOf(line, i + 1) ELSE i - 1
OnlyWhiteSpace(line) == IndentOf(line, 1) = Len(line)

MinOf(S) == CHOOSE x \in S : \A y \in S : x <= y

RECURSIVE DropLeadingBlank(_)
DropLeadingBlank(lines) ==
  IF Len(lines) > 0 /\ OnlyWhiteSpace(lines[1]) THEN DropLeadingBlank(Tail(lines)) ELSE lines
RECURSIVE DropTrailingBlank(_)
DropTrailingBlank(lines) ==
  IF Len(lines) > 0 /\ OnlyWhiteSpace(lines[Len(lines)])
  THEN DropTrailingBlank(SubSeq(lines, 1, Len(lines) - 1)) ELSE lines

RECURSIVE JoinLF(_, _, _)
JoinLF(lines, k, acc) ==
  IF k > Len(lines) THEN acc
  ELSE JoinLF(lines, k + 1, (IF k = 1 THEN acc ELSE Append(acc, 10)) \o lines[k])

BlockStringValue(raw) ==
  LET lines == SplitLines(raw, 1, <<>>, <<>>)
      \* 2-3. commonIndent over the lines after the first that contain a non-WhiteSpace character
      indents == {IndentOf(lines[k], 1) : k \in {j \in 2..Len(lines) : IndentOf(lines[j], 1) < Len(lines[j])}}
      \* 4. remove commonIndent characters from the beginning of every line but the first
      dedented == [k \in 1..Len(lines) |->
                    IF k = 1 \/ indents = {} THEN lines[k]
                    ELSE SubSeqSafe(lines[k], MinOf(indents) + 1, Len(lines[k]))]
      \* 5-6. remove leading and trailing lines that contain only WhiteSpace
      trimmed == DropTrailingBlank(DropLeadingBlank(dedented))
  IN JoinLF(trimmed, 1, <<>>)       \* 7-8. join with U+000A

BlockValueOf(inner) == BlockStringValue(UnescapeTriple(inner, 1, <<>>))

\* ---- a whole literal (with its quotes), assumed lexically valid ---------------
IsBlockLiteral(lit) == Len(lit) >= 6 /\ lit[1] = 34 /\ lit[2] = 34 /\ lit[3] = 34
DecodeLiteral(lit) ==
  IF IsBlockLiteral(lit) THEN BlockValueOf(SubSeqSafe(lit, 4, Len(lit) - 3))
  ELSE StringValueOf(SubSeqSafe(lit, 2, Len(lit) - 1))

\* the literal is exactly one valid StringValue token of the lexical grammar
IsStringLiteral(lit) == Len(lit) >= 2 /\ lit[1] = 34 /\ StringAt(lit, 1) = <<"StringValue", Len(lit) + 1>>
=============================================================================
