SPECIFICATION Spec
INVARIANT Inv
CHECK_DEADLOCK FALSE
CONSTANTS
  MaxLen = 4
  Prefix <- PVarDirArg
  Suffix <- SVarDirArg
  Alphabet = {"n1", ":", "$", "int", "[", "]", "{", "}", "str"}
