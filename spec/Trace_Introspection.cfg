SPECIFICATION Spec
INVARIANT Report
CHECK_DEADLOCK FALSE
