----------------------------- MODULE MC_Execution -----------------------------
(* A fixed schema family, a pool of operations hitting every part of the        *)
(* execution algorithm, and for each operation all resolver worlds obtained by  *)
(* varying the outcome of the fields it touches over a pool per field.          *)
EXTENDS Naturals, Sequences, FiniteSets, TLC, Json

CONSTANT Tier    \* "quick" | "thorough"

N(n) == <<"named", n>>
L(t) == <<"list", t>>
NN(t) == <<"nonnull", t>>
Obj(kind, fields, implements, members, values) == [kind |-> kind, fields |-> fields, implements |-> implements, members |-> members, values |-> values]
NoF == [x \in {} |-> 0]

TheSchema == [
  query |-> "Query", mutation |-> "Mutation",
  types |-> [
    Query |-> Obj("object", [a |-> N("Int"), b |-> NN(N("Int")), o |-> N("Obj"), on |-> NN(N("Obj")), i |-> N("Iface"), u |-> N("Uni"),
                             l |-> L(N("Int")), ln |-> L(NN(N("Int"))), lo |-> L(N("Obj")), ll |-> L(L(NN(N("Int")))), lnn |-> NN(L(NN(N("Int")))),
                             e |-> N("En"), s |-> N("String"), f |-> N("Float"), id |-> N("ID")], {}, {}, {}),
    Mutation |-> Obj("object", [m1 |-> N("Int"), m2 |-> NN(N("Int"))], {}, {}, {}),
    Obj |-> Obj("object", [x |-> N("Int"), y |-> NN(N("Int")), o |-> N("Obj")], {"Iface", "OnlyObj"}, {}, {}),
    OnlyObj |-> Obj("interface", [y |-> NN(N("Int"))], {}, {}, {}),
    JustOther |-> Obj("union", NoF, {}, {"Other"}, {}),
    Other |-> Obj("object", [x |-> N("Int"), z |-> N("Int")], {"Iface"}, {}, {}),
    Iface |-> Obj("interface", [x |-> N("Int")], {}, {}, {}),
    Uni |-> Obj("union", NoF, {}, {"Obj", "Other"}, {}),
    En |-> Obj("enum", NoF, {}, {}, {"V", "W"}),
    Int |-> Obj("scalar", NoF, {}, {}, {}), Float |-> Obj("scalar", NoF, {}, {}, {}), String |-> Obj("scalar", NoF, {}, {}, {}),
    Boolean |-> Obj("scalar", NoF, {}, {}, {}), ID |-> Obj("scalar", NoF, {}, {}, {}) ] ]

F(key, name, subs) == <<"field", key, name, subs, TRUE>>
Fs(key, name, subs) == <<"field", key, name, subs, FALSE>>     \* @skip(if: true)
In(on, sels) == <<"inline", on, sels, TRUE>>
Sp(name) == <<"spread", name, TRUE>>
Lf(name) == F(name, name, <<>>)
\* selections carrying their directives (inclusion decided by Execution!DirectivesInclude over TheVars)
Fc(key, name, subs, conds) == <<"field", key, name, subs, conds, TRUE>>
Inc(on, sels, conds) == <<"inline", on, sels, conds, TRUE>>
Spc(name, conds) == <<"spread", name, conds, TRUE>>
Skip(v) == <<"skip", v>>
Incl(v) == <<"include", v>>
Lit(b) == <<"lit", b>>
V(n) == <<"var", n>>
\* the coerced variable values: $t: Boolean! given true, $f: Boolean! given false, $d: Boolean = true not given
TheVars == [t |-> TRUE, f |-> FALSE, d |-> TRUE]

TheFragments == [
  F1 |-> [on |-> "Query", sels |-> <<Lf("a"), F("o", "o", <<Sp("G")>>)>>],
  G  |-> [on |-> "Obj", sels |-> <<Lf("x")>>],
  H  |-> [on |-> "Iface", sels |-> <<Lf("x")>>],
  K  |-> [on |-> "JustOther", sels |-> <<Lf("__typename"), In("Other", <<Lf("z")>>)>>],
  C1 |-> [on |-> "Query", sels |-> <<Fc("a", "a", <<>>, <<Incl(V("t"))>>), Fc("b", "b", <<>>, <<Skip(V("t"))>>), Spc("C2", <<Incl(V("f"))>>), Sp("C2")>>],
  C2 |-> [on |-> "Query", sels |-> <<Fc("s", "s", <<>>, <<Skip(Lit(FALSE)), Incl(Lit(TRUE))>>)>>] ]

Op(kind, sels, vary) == [kind |-> kind, sels |-> sels, vary |-> vary]
Ops == <<
  Op("query", <<Lf("a"), Lf("b")>>, <<<<"Query", "a">>, <<"Query", "b">>>>),
  Op("query", <<Lf("a"), F("o", "o", <<Lf("x"), Lf("y")>>)>>, <<<<"Query", "o">>, <<"Obj", "x">>, <<"Obj", "y">>>>),
  Op("query", <<F("on", "on", <<Lf("x"), Lf("y")>>), Lf("a")>>, <<<<"Query", "on">>, <<"Obj", "y">>, <<"Query", "a">>>>),
  Op("query", <<F("o", "o", <<F("o", "o", <<Lf("y")>>), Lf("x")>>)>>, <<<<"Query", "o">>, <<"Obj", "o">>, <<"Obj", "y">>>>),
  Op("query", <<F("i", "i", <<Lf("x"), In("Obj", <<Lf("y")>>), In("Other", <<Lf("z")>>)>>)>>, <<<<"Query", "i">>, <<"Obj", "y">>>>),
  Op("query", <<F("u", "u", <<In("Obj", <<Lf("x")>>), In("Other", <<Lf("z")>>), Lf("__typename")>>)>>, <<<<"Query", "u">>, <<"Obj", "x">>>>),
  Op("query", <<Lf("l"), Lf("ln")>>, <<<<"Query", "l">>, <<"Query", "ln">>>>),
  Op("query", <<Lf("lnn"), Lf("a")>>, <<<<"Query", "lnn">>, <<"Query", "a">>>>),
  Op("query", <<F("lo", "lo", <<Lf("x"), Lf("y")>>)>>, <<<<"Query", "lo">>, <<"Obj", "y">>>>),
  Op("query", <<Lf("ll")>>, <<<<"Query", "ll">>>>),
  Op("query", <<Lf("e"), Lf("s"), Lf("f"), Lf("id")>>, <<<<"Query", "e">>, <<"Query", "s">>, <<"Query", "f">>, <<"Query", "id">>>>),
  Op("query", <<F("o", "o", <<Lf("x")>>), F("o", "o", <<Lf("y")>>)>>, <<<<"Query", "o">>, <<"Obj", "y">>>>),
  Op("query", <<F("p", "a", <<>>), F("q", "a", <<>>), Lf("a")>>, <<<<"Query", "a">>>>),
  Op("query", <<Fs("a", "a", <<>>), Lf("b"), In("", <<Lf("s")>>)>>, <<<<"Query", "a">>, <<"Query", "b">>>>),
  Op("query", <<Sp("F1"), Sp("F1")>>, <<<<"Query", "a">>, <<"Query", "o">>, <<"Obj", "x">>>>),
  Op("mutation", <<Lf("m1"), Lf("m2"), F("again", "m1", <<>>)>>, <<<<"Mutation", "m1">>, <<"Mutation", "m2">>>>),
  Op("query", <<Lf("b"), F("on", "on", <<Lf("y")>>), Lf("a")>>, <<<<"Query", "b">>, <<"Query", "on">>, <<"Obj", "y">>>>),
  Op("query", <<Lf("__typename"), F("o", "o", <<Lf("__typename")>>)>>, <<<<"Query", "o">>>>),
  Op("query", <<F("lo", "lo", <<F("o", "o", <<Lf("y")>>)>>)>>, <<<<"Query", "lo">>, <<"Obj", "o">>, <<"Obj", "y">>>>),
  Op("query", <<F("i", "i", <<Sp("H")>>), F("u", "u", <<Sp("H"), Sp("G")>>)>>, <<<<"Query", "i">>, <<"Query", "u">>, <<"Other", "x">>>>),
  \* @skip / @include with literals, variables and defaults, on fields, inline fragments and spreads; both directives at once;
  \* a skipped spread does not count as visited; fields merged under one key where one occurrence is skipped
  Op("query", <<Fc("a", "a", <<>>, <<Skip(V("t"))>>), Fc("b", "b", <<>>, <<Skip(V("f"))>>), Fc("s", "s", <<>>, <<Incl(V("f"))>>),
                Fc("e", "e", <<>>, <<Incl(V("d"))>>), Fc("k", "a", <<>>, <<Incl(Lit(FALSE))>>)>>, <<<<"Query", "a">>, <<"Query", "b">>, <<"Query", "e">>>>),
  Op("query", <<Fc("a", "a", <<>>, <<Skip(V("t")), Incl(V("t"))>>), Fc("b", "b", <<>>, <<Incl(V("t")), Skip(V("f"))>>),
                Fc("s", "s", <<>>, <<Incl(V("f")), Skip(V("f"))>>), Fc("id", "id", <<>>, <<Skip(Lit(FALSE))>>)>>, <<<<"Query", "a">>, <<"Query", "b">>, <<"Query", "s">>>>),
  Op("query", <<Inc("", <<Lf("a")>>, <<Skip(V("t"))>>), Inc("Query", <<Lf("b")>>, <<Incl(V("d"))>>), Inc("", <<Lf("s")>>, <<Incl(V("f"))>>),
                Spc("C2", <<Skip(V("t"))>>), Lf("f")>>, <<<<"Query", "a">>, <<"Query", "b">>, <<"Query", "s">>>>),
  Op("query", <<Spc("C2", <<Skip(V("t"))>>), Lf("a"), Sp("C2"), Sp("C1")>>, <<<<"Query", "a">>, <<"Query", "b">>, <<"Query", "s">>>>),
  Op("query", <<F("o", "o", <<Lf("x")>>), Fc("o", "o", <<Lf("y")>>, <<Skip(V("t"))>>), Fc("on", "on", <<Lf("y")>>, <<Incl(V("f"))>>),
                F("on", "on", <<Fc("x", "x", <<>>, <<Skip(V("d"))>>), Lf("__typename")>>)>>, <<<<"Query", "o">>, <<"Obj", "y">>, <<"Obj", "x">>>>),
  Op("mutation", <<Fc("m1", "m1", <<>>, <<Skip(V("f"))>>), Fc("m2", "m2", <<>>, <<Skip(V("t"))>>), Fc("z", "m1", <<>>, <<Incl(V("t"))>>)>>, <<<<"Mutation", "m1">>, <<"Mutation", "m2">>>>),
  \* abstract type conditions that apply to one possible type only
  Op("query", <<F("i", "i", <<In("OnlyObj", <<Lf("y")>>), In("JustOther", <<F("tn", "__typename", <<>>), In("Other", <<Lf("z")>>)>>), Lf("x")>>)>>, <<<<"Query", "i">>, <<"Obj", "y">>>>),
  Op("query", <<F("u", "u", <<In("OnlyObj", <<F("k", "y", <<>>)>>), Sp("K"), In("Iface", <<Lf("x")>>)>>)>>, <<<<"Query", "u">>, <<"Other", "x">>>>)
>>

I1 == <<"int", 1>>
O(t) == <<"obj", t>>
Li(items) == <<"list", items>>
Nl == <<"null">>
Er == <<"err">>
LeafPool == {I1, Nl, Er, <<"str", "s">>, <<"bigint">>, <<"float">>, O("Obj"), Li(<<I1>>)}
ObjPool == {O("Obj"), Nl, Er, O("Other"), O("Nope"), I1}
IntListPool == {Li(<<I1, <<"int", 2>>>>), Li(<<I1, Nl>>), Li(<<I1, Er>>), Li(<<I1, <<"str", "s">>>>), Li(<<>>), Nl, Er, I1, Li(<<Li(<<I1>>)>>)}
Pool(t, f) ==
  CASE <<t, f>> \in {<<"Query", "a">>, <<"Query", "b">>, <<"Mutation", "m1">>, <<"Mutation", "m2">>} -> LeafPool
    [] <<t, f>> \in {<<"Obj", "x">>, <<"Obj", "y">>, <<"Other", "x">>} -> {I1, Nl, Er, <<"str", "s">>}
    [] <<t, f>> \in {<<"Query", "o">>, <<"Query", "on">>} -> ObjPool
    [] <<t, f>> = <<"Obj", "o">> -> {Nl, O("Obj"), Er}
    [] <<t, f>> = <<"Query", "i">> -> {O("Obj"), O("Other"), O("Nope"), O("Query"), Nl, Er}
    [] <<t, f>> = <<"Query", "u">> -> {O("Obj"), O("Other"), O("Query"), Nl, I1}
    [] <<t, f>> \in {<<"Query", "l">>, <<"Query", "ln">>, <<"Query", "lnn">>} -> IntListPool
    [] <<t, f>> = <<"Query", "lo">> -> {Li(<<O("Obj"), Nl>>), Li(<<O("Obj"), O("Other")>>), Li(<<Er>>), Li(<<O("Obj"), O("Obj")>>), Li(<<O("Obj"), Er>>), Nl, O("Obj")}
    [] <<t, f>> = <<"Query", "ll">> -> {Li(<<Li(<<I1, <<"int", 2>>>>), Nl>>), Li(<<Li(<<I1, Nl>>), Li(<<I1>>)>>), Li(<<Li(<<I1>>), I1>>), Li(<<I1>>), Li(<<Li(<<Er>>)>>), Nl}
    [] <<t, f>> = <<"Query", "e">> -> {<<"str", "V">>, <<"str", "X">>, I1, Nl}
    [] <<t, f>> = <<"Query", "s">> -> {<<"str", "s">>, I1, Nl}
    [] <<t, f>> = <<"Query", "f">> -> {<<"float">>, I1, <<"str", "s">>}
    [] <<t, f>> = <<"Query", "id">> -> {<<"str", "s">>, I1, <<"float">>, <<"bigint">>}
    [] OTHER -> {I1}

\* the default world: every field resolves to a correct value
DefaultWorld == [
  Query |-> [a |-> I1, b |-> I1, o |-> O("Obj"), on |-> O("Obj"), i |-> O("Obj"), u |-> O("Other"), l |-> Li(<<I1>>), ln |-> Li(<<I1>>), lnn |-> Li(<<I1>>),
             lo |-> Li(<<O("Obj")>>), ll |-> Li(<<Li(<<I1>>)>>), e |-> <<"str", "V">>, s |-> <<"str", "s">>, f |-> <<"float">>, id |-> <<"str", "s">>],
  Mutation |-> [m1 |-> I1, m2 |-> I1],
  Obj |-> [x |-> I1, y |-> I1, o |-> Nl],
  Other |-> [x |-> I1, z |-> I1],
  Nope |-> [x |-> I1] ]

RECURSIVE Override(_, _, _)
Override(w, vary, choice) ==
  IF vary = <<>> THEN w
  ELSE LET tf == Head(vary) IN Override([w EXCEPT ![tf[1]][tf[2]] = Head(choice)], Tail(vary), Tail(choice))

E(w) == INSTANCE Execution WITH Schema <- TheSchema, Fragments <- TheFragments, World <- w, VarValues <- TheVars

VARIABLES opId, choice
Init == /\ opId \in 1..Len(Ops)
        /\ choice \in {c \in [1..Len(Ops[opId].vary) -> UNION {Pool(Ops[opId].vary[k][1], Ops[opId].vary[k][2]) : k \in 1..Len(Ops[opId].vary)}] :
                          \A k \in 1..Len(Ops[opId].vary) : c[k] \in Pool(Ops[opId].vary[k][1], Ops[opId].vary[k][2])}
Next == UNCHANGED <<opId, choice>>
Spec == Init /\ [][Next]_<<opId, choice>>

TheWorld == Override(DefaultWorld, Ops[opId].vary, choice)
Resp == E(TheWorld)!Execute(Ops[opId])

PathsOK == E(TheWorld)!ErrorPathsPointAtNullOrAbsent(Resp)
DataNull == E(TheWorld)!DataNullOnlyWithErrors(Resp)
Emit == PrintT(ToJson(<<"CASE", opId, Ops[opId].kind, Ops[opId].sels, TheFragments, TheWorld, Resp>>))
Inv == PathsOK /\ DataNull /\ Emit
=============================================================================
