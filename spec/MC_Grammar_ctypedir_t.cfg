SPECIFICATION Spec
INVARIANT Inv
CHECK_DEADLOCK FALSE
CONSTANTS
  MaxLen = 6
  Prefix <- PTypeDirArg
  Suffix <- STypeDirArg
  Alphabet = {"n1", ":", "$", "int", "[", "]", "{", "}", "str"}
