--------------------------- MODULE Trace_AsyncExec ---------------------------
(* Trace validation for C27: events of one asynchronous execution on the        *)
(* harness's executor (which polls the task only after its waker was invoked):  *)
(*   Create(k)  the k-th awaited thing (resolver future or list item) is created *)
(*   Pending(k) it returned Pending (and registered the task's waker)           *)
(*   Wake(k)    the executor invoked that waker                                  *)
(*   Ready(k)   it became ready                                                  *)
(* The protocol of AsyncExec: things are created in order and one at a time,    *)
(* Pending(k) only for the thing being awaited, every Pending(k) is answered by *)
(* Wake(k) before anything else happens, and the run ends with nothing awaited. *)
EXTENDS Naturals, Sequences, FiniteSets, TLC, Json, IOUtils
Rec == ndJsonDeserialize(IOEnv.TRACE)
VARIABLES l, bad
vars == <<l, bad>>

RECURSIVE Walk(_, _, _, _, _)
\* created: number of things created; awaited: the thing awaited or 99; suspended: waiting for Wake(awaited)
Walk(evs, i, created, awaited, suspended) ==
  IF i > Len(evs) THEN (IF suspended THEN {"ends-suspended"} ELSE {})
  ELSE LET e == evs[i] IN
       CASE e.e = "Create" ->
              IF suspended THEN {"create-while-suspended"}
              ELSE IF e.k # created THEN {"creation-order"}
              ELSE Walk(evs, i + 1, created + 1, e.k, FALSE)
         [] e.e = "Pending" ->
              IF suspended \/ e.k # awaited THEN {"pending-for-a-future-not-awaited"}
              ELSE Walk(evs, i + 1, created, awaited, TRUE)
         [] e.e = "Wake" ->
              IF ~suspended \/ e.k # awaited THEN {"wake-without-pending"}
              ELSE Walk(evs, i + 1, created, awaited, FALSE)
         [] e.e = "Ready" ->
              IF suspended THEN {"ready-while-suspended"}
              ELSE IF e.k # awaited THEN {"ready-for-a-future-not-awaited"}
              ELSE Walk(evs, i + 1, created, awaited, FALSE)
         [] OTHER -> {"unknown-event"}

Fails(r) == (IF r.hang THEN {"hang"} ELSE {}) \cup Walk(r.events, 1, 0, 99, FALSE)
Init == l = 1 /\ bad = {}
Next == /\ l <= Len(Rec) /\ l' = l + 1
        /\ bad' = IF Fails(Rec[l]) = {} THEN bad ELSE bad \cup {<<l, Fails(Rec[l])>>}
Spec == Init /\ [][Next]_vars
Report == (l = Len(Rec) + 1) => PrintT(ToJson(<<"RESULT", l - 1, bad>>))
=============================================================================
