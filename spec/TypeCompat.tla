----------------------------- MODULE TypeCompat -----------------------------
(***************************************************************************)
(* AreTypesCompatible, IsVariableUsageAllowed (section 5.8.5) and          *)
(* IsValidImplementationFieldType / IsSubType (section 3.6), transcribed   *)
(* from the GraphQL specification.  Types are <<"named", n>>,              *)
(* <<"list", t>>, <<"nonnull", t>> (t not nonnull).                        *)
(***************************************************************************)
EXTENDS Naturals, Sequences, FiniteSets

IsNonNull(t) == t[1] = "nonnull"
IsList(t)    == t[1] = "list"
Unwrap(t)    == t[2]

RECURSIVE TypesOfDepth(_, _)
TypesOfDepth(names, d) ==
  IF d = 0 THEN {<<"named", n>> : n \in names}
  ELSE LET inner == TypesOfDepth(names, d - 1) IN
       inner \cup {<<"list", t>> : t \in inner}
             \cup {<<"nonnull", t>> : t \in {u \in inner : u[1] # "nonnull"}}

RECURSIVE AreTypesCompatible(_, _)
AreTypesCompatible(variableType, locationType) ==
  IF IsNonNull(locationType)                              \* 1
  THEN IF ~IsNonNull(variableType) THEN FALSE             \* 1.a
       ELSE AreTypesCompatible(Unwrap(variableType), Unwrap(locationType))
  ELSE IF IsNonNull(variableType)                         \* 2
  THEN AreTypesCompatible(Unwrap(variableType), locationType)
  ELSE IF IsList(locationType)                            \* 3
  THEN IF ~IsList(variableType) THEN FALSE
       ELSE AreTypesCompatible(Unwrap(variableType), Unwrap(locationType))
  ELSE IF IsList(variableType) THEN FALSE                 \* 4
  ELSE variableType = locationType                        \* 5

\* varDefault \in {"none", "null", "value"};  locHasDefault \in BOOLEAN
IsVariableUsageAllowed(variableType, varDefault, locationType, locHasDefault) ==
  IF IsNonNull(locationType) /\ ~IsNonNull(variableType)
  THEN LET hasNonNullVariableDefaultValue == (varDefault = "value")   \* exists and is not the value null
       IN IF ~hasNonNullVariableDefaultValue /\ ~locHasDefault THEN FALSE
          ELSE AreTypesCompatible(variableType, Unwrap(locationType))
  ELSE AreTypesCompatible(variableType, locationType)

\* sub: set of <<possibleSubType, superType>> pairs of named types (implements / union membership)
IsSubType(possibleSubType, superType, sub) ==
  \/ possibleSubType = superType
  \/ /\ possibleSubType[1] = "named" /\ superType[1] = "named"
     /\ <<possibleSubType[2], superType[2]>> \in sub

RECURSIVE IsValidImplementationFieldType(_, _, _)
IsValidImplementationFieldType(fieldType, implementedFieldType, sub) ==
  IF IsNonNull(fieldType)                                 \* 1
  THEN LET implementedNullable == IF IsNonNull(implementedFieldType) THEN Unwrap(implementedFieldType)
                                  ELSE implementedFieldType
       IN IsValidImplementationFieldType(Unwrap(fieldType), implementedNullable, sub)
  ELSE IF IsList(fieldType) /\ IsList(implementedFieldType)   \* 2
  THEN IsValidImplementationFieldType(Unwrap(fieldType), Unwrap(implementedFieldType), sub)
  ELSE IsSubType(fieldType, implementedFieldType, sub)    \* 3
=============================================================================
