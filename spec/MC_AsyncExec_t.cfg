SPECIFICATION Spec
INVARIANT InvE
PROPERTY Terminates
CHECK_DEADLOCK FALSE
CONSTANTS
  K = 6
  P = 3
