SPECIFICATION Spec
INVARIANT Inv
CHECK_DEADLOCK FALSE
CONSTANTS
  MaxLen = 6
  Prefix <- PEnum
  Suffix <- SBrace
  Alphabet = {"n1", "true", "null", "@", "str", "(", ")", ":", "int", "}"}
