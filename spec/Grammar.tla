------------------------------ MODULE Grammar ------------------------------
(***************************************************************************)
(* The October 2021 GraphQL document grammar (Appendix B, "Document            *)
(* Syntax") as DATA, plus a generic EBNF interpreter.  It is the reference    *)
(* parser of C05 and C07 and is reused by Printer (C08) and the depth         *)
(* reference of C04.                                                           *)
(*                                                                             *)
(* A token is a string: a punctuator ("{", "...", ...), a name (keywords are  *)
(* just names: "query", "on", "true", ...; plain names "n1", "n2", ...), or   *)
(* one of "int", "float", "str", "bstr" (any IntValue / FloatValue / quoted   *)
(* string / block string).  Ignored tokens never reach the grammar.           *)
(***************************************************************************)
EXTENDS Naturals, Sequences, FiniteSets

Puncts == {"!", "$", "&", "(", ")", "...", ":", "=", "@", "[", "]", "{", "|", "}"}
Literals == {"int", "float", "str", "bstr"}
IsNameTok(t) == t \notin Puncts /\ t \notin Literals

DirLocs == {"QUERY", "MUTATION", "SUBSCRIPTION", "FIELD", "FRAGMENT_DEFINITION", "FRAGMENT_SPREAD",
            "INLINE_FRAGMENT", "VARIABLE_DEFINITION", "SCHEMA", "SCALAR", "OBJECT", "FIELD_DEFINITION",
            "ARGUMENT_DEFINITION", "INTERFACE", "UNION", "ENUM", "ENUM_VALUE", "INPUT_OBJECT",
            "INPUT_FIELD_DEFINITION"}

\* ---- EBNF terms ------------------------------------------------------------
T(s)      == <<"t", s>>              \* this exact token
N(n)      == <<"n", n>>              \* non-terminal
Sq(es)    == <<"seq", es>>
Alt(es)   == <<"alt", es>>
Opt(e)    == <<"opt", e>>
Plus(e)   == <<"plus", e>>
NameT     == <<"name", {}>>          \* any Name
NameNot(S) == <<"name", S>>          \* Name but not one of S
NameIn(S) == <<"namein", S>>
NotNext(s) == <<"notnext", s>>       \* [lookahead != s]
Lit(S)    == <<"lit", S>>            \* one of the literal token classes

\* Non-terminals parameterised by Const are duplicated: X / XC.
G == [
  Document |-> Plus(N("Definition")),
  Definition |-> Alt(<<N("OperationDefinition"), N("FragmentDefinition"), N("SchemaDefinition"),
                      N("ScalarTypeDefinition"), N("ObjectTypeDefinition"), N("InterfaceTypeDefinition"),
                      N("UnionTypeDefinition"), N("EnumTypeDefinition"), N("InputObjectTypeDefinition"),
                      N("DirectiveDefinition"), N("SchemaExtension"), N("ScalarTypeExtension"),
                      N("ObjectTypeExtension"), N("InterfaceTypeExtension"), N("UnionTypeExtension"),
                      N("EnumTypeExtension"), N("InputObjectTypeExtension")>>),
  OperationDefinition |-> Alt(<<Sq(<<N("OperationType"), Opt(NameT), Opt(N("VariableDefinitions")),
                                    Opt(N("Directives")), N("SelectionSet")>>),
                                N("SelectionSet")>>),
  OperationType |-> NameIn({"query", "mutation", "subscription"}),
  SelectionSet |-> Sq(<<T("{"), Plus(N("Selection")), T("}")>>),
  Selection |-> Alt(<<N("Field"), N("FragmentSpread"), N("InlineFragment")>>),
  Field |-> Sq(<<Opt(Sq(<<NameT, T(":")>>)), NameT, Opt(N("Arguments")), Opt(N("Directives")),
                 Opt(N("SelectionSet"))>>),
  Arguments |-> Sq(<<T("("), Plus(Sq(<<NameT, T(":"), N("Value")>>)), T(")")>>),
  ArgumentsC |-> Sq(<<T("("), Plus(Sq(<<NameT, T(":"), N("ValueC")>>)), T(")")>>),
  FragmentSpread |-> Sq(<<T("..."), NameNot({"on"}), Opt(N("Directives"))>>),
  InlineFragment |-> Sq(<<T("..."), Opt(N("TypeCondition")), Opt(N("Directives")), N("SelectionSet")>>),
  FragmentDefinition |-> Sq(<<T("fragment"), NameNot({"on"}), N("TypeCondition"), Opt(N("Directives")),
                              N("SelectionSet")>>),
  TypeCondition |-> Sq(<<T("on"), NameT>>),
  Value |-> Alt(<<Sq(<<T("$"), NameT>>), Lit(Literals), NameT,
                  Sq(<<T("["), T("]")>>), Sq(<<T("["), Plus(N("Value")), T("]")>>),
                  Sq(<<T("{"), T("}")>>),
                  Sq(<<T("{"), Plus(Sq(<<NameT, T(":"), N("Value")>>)), T("}")>>)>>),
  ValueC |-> Alt(<<Lit(Literals), NameT,
                  Sq(<<T("["), T("]")>>), Sq(<<T("["), Plus(N("ValueC")), T("]")>>),
                  Sq(<<T("{"), T("}")>>),
                  Sq(<<T("{"), Plus(Sq(<<NameT, T(":"), N("ValueC")>>)), T("}")>>)>>),
  VariableDefinitions |-> Sq(<<T("("), Plus(N("VariableDefinition")), T(")")>>),
  VariableDefinition |-> Sq(<<T("$"), NameT, T(":"), N("Type"), Opt(Sq(<<T("="), N("ValueC")>>)),
                              Opt(N("DirectivesC"))>>),
  Type |-> Alt(<<Sq(<<NameT, Opt(T("!"))>>), Sq(<<T("["), N("Type"), T("]"), Opt(T("!"))>>)>>),
  Directives |-> Plus(Sq(<<T("@"), NameT, Opt(N("Arguments"))>>)),
  DirectivesC |-> Plus(Sq(<<T("@"), NameT, Opt(N("ArgumentsC"))>>)),
  Description |-> Lit({"str", "bstr"}),
  SchemaDefinition |-> Sq(<<Opt(N("Description")), T("schema"), Opt(N("DirectivesC")),
                            T("{"), Plus(N("RootOp")), T("}")>>),
  RootOp |-> Sq(<<N("OperationType"), T(":"), NameT>>),
  SchemaExtension |-> Alt(<<Sq(<<T("extend"), T("schema"), Opt(N("DirectivesC")), T("{"), Plus(N("RootOp")), T("}")>>),
                            Sq(<<T("extend"), T("schema"), N("DirectivesC"), NotNext("{")>>)>>),
  ScalarTypeDefinition |-> Sq(<<Opt(N("Description")), T("scalar"), NameT, Opt(N("DirectivesC"))>>),
  ScalarTypeExtension |-> Sq(<<T("extend"), T("scalar"), NameT, N("DirectivesC")>>),
  Implements |-> Sq(<<T("implements"), Opt(T("&")), NameT, Opt(Plus(Sq(<<T("&"), NameT>>)))>>),
  FieldsDefinition |-> Sq(<<T("{"), Plus(N("FieldDefinition")), T("}")>>),
  FieldDefinition |-> Sq(<<Opt(N("Description")), NameT, Opt(N("ArgumentsDefinition")), T(":"), N("Type"),
                           Opt(N("DirectivesC"))>>),
  ArgumentsDefinition |-> Sq(<<T("("), Plus(N("InputValueDefinition")), T(")")>>),
  InputValueDefinition |-> Sq(<<Opt(N("Description")), NameT, T(":"), N("Type"),
                                Opt(Sq(<<T("="), N("ValueC")>>)), Opt(N("DirectivesC"))>>),
  ObjectTypeDefinition |-> Sq(<<Opt(N("Description")), T("type"), NameT, Opt(N("Implements")), Opt(N("DirectivesC")),
                                Alt(<<N("FieldsDefinition"), NotNext("{")>>)>>),
  ObjectTypeExtension |-> Alt(<<Sq(<<T("extend"), T("type"), NameT, Opt(N("Implements")), Opt(N("DirectivesC")), N("FieldsDefinition")>>),
                                Sq(<<T("extend"), T("type"), NameT, Opt(N("Implements")), N("DirectivesC"), NotNext("{")>>),
                                Sq(<<T("extend"), T("type"), NameT, N("Implements"), NotNext("{")>>)>>),
  InterfaceTypeDefinition |-> Sq(<<Opt(N("Description")), T("interface"), NameT, Opt(N("Implements")), Opt(N("DirectivesC")),
                                   Alt(<<N("FieldsDefinition"), NotNext("{")>>)>>),
  InterfaceTypeExtension |-> Alt(<<Sq(<<T("extend"), T("interface"), NameT, Opt(N("Implements")), Opt(N("DirectivesC")), N("FieldsDefinition")>>),
                                   Sq(<<T("extend"), T("interface"), NameT, Opt(N("Implements")), N("DirectivesC"), NotNext("{")>>),
                                   Sq(<<T("extend"), T("interface"), NameT, N("Implements"), NotNext("{")>>)>>),
  UnionMembers |-> Sq(<<T("="), Opt(T("|")), NameT, Opt(Plus(Sq(<<T("|"), NameT>>)))>>),
  UnionTypeDefinition |-> Sq(<<Opt(N("Description")), T("union"), NameT, Opt(N("DirectivesC")), Opt(N("UnionMembers"))>>),
  UnionTypeExtension |-> Alt(<<Sq(<<T("extend"), T("union"), NameT, Opt(N("DirectivesC")), N("UnionMembers")>>),
                               Sq(<<T("extend"), T("union"), NameT, N("DirectivesC")>>)>>),
  EnumValues |-> Sq(<<T("{"), Plus(Sq(<<Opt(N("Description")), NameNot({"true", "false", "null"}), Opt(N("DirectivesC"))>>)), T("}")>>),
  EnumTypeDefinition |-> Sq(<<Opt(N("Description")), T("enum"), NameT, Opt(N("DirectivesC")),
                              Alt(<<N("EnumValues"), NotNext("{")>>)>>),
  EnumTypeExtension |-> Alt(<<Sq(<<T("extend"), T("enum"), NameT, Opt(N("DirectivesC")), N("EnumValues")>>),
                              Sq(<<T("extend"), T("enum"), NameT, N("DirectivesC"), NotNext("{")>>)>>),
  InputFields |-> Sq(<<T("{"), Plus(N("InputValueDefinition")), T("}")>>),
  InputObjectTypeDefinition |-> Sq(<<Opt(N("Description")), T("input"), NameT, Opt(N("DirectivesC")),
                                     Alt(<<N("InputFields"), NotNext("{")>>)>>),
  InputObjectTypeExtension |-> Alt(<<Sq(<<T("extend"), T("input"), NameT, Opt(N("DirectivesC")), N("InputFields")>>),
                                     Sq(<<T("extend"), T("input"), NameT, N("DirectivesC"), NotNext("{")>>)>>),
  DirectiveDefinition |-> Sq(<<Opt(N("Description")), T("directive"), T("@"), NameT, Opt(N("ArgumentsDefinition")),
                               Opt(T("repeatable")), T("on"), Opt(T("|")), NameIn(DirLocs),
                               Opt(Plus(Sq(<<T("|"), NameIn(DirLocs)>>)))>>),
  \* stand-alone entry points (C07)
  FieldSet |-> Alt(<<N("SelectionSet"), Plus(N("Selection"))>>)
]

At(toks, i) == IF i >= 1 /\ i <= Len(toks) THEN toks[i] ELSE "<eof>"

(* Ends(e, toks, i): the set of positions j such that toks[i..j-1] derives from e.    *)
RECURSIVE Ends(_, _, _)
RECURSIVE SeqEnds(_, _, _, _)
RECURSIVE PlusEnds(_, _, _, _)
SeqEnds(es, k, toks, starts) ==
  IF k > Len(es) \/ starts = {} THEN starts
  ELSE SeqEnds(es, k + 1, toks, UNION {Ends(es[k], toks, i) : i \in starts})
\* one or more repetitions: least fixed point, every repetition consumes at least one token
PlusEnds(e, toks, frontier, acc) ==
  LET nxt == UNION {Ends(e, toks, i) : i \in frontier} \ acc IN
  IF nxt = {} THEN acc ELSE PlusEnds(e, toks, nxt, acc \cup nxt)
Ends(e, toks, i) ==
  CASE e[1] = "t"       -> IF At(toks, i) = e[2] THEN {i + 1} ELSE {}
    [] e[1] = "name"    -> IF i <= Len(toks) /\ IsNameTok(toks[i]) /\ toks[i] \notin e[2] THEN {i + 1} ELSE {}
    [] e[1] = "namein"  -> IF At(toks, i) \in e[2] THEN {i + 1} ELSE {}
    [] e[1] = "lit"     -> IF At(toks, i) \in e[2] THEN {i + 1} ELSE {}
    [] e[1] = "notnext" -> IF At(toks, i) = e[2] THEN {} ELSE {i}
    [] e[1] = "n"       -> Ends(G[e[2]], toks, i)
    [] e[1] = "seq"     -> SeqEnds(e[2], 1, toks, {i})
    [] e[1] = "alt"     -> UNION {Ends(e[2][k], toks, i) : k \in 1..Len(e[2])}
    [] e[1] = "opt"     -> {i} \cup Ends(e[2], toks, i)
    [] e[1] = "plus"    -> PlusEnds(e[2], toks, {i}, {})

Derives(nt, toks) == (Len(toks) + 1) \in Ends(G[nt], toks, 1)
InGrammar(toks) == Derives("Document", toks)
IsTypeRef(toks) == Derives("Type", toks)
IsFieldSet(toks) == Derives("FieldSet", toks)

\* ---- top-level structure of a member of the language ------------------------
DefKinds == <<"OperationDefinition", "FragmentDefinition", "SchemaDefinition", "ScalarTypeDefinition",
              "ObjectTypeDefinition", "InterfaceTypeDefinition", "UnionTypeDefinition", "EnumTypeDefinition",
              "InputObjectTypeDefinition", "DirectiveDefinition", "SchemaExtension", "ScalarTypeExtension",
              "ObjectTypeExtension", "InterfaceTypeExtension", "UnionTypeExtension", "EnumTypeExtension",
              "InputObjectTypeExtension">>

RECURSIVE CanFinish(_, _)
CanFinish(toks, i) ==
  i = Len(toks) + 1 \/
  \E k \in 1..Len(DefKinds) : \E j \in Ends(G[DefKinds[k]], toks, i) : j > i /\ CanFinish(toks, j)

\* the name of a definition starting at i of kind k ("" when anonymous / schema)
DefName(kind, toks, i) ==
  LET d == IF At(toks, i) \in {"str", "bstr"} THEN i + 1 ELSE i    \* skip description
      x == IF At(toks, d) = "extend" THEN d + 1 ELSE d             \* skip `extend`
  IN CASE kind = "OperationDefinition" ->
            (IF At(toks, i) = "{" THEN "" ELSE IF IsNameTok(At(toks, i + 1)) /\ At(toks, i + 1) # "<eof>" THEN toks[i + 1] ELSE "")
       [] kind \in {"SchemaDefinition", "SchemaExtension"} -> ""
       [] kind = "DirectiveDefinition" -> At(toks, x + 2)
       [] OTHER -> At(toks, x + 1)

RECURSIVE TopFrom(_, _)
TopFrom(toks, i) ==
  IF i = Len(toks) + 1 THEN <<>>
  ELSE LET c == CHOOSE p \in {<<k, j>> : k \in 1..Len(DefKinds), j \in (i + 1)..(Len(toks) + 1)} :
                    p[2] \in Ends(G[DefKinds[p[1]]], toks, i) /\ CanFinish(toks, p[2])
       IN <<<<DefKinds[c[1]], DefName(DefKinds[c[1]], toks, i)>>>> \o TopFrom(toks, c[2])

\* Only meaningful when InGrammar(toks).
TopLevel(toks) == TopFrom(toks, 1)
=============================================================================
