---------------------------- MODULE Trace_LineCol ----------------------------
(* C11 impl -> spec: one line per real document: locations of every node and   *)
(* name reachable through the public API of AST, Schema and ExecutableDocument, *)
(* and the positions reported by diagnostics (API, JSON, rendered text).        *)
EXTENDS LineCol, TLC, Json, IOUtils
Rec == ndJsonDeserialize(IOEnv.TRACE)
VARIABLES l, bad
vars == <<l, bad>>

Sel(name, cond) == IF cond THEN {} ELSE {name}
\* name = <<start, end, byteLen, sliceEqualsName>>; node = <<start, end, onCharBoundaries>>
NamesOK(r) == \A k \in 1..Len(r.names) :
                 LET n == r.names[k] IN n[1] <= n[2] /\ n[2] <= r.len /\ n[2] - n[1] = n[3] /\ n[4]
NodesOK(r) == \A k \in 1..Len(r.nodes) :
                 LET n == r.nodes[k] IN n[1] <= n[2] /\ n[2] <= r.len /\ n[3]
DiagApiOK(r) == \A k \in 1..Len(r.diags) :
                 LET d == r.diags[k] IN
                   d.lc = LineColumn(r.text, d.start) \o LineColumn(r.text, d.end)
DiagJsonOK(r) == \A k \in 1..Len(r.diags) : r.diags[k].json = LineColumn(r.text, r.diags[k].start)
DiagHeaderOK(r) == \A k \in 1..Len(r.diags) : r.diags[k].header = LineColumn(r.text, r.diags[k].start)

Fails(r) == UNION { Sel("crash", ~r.crash), Sel("name-location", r.crash \/ NamesOK(r)), Sel("node-location", r.crash \/ NodesOK(r)),
                    Sel("diagnostic-line-column", r.crash \/ DiagApiOK(r)), Sel("json-location", r.crash \/ DiagJsonOK(r)),
                    Sel("rendered-header-position", r.crash \/ DiagHeaderOK(r)) }

Init == l = 1 /\ bad = {}
Next == /\ l <= Len(Rec) /\ l' = l + 1
        /\ bad' = IF Fails(Rec[l]) = {} THEN bad ELSE bad \cup {<<l, Fails(Rec[l])>>}
Spec == Init /\ [][Next]_vars
Report == (l = Len(Rec) + 1) => PrintT(ToJson(<<"RESULT", l - 1, bad>>))
=============================================================================
