---------------------------- MODULE Trace_Coercion ----------------------------
(* C28 impl -> spec: recorded results of coerce_variable_values for random types *)
(* (up to three wrappers) and random JSON values.  Objects are recorded with     *)
(* keys sorted; the reference result is compared modulo key order.               *)
EXTENDS Coercion, TLC, Json, IOUtils
Rec == ndJsonDeserialize(IOEnv.TRACE)
VARIABLES l, bad
vars == <<l, bad>>

RECURSIVE Canon(_)
\* sort object keys (insertion sort on the pairs) so that results compare modulo key order
RECURSIVE InsertPair(_, _)
InsertPair(sorted, p) == IF sorted = <<>> THEN <<p>>
                         ELSE IF p[1] = Head(sorted)[1] THEN sorted
                         ELSE IF \E k \in 1..Len(sorted) : FALSE THEN sorted
                         ELSE <<Head(sorted)>> \o InsertPair(Tail(sorted), p)
Keys == <<"d", "l", "n", "r", "x">>
SortPairs(pairs) == LET present == SelectSeq(Keys, LAMBDA k : \E j \in 1..Len(pairs) : pairs[j][1] = k)
                    IN [i \in 1..Len(present) |-> <<present[i], Canon(pairs[CHOOSE j \in 1..Len(pairs) : pairs[j][1] = present[i]][2])>>]
Canon(v) == CASE v[1] = "list" -> <<"list", [k \in 1..Len(v[2]) |-> Canon(v[2][k])]>>
              [] v[1] = "obj"  -> <<"obj", SortPairs(v[2])>>
              [] OTHER -> v
CanonResult(r) == IF r[1] = "ok" /\ r[2][1] = "present" THEN <<"ok", <<"present", Canon(r[2][2])>>>> ELSE r

LineOK(r) == ~r.crash /\ CanonResult(r.got) = CanonResult(CoerceVariable(r.type, FALSE, Null, r.provided))
Init == l = 1 /\ bad = {}
Next == /\ l <= Len(Rec) /\ l' = l + 1
        /\ bad' = IF LineOK(Rec[l]) THEN bad ELSE bad \cup {l}
Spec == Init /\ [][Next]_vars
Report == (l = Len(Rec) + 1) => PrintT(ToJson(<<"RESULT", l - 1, bad>>))
=============================================================================
