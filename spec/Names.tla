------------------------------- MODULE Names -------------------------------
(***************************************************************************)
(* Well-formedness of names, numeric literals and type references (C10).   *)
(* Name / IntValue / FloatValue predicates come from LexGrammar; type      *)
(* references are printed per the Type production and must tokenise and    *)
(* parse (LexGrammar + Grammar) back to a type reference.                  *)
(***************************************************************************)
EXTENDS LexGrammar

\* abstract type references: <<"named", n>> | <<"list", t>> | <<"nonnull", t>>  (t not nonnull)
RECURSIVE TypesOfDepth(_, _)
TypesOfDepth(names, d) ==
  IF d = 0 THEN {<<"named", n>> : n \in names}
  ELSE LET inner == TypesOfDepth(names, d - 1) IN
       inner \cup {<<"list", t>> : t \in inner}
             \cup {<<"nonnull", t>> : t \in {u \in inner : u[1] # "nonnull"}}

RECURSIVE PrintType(_)
\* code points of the printed type; a name n is printed as the single letter with code point n
PrintType(t) ==
  CASE t[1] = "named"   -> <<t[2]>>
    [] t[1] = "list"    -> <<91>> \o PrintType(t[2]) \o <<93>>
    [] t[1] = "nonnull" -> PrintType(t[2]) \o <<33>>

\* token kinds of a text (ignored tokens dropped), for Grammar!IsTypeRef
TokenKindsOf(s) == LET r == RefLex(s) IN [k \in 1..Len(Significant(r[2])) |-> Significant(r[2])[k][1]]
=============================================================================
