SPECIFICATION Spec
INVARIANT Inv
CHECK_DEADLOCK FALSE
CONSTANTS
  MaxLen = 6
  Prefix <- PSel
  Suffix <- SBrace
  Alphabet = {"n1", ":", "...", "on", "@", "{", "}", "(", ")", "int"}
