---------------------------- MODULE Trace_Strings ----------------------------
(* Trace validation for C06 and C09.                                          *)
(*  kind "decode" (C06): a literal the real lexer accepted as one StringValue, *)
(*     and the distinct values the real code produced for it in 44 positions   *)
(*     (22 CST StringValue nodes, 22 AST descriptions / values).               *)
(*  kind "encode" (C09): a string value and the distinct literals the real     *)
(*     serializer printed for it over positions and configurations.            *)
EXTENDS Strings, TLC, Json, IOUtils

Rec == ndJsonDeserialize(IOEnv.TRACE)
VARIABLES l, bad
vars == <<l, bad>>

DecodeOK(r) ==
  /\ ~r.crash
  /\ IsStringLiteral(r.lit)
  /\ r.slots = 44
  /\ r.values = <<DecodeLiteral(r.lit)>>

EncodeOK(r) ==
  /\ Len(r.literals) >= 1
  /\ \A k \in 1..Len(r.literals) :
       /\ IsStringLiteral(r.literals[k])             \* exactly one valid string token
       /\ DecodeLiteral(r.literals[k]) = r.value     \* whose spec-defined value is the original

LineOK(r) == IF r.kind = "decode" THEN DecodeOK(r) ELSE EncodeOK(r)

Init == l = 1 /\ bad = {}
Next == /\ l <= Len(Rec)
        /\ l' = l + 1
        /\ bad' = IF LineOK(Rec[l]) THEN bad ELSE bad \cup {l}
Spec == Init /\ [][Next]_vars
Report == (l = Len(Rec) + 1) => PrintT(ToJson(<<"RESULT", l - 1, bad>>))
=============================================================================
