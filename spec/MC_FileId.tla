------------------------------ MODULE MC_FileId ------------------------------
EXTENDS FileId, TLC
CONSTANT Broken
MCInit == \E r0 \in 3..TAG : FInit(r0)      \* every initial register value up to the wrap point (values above TAG are only reachable through the algorithm)
MCNext == IF Broken THEN BrokenNext ELSE FNext
Spec == MCInit /\ [][MCNext]_fvars
Inv == Unique /\ NotReserved /\ PackUnpack
=============================================================================
