----------------------------- MODULE ArgCoercion -----------------------------
(***************************************************************************)
(* CoerceArgumentValues (October 2021, 6.4.1) with the input coercion of    *)
(* literals that contain variables (3.10 input objects, 3.11 lists) -       *)
(* growth item X03 (resolvers/input_coercion.rs coerce_argument_values,      *)
(* coerce_argument_value).  Execution.tla (C26) passes no arguments; this    *)
(* module is the missing piece between CollectFields and the resolver call.  *)
(*                                                                         *)
(* Abstract data:                                                          *)
(*   type     <<"named", n>> | <<"nn", t>> | <<"list", t>>                  *)
(*   value    <<"null">> | <<"int", i>> | <<"list", items>> | <<"obj", <<<<name, value>>, ..>>>> *)
(*   literal  a value in which <<"var">> may stand at any position          *)
(*   variable state (after CoerceVariableValues)  <<"missing">> | <<"val", value>> *)
(*   outcome  <<"absent">> | <<"value", v>> | <<"error">>                   *)
(***************************************************************************)
EXTENDS Naturals, Sequences, FiniteSets

Named(n) == <<"named", n>>
NN(t) == <<"nn", t>>
ListOf(t) == <<"list", t>>
VNull == <<"null">>
I(n) == <<"int", n>>
L(items) == <<"list", items>>
O(fields) == <<"obj", fields>>
Var == <<"var">>
NoDefault == <<"none">>
Default(v) == <<"some", v>>
FieldDef(n, t, d) == [name |-> n, type |-> t, default |-> d]

\* the input object types of the fixed schema (the harness renders the same SDL)
InputFields(n) ==
  CASE n = "In"  -> << FieldDef("a", Named("Int"), NoDefault),
                       FieldDef("b", NN(Named("Int")), Default(I(5))),
                       FieldDef("c", Named("Int"), Default(I(7))) >>
    [] n = "Req" -> << FieldDef("r", NN(Named("Int")), NoDefault),
                       FieldDef("o", Named("In"), NoDefault) >>
    [] OTHER -> <<>>
IsInput(n) == n \in {"In", "Req"}

IsNN(t) == t[1] = "nn"
IsInt(t) == t[1] = "named" /\ t[2] = "Int"
IsVar(lit) == lit[1] = "var"
Missing == <<"missing">>
\* "hasValue" of 6.4.1 / "provided" of 3.10: a variable without a runtime value counts as not given at all
Provided(lit, vs) == ~(IsVar(lit) /\ vs[1] = "missing")

Invalid == <<"invalid">>
Ok(v) == <<"ok", v>>

RECURSIVE CoerceLit(_, _, _), CoerceItems(_, _, _, _, _), CoerceFields(_, _, _, _, _)
\* coercion of a literal that IS provided
CoerceLit(t, lit, vs) ==
  IF IsVar(lit) THEN (IF vs[2][1] = "null" /\ IsNN(t) THEN Invalid ELSE Ok(vs[2]))      \* runtime values were coerced already
  ELSE IF IsNN(t) THEN (IF lit[1] = "null" THEN Invalid ELSE CoerceLit(t[2], lit, vs))
  ELSE IF lit[1] = "null" THEN Ok(VNull)
  ELSE IF t[1] = "list" THEN
       IF lit[1] = "list" THEN CoerceItems(t[2], lit[2], 1, <<>>, vs)
       ELSE LET r == CoerceLit(t[2], lit, vs) IN IF r[1] = "invalid" THEN Invalid ELSE Ok(L(<<r[2]>>))   \* 3.11: a single value is a list of one
  ELSE IF IsInput(t[2]) THEN
       IF lit[1] = "obj" THEN CoerceFields(InputFields(t[2]), 1, lit[2], <<>>, vs) ELSE Invalid
  ELSE Ok(lit)                                                                        \* scalars: validation guarantees the kind
CoerceItems(it, items, i, acc, vs) ==
  IF i > Len(items) THEN Ok(L(acc))
  ELSE IF ~Provided(items[i], vs)
       THEN (IF IsNN(it) THEN Invalid ELSE CoerceItems(it, items, i + 1, Append(acc, VNull), vs))   \* a list has no holes: null
       ELSE LET r == CoerceLit(it, items[i], vs) IN
            IF r[1] = "invalid" THEN Invalid ELSE CoerceItems(it, items, i + 1, Append(acc, r[2]), vs)
CoerceFields(fdefs, i, given, acc, vs) ==
  IF i > Len(fdefs) THEN Ok(O(acc))
  ELSE LET fd == fdefs[i]
           ks == {k \in 1..Len(given) : given[k][1] = fd.name}
           has == ks # {} /\ Provided(given[CHOOSE k \in ks : TRUE][2], vs)
       IN IF ~has
          THEN IF fd.default[1] = "some" THEN CoerceFields(fdefs, i + 1, given, Append(acc, <<fd.name, fd.default[2]>>), vs)
               ELSE IF IsNN(fd.type) THEN Invalid
               ELSE CoerceFields(fdefs, i + 1, given, acc, vs)                         \* no entry at all
          ELSE LET r == CoerceLit(fd.type, given[CHOOSE k \in ks : TRUE][2], vs) IN
               IF r[1] = "invalid" THEN Invalid
               ELSE CoerceFields(fdefs, i + 1, given, Append(acc, <<fd.name, r[2]>>), vs)

\* 6.4.1 for one argument definition [type, default]; usage = <<"absent">> or a literal
CoerceArg(ad, usage, vs) ==
  IF usage[1] = "absent" \/ ~Provided(usage, vs)
  THEN IF ad.default[1] = "some" THEN <<"value", ad.default[2]>>
       ELSE IF IsNN(ad.type) THEN <<"error">>
       ELSE <<"absent">>
  ELSE LET r == CoerceLit(ad.type, usage, vs) IN
       IF r[1] = "invalid" THEN <<"error">> ELSE <<"value", r[2]>>

\* ---- structural typing of the cases the model generates (the real validator has the last word) ----
RECURSIVE Fits(_, _)
Fits(t, lit) ==
  IF IsVar(lit) THEN (IsInt(t) \/ (IsNN(t) /\ IsInt(t[2])))        \* the variable is declared Int / Int!
  ELSE IF lit[1] = "null" THEN ~IsNN(t)
  ELSE IF IsNN(t) THEN Fits(t[2], lit)
  ELSE IF t[1] = "list" THEN (IF lit[1] = "list" THEN \A k \in 1..Len(lit[2]) : Fits(t[2], lit[2][k]) ELSE Fits(t[2], lit))
  ELSE IF IsInput(t[2]) THEN
       /\ lit[1] = "obj"
       /\ \A k \in 1..Len(lit[2]) : \E j \in 1..Len(InputFields(t[2])) :
             InputFields(t[2])[j].name = lit[2][k][1] /\ Fits(InputFields(t[2])[j].type, lit[2][k][2])
  ELSE lit[1] = "int"
RECURSIVE UsesVar(_)
UsesVar(lit) ==
  CASE lit[1] = "var" -> TRUE
    [] lit[1] = "list" -> \E k \in 1..Len(lit[2]) : UsesVar(lit[2][k])
    [] lit[1] = "obj" -> \E k \in 1..Len(lit[2]) : UsesVar(lit[2][k][2])
    [] OTHER -> FALSE

\* ---- properties of the reference itself (checked by TLC over the universe) -------------------
RECURSIVE Conforms(_, _)
\* a coerced value conforms to its type (variables hold values of their declared type: Int)
Conforms(t, v) ==
  IF IsNN(t) THEN v[1] # "null" /\ Conforms(t[2], v)
  ELSE IF v[1] = "null" THEN TRUE
  ELSE IF t[1] = "list" THEN v[1] = "list" /\ \A k \in 1..Len(v[2]) : Conforms(t[2], v[2][k])
  ELSE IF IsInput(t[2]) THEN
       /\ v[1] = "obj"
       /\ \A j \in 1..Len(InputFields(t[2])) :
             LET fd == InputFields(t[2])[j]
                 ks == {k \in 1..Len(v[2]) : v[2][k][1] = fd.name} IN
             /\ Cardinality(ks) <= 1
             /\ (ks = {} => ~IsNN(fd.type))
             /\ \A k \in ks : Conforms(fd.type, v[2][k][2])
       /\ \A k \in 1..Len(v[2]) : \E j \in 1..Len(InputFields(t[2])) : InputFields(t[2])[j].name = v[2][k][1]
  ELSE v[1] = "int"
\* whatever reaches a resolver conforms to the argument's type; a required argument is never absent
OutcomeConforms(ad, out) ==
  /\ out[1] = "value" => Conforms(ad.type, out[2])
  /\ out[1] = "absent" => ~IsNN(ad.type)
=============================================================================
