-------------------------- MODULE Trace_TypeCompat --------------------------
(* C29 impl -> spec: recorded results of Type::is_assignable_to on deep types. *)
EXTENDS TypeCompat, TLC, Json, IOUtils
Rec == ndJsonDeserialize(IOEnv.TRACE)
VARIABLES l, bad
vars == <<l, bad>>
LineOK(r) == ~r.crash /\ (r.got = AreTypesCompatible(r.var, r.loc))
Init == l = 1 /\ bad = {}
Next == /\ l <= Len(Rec) /\ l' = l + 1
        /\ bad' = IF LineOK(Rec[l]) THEN bad ELSE bad \cup {l}
Spec == Init /\ [][Next]_vars
Report == (l = Len(Rec) + 1) => PrintT(ToJson(<<"RESULT", l - 1, bad>>))
=============================================================================
