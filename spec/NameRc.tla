------------------------------- MODULE NameRc -------------------------------
(***************************************************************************)
(* Name (hand-rolled reference counting over Arc<str> / &'static str with  *)
(* a packed location) and Node<T> (copy-on-write shared node) as shared    *)
(* values (C30).  One action per public operation; each is one atomic step *)
(* of the thread that performs it.                                         *)
(*                                                                         *)
(* allocs : allocation id -> [text, count]      (string allocations)       *)
(* hs     : handle id -> [kind, alloc, text, loc] | Dead                   *)
(*          kind \in {"heap" (Name over Arc), "static" (Name over &'static *)
(*          str), "arc" (a plain Arc<str> held by the user)}               *)
(* nallocs: node allocation id -> [value, count]                           *)
(* ns     : node handle id -> allocation id | 0 (dead)                     *)
(***************************************************************************)
EXTENDS Naturals, Sequences, FiniteSets

CONSTANTS Texts, Locs, Values, MaxHandles, MaxNodes

Dead == [kind |-> "dead", alloc |-> 0, text |-> "", loc |-> 0]

VARIABLES allocs, hs, nallocs, ns
rvars == <<allocs, hs, nallocs, ns>>

RInit == allocs = <<>> /\ hs = <<>> /\ nallocs = <<>> /\ ns = <<>>

Live(h) == h \in 1..Len(hs) /\ hs[h].kind # "dead"
LiveNode(n) == n \in 1..Len(ns) /\ ns[n] # 0
Bump(a, d) == [allocs EXCEPT ![a].count = allocs[a].count + d]
Unbump(a) == [allocs EXCEPT ![a].count = allocs[a].count - 1]

\* ---- names -------------------------------------------------------------------
NewHeap(s) ==            \* Name::new(&str): a fresh Arc<str>
  /\ Len(hs) < MaxHandles
  /\ allocs' = Append(allocs, [text |-> s, count |-> 1])
  /\ hs' = Append(hs, [kind |-> "heap", alloc |-> Len(allocs) + 1, text |-> s, loc |-> 0])
  /\ UNCHANGED <<nallocs, ns>>
NewStatic(s) ==          \* Name::new_static(&'static str)
  /\ Len(hs) < MaxHandles
  /\ hs' = Append(hs, [kind |-> "static", alloc |-> 0, text |-> s, loc |-> 0])
  /\ UNCHANGED <<allocs, nallocs, ns>>
Clone(h) ==              \* Name::clone / Arc::clone
  /\ Live(h) /\ Len(hs) < MaxHandles
  /\ hs' = Append(hs, hs[h])
  /\ allocs' = IF hs[h].kind = "static" THEN allocs ELSE Bump(hs[h].alloc, 1)
  /\ UNCHANGED <<nallocs, ns>>
Drop(h) ==
  /\ Live(h)
  /\ hs' = [hs EXCEPT ![h] = Dead]
  /\ allocs' = IF hs[h].kind = "static" THEN allocs ELSE Unbump(hs[h].alloc)
  /\ UNCHANGED <<nallocs, ns>>
WithLocation(h, l) ==    \* name.with_location(span): same handle, new location, count unchanged
  /\ Live(h) /\ hs[h].kind \in {"heap", "static"}
  /\ hs' = [hs EXCEPT ![h].loc = l]
  /\ UNCHANGED <<allocs, nallocs, ns>>
ToClonedArc(h) ==        \* name.to_cloned_arc(): Some(new Arc handle) for heap names, None for static
  /\ Live(h) /\ hs[h].kind = "heap" /\ Len(hs) < MaxHandles
  /\ hs' = Append(hs, [kind |-> "arc", alloc |-> hs[h].alloc, text |-> hs[h].text, loc |-> 0])
  /\ allocs' = Bump(hs[h].alloc, 1)
  /\ UNCHANGED <<nallocs, ns>>
FromArc(h) ==            \* Name::try_from(Arc<str>): the Arc handle becomes a heap name (moved, count unchanged)
  /\ Live(h) /\ hs[h].kind = "arc"
  /\ hs' = [hs EXCEPT ![h].kind = "heap"]
  /\ UNCHANGED <<allocs, nallocs, ns>>
IntoArc(h) ==            \* Arc::<str>::from(name): heap name becomes an Arc handle (count unchanged overall);
  /\ Live(h) /\ hs[h].kind = "heap"      \* a static name is copied into a fresh allocation
  /\ hs' = [hs EXCEPT ![h].kind = "arc", ![h].loc = 0]
  /\ UNCHANGED <<allocs, nallocs, ns>>
IntoArcStatic(h) ==
  /\ Live(h) /\ hs[h].kind = "static"
  /\ allocs' = Append(allocs, [text |-> hs[h].text, count |-> 1])
  /\ hs' = [hs EXCEPT ![h] = [kind |-> "arc", alloc |-> Len(allocs) + 1, text |-> hs[h].text, loc |-> 0]]
  /\ UNCHANGED <<nallocs, ns>>

\* ---- nodes -------------------------------------------------------------------
NodeNew(v) ==
  /\ Len(ns) < MaxNodes
  /\ nallocs' = Append(nallocs, [value |-> v, loc |-> Len(nallocs) + 1, count |-> 1]) /\ ns' = Append(ns, Len(nallocs) + 1)
  /\ UNCHANGED <<allocs, hs>>
NodeClone(n) ==
  /\ LiveNode(n) /\ Len(ns) < MaxNodes
  /\ ns' = Append(ns, ns[n]) /\ nallocs' = [nallocs EXCEPT ![ns[n]].count = nallocs[ns[n]].count + 1]
  /\ UNCHANGED <<allocs, hs>>
NodeDrop(n) ==
  /\ LiveNode(n)
  /\ ns' = [ns EXCEPT ![n] = 0] /\ nallocs' = [nallocs EXCEPT ![ns[n]].count = nallocs[ns[n]].count - 1]
  /\ UNCHANGED <<allocs, hs>>
MakeMut(n, v) ==         \* copy-on-write: a shared node is copied first, nobody else sees the change
  /\ LiveNode(n)
  /\ IF nallocs[ns[n]].count = 1
     THEN /\ nallocs' = [nallocs EXCEPT ![ns[n]].value = v] /\ UNCHANGED ns
     ELSE /\ nallocs' = Append([nallocs EXCEPT ![ns[n]].count = nallocs[ns[n]].count - 1],
                               [value |-> v, loc |-> nallocs[ns[n]].loc, count |-> 1])       \* the copy keeps the location
          /\ ns' = [ns EXCEPT ![n] = Len(nallocs) + 1]
  /\ UNCHANGED <<allocs, hs>>
GetMut(n, v) ==          \* get_mut(): Some only for a unique node
  /\ LiveNode(n) /\ nallocs[ns[n]].count = 1
  /\ nallocs' = [nallocs EXCEPT ![ns[n]].value = v]
  /\ UNCHANGED <<allocs, hs, ns>>

\* ---- invariants ----------------------------------------------------------------
CountIsLiveHandles ==
  \A a \in 1..Len(allocs) : allocs[a].count = Cardinality({h \in 1..Len(hs) : hs[h].kind \in {"heap", "arc"} /\ hs[h].alloc = a})
NodeCountIsLiveHandles ==
  \A a \in 1..Len(nallocs) : nallocs[a].count = Cardinality({n \in 1..Len(ns) : ns[n] = a})
TextIsAllocText == \A h \in 1..Len(hs) : hs[h].kind \in {"heap", "arc"} => hs[h].text = allocs[hs[h].alloc].text
NeverNegative == \A a \in 1..Len(allocs) : allocs[a].count >= 0     \* (Naturals: a decrement below 0 is a TLC error)
\* the location read through a node handle is the one its original was created with, whatever happened since
NodeLocationKept == \A a \in 1..Len(nallocs) : nallocs[a].loc \in 1..a
RcInv == CountIsLiveHandles /\ NodeCountIsLiveHandles /\ TextIsAllocText /\ NodeLocationKept
=============================================================================
