----------------------------- MODULE Trace_Names -----------------------------
(* C10 impl -> spec: numbers printed by the real code.                        *)
(*  {kind:"int",   lit: cps, back: bool}  IntValue::from(i32) printed literal  *)
(*  {kind:"float", lit: cps, back: bool}  FloatValue::from(f64)                *)
(*  `back` = converting the literal back gives the same number (bits for f64). *)
EXTENDS Names, TLC, Json, IOUtils
Rec == ndJsonDeserialize(IOEnv.TRACE)
VARIABLES l, bad
vars == <<l, bad>>
LineOK(r) ==
  /\ r.back
  /\ IF r.kind = "int" THEN IsIntLiteral(r.lit) ELSE IsFloatLiteral(r.lit)
Init == l = 1 /\ bad = {}
Next == /\ l <= Len(Rec) /\ l' = l + 1
        /\ bad' = IF LineOK(Rec[l]) THEN bad ELSE bad \cup {l}
Spec == Init /\ [][Next]_vars
Report == (l = Len(Rec) + 1) => PrintT(ToJson(<<"RESULT", l - 1, bad>>))
=============================================================================
