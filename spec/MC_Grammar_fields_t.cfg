SPECIFICATION Spec
INVARIANT Inv
CHECK_DEADLOCK FALSE
CONSTANTS
  MaxLen = 6
  Prefix <- PFields
  Suffix <- SBrace
  Alphabet = {"n1", ":", "(", ")", "[", "]", "!", "=", "int", "@", "str"}
