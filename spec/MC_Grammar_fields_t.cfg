SPECIFICATION Spec
INVARIANT Inv
CHECK_DEADLOCK FALSE
CONSTANTS
  MaxLen = 5
  Prefix <- PFields
  Suffix <- SBrace
  Alphabet = {"n1", ":", "(", ")", "[", "]", "!", "=", "int", "@", "str"}
