------------------------------ MODULE MC_Printer ------------------------------
EXTENDS Printer, TLC
LG == INSTANCE LexGrammar
CfgIndent2 == [indent |-> TRUE, prefix |-> "  ", level |-> 0]
CfgTabL1 == [indent |-> TRUE, prefix |-> " \t", level |-> 1]
CfgEmptyL2 == [indent |-> TRUE, prefix |-> "", level |-> 2]
CfgNoIndent == [indent |-> FALSE, prefix |-> "", level |-> 0]
CfgNoIndentL3 == [indent |-> FALSE, prefix |-> "", level |-> 3]

\* ---- GlueTable: MustSeparate is exactly what the lexical grammar requires --------------------------------
\* representative lexemes (code points) per token class
Reps == [name |-> {<<97>>, <<95, 49>>, <<101>>}, int |-> {<<48>>, <<45, 49, 50>>}, float |-> {<<49, 46, 53>>, <<49, 101, 50>>},
         str |-> {<<34, 34>>, <<34, 120, 34>>}, bstr |-> {<<34, 34, 34, 120, 34, 34, 34>>, <<34, 34, 34, 34, 34, 34>>}]
PunctReps == [p \in {"!", "$", "&", "(", ")", ":", "=", "@", "[", "]", "{", "|", "}"} |->
                CASE p = "!" -> <<33>> [] p = "$" -> <<36>> [] p = "&" -> <<38>> [] p = "(" -> <<40>> [] p = ")" -> <<41>>
                  [] p = ":" -> <<58>> [] p = "=" -> <<61>> [] p = "@" -> <<64>> [] p = "[" -> <<91>> [] p = "]" -> <<93>>
                  [] p = "{" -> <<123>> [] p = "|" -> <<124>> [] OTHER -> <<125>>]
Classes == DOMAIN Reps \cup DOMAIN PunctReps \cup {"..."}
RepsOf(c) == IF c \in DOMAIN Reps THEN Reps[c] ELSE IF c = "..." THEN {<<46, 46, 46>>} ELSE {PunctReps[c]}
\* gluing a and b gives exactly the two tokens
GluesFine(a, b) ==
  LET r == LG!RefLex(a \o b) IN
    /\ r[1] /\ Len(r[2]) = 2 /\ r[2][1][3] = Len(a) + 1
    /\ r[2][1][1] = LG!RefLex(a)[2][1][1] /\ r[2][2][1] = LG!RefLex(b)[2][1][1]
GlueTable ==
  \A c1 \in Classes, c2 \in Classes :
    /\ ~MustSeparate(c1, c2) => \A a \in RepsOf(c1), b \in RepsOf(c2) : GluesFine(a, b)     \* sound
    /\ MustSeparate(c1, c2) => \E a \in RepsOf(c1), b \in RepsOf(c2) : ~GluesFine(a, b)     \* not stricter than needed
GlueFailures == {<<c1, c2>> \in Classes \X Classes : ~(/\ ~MustSeparate(c1, c2) => \A a \in RepsOf(c1), b \in RepsOf(c2) : GluesFine(a, b)
    /\ MustSeparate(c1, c2) => \E a \in RepsOf(c1), b \in RepsOf(c2) : ~GluesFine(a, b))}
ASSUME PrintT(GlueFailures)
ASSUME GlueTable
=============================================================================
