----------------------------- MODULE SchemaRules -----------------------------
(***************************************************************************)
(* Type-system validation rules of the GraphQL specification (October 2021,*)
(* section 3) as predicates over an abstract schema — C14 — and the        *)
(* consequences a valid schema must enjoy (WellFormed) — C15.              *)
(*                                                                         *)
(* schema = [schemaDef: [explicit, dirs, roots: [query, mutation,          *)
(*             subscription]]  ("" = absent),                               *)
(*           directives: seq of [name, args: seq of ivd, repeatable,        *)
(*             locations: seq of strings],                                  *)
(*           types: seq of [kind, name, dirs, ifaces, fields, members,      *)
(*             values, inputFields]]                                        *)
(*   field = [name, type, args: seq of ivd, dirs]                           *)
(*   ivd   = [name, type, default ("none" | "null" | "value"), dirs]        *)
(*   value = [name, dirs];   app (directive application) = [name, args:     *)
(*   seq of [name, value]] with value an abstract literal <<kind, ...>>     *)
(*   type refs: <<"named", n>> | <<"list", t>> | <<"nonnull", t>>           *)
(*                                                                         *)
(* apollo-compiler's documented differences are named operators:           *)
(*   Apollo_DefaultValuesNotValidated, Apollo_BuiltInsRedefinableOnce,     *)
(*   Apollo_SchemaDirectiveArgumentsTypeChecked.                           *)
(***************************************************************************)
EXTENDS Naturals, Sequences, FiniteSets, TypeCompat

CONSTANT CheckDeprecatedOnRequired     \* TRUE: the reference;  FALSE: the reference minus that one rule

BuiltInScalars == {"Int", "Float", "String", "Boolean", "ID"}
IntrospectionTypes == {"__Schema", "__Type", "__TypeKind", "__Field", "__InputValue", "__EnumValue", "__Directive", "__DirectiveLocation"}
Range(s) == {s[k] : k \in 1..Len(s)}
Names(s) == [k \in 1..Len(s) |-> s[k].name]
NoDup(s) == \A i, j \in 1..Len(s) : i # j => s[i] # s[j]
\* TLC cannot take strings apart: the names of the schema that start with "__" are listed by the harness
\* in the field `reserved` of the abstract schema
IsReserved(s, n) == n \in Range(s.reserved)

TypeNames(s) == Range(Names(s.types))
HasType(s, n) == n \in TypeNames(s) \/ n \in BuiltInScalars \/ n \in IntrospectionTypes
TypeOf(s, n) == s.types[CHOOSE k \in 1..Len(s.types) : s.types[k].name = n]
KindOf(s, n) == IF n \in BuiltInScalars THEN "scalar"
                ELSE IF n \in {"__TypeKind", "__DirectiveLocation"} THEN "enum"
                ELSE IF n \in IntrospectionTypes THEN "object"
                ELSE IF n \in TypeNames(s) THEN TypeOf(s, n).kind ELSE "undefined"
RECURSIVE NamedOfT(_)
NamedOfT(t) == IF t[1] = "named" THEN t[2] ELSE NamedOfT(t[2])
IsOutputKind(k) == k \in {"scalar", "object", "interface", "union", "enum"}
IsInputKind(k) == k \in {"scalar", "enum", "input"}
IsOutputType(s, t) == IsOutputKind(KindOf(s, NamedOfT(t)))
IsInputType(s, t) == IsInputKind(KindOf(s, NamedOfT(t)))

\* ---- subtype relation of the schema (for covariance) -------------------------------------
SubPairs(s) ==
  {p \in TypeNames(s) \X TypeNames(s) :
     \/ (KindOf(s, p[1]) \in {"object", "interface"} /\ p[2] \in Range(TypeOf(s, p[1]).ifaces))
     \/ (KindOf(s, p[2]) = "union" /\ p[1] \in Range(TypeOf(s, p[2]).members))}

\* ---- directives ---------------------------------------------------------------------------------
BuiltInDirectiveDefs == <<
  [name |-> "skip", args |-> <<[name |-> "if", type |-> <<"nonnull", <<"named", "Boolean">>>>, default |-> "none", dirs |-> <<>>]>>, repeatable |-> FALSE,
   locations |-> <<"FIELD", "FRAGMENT_SPREAD", "INLINE_FRAGMENT">>],
  [name |-> "include", args |-> <<[name |-> "if", type |-> <<"nonnull", <<"named", "Boolean">>>>, default |-> "none", dirs |-> <<>>]>>, repeatable |-> FALSE,
   locations |-> <<"FIELD", "FRAGMENT_SPREAD", "INLINE_FRAGMENT">>],
  [name |-> "deprecated", args |-> <<[name |-> "reason", type |-> <<"named", "String">>, default |-> "value", dirs |-> <<>>]>>, repeatable |-> FALSE,
   locations |-> <<"FIELD_DEFINITION", "ARGUMENT_DEFINITION", "INPUT_FIELD_DEFINITION", "ENUM_VALUE">>],
  [name |-> "specifiedBy", args |-> <<[name |-> "url", type |-> <<"nonnull", <<"named", "String">>>>, default |-> "none", dirs |-> <<>>]>>, repeatable |-> FALSE,
   locations |-> <<"SCALAR">>] >>
\* Apollo_BuiltInsRedefinableOnce: a user definition of a built-in directive replaces it (a second one collides)
UserDirNames(s) == Range(Names(s.directives))
AllDirectiveDefs(s) == SelectSeq(BuiltInDirectiveDefs, LAMBDA d : d.name \notin UserDirNames(s)) \o s.directives
HasDirective(s, n) == \E k \in 1..Len(AllDirectiveDefs(s)) : AllDirectiveDefs(s)[k].name = n
DirectiveDef(s, n) == AllDirectiveDefs(s)[CHOOSE k \in 1..Len(AllDirectiveDefs(s)) : AllDirectiveDefs(s)[k].name = n]

\* literal kinds acceptable for a type (Apollo_SchemaDirectiveArgumentsTypeChecked), values are <<kind>>
RECURSIVE ValueFits(_, _, _)
ValueFits(s, t, v) ==
  IF v[1] = "null" THEN t[1] # "nonnull"
  ELSE IF v[1] = "var" THEN FALSE                              \* no variables in the type system
  ELSE IF t[1] = "nonnull" THEN ValueFits(s, t[2], v)
  ELSE IF t[1] = "list" THEN (v[1] = "list" \/ ValueFits(s, t[2], v))   \* items are not modelled; a single value is coerced
  ELSE IF v[1] = "list" THEN FALSE
  ELSE LET n == t[2] k == KindOf(s, n) IN
       CASE n = "Int" -> v[1] = "int"
         [] n = "Float" -> v[1] \in {"int", "float"}
         [] n = "String" -> v[1] = "str"
         [] n = "Boolean" -> v[1] = "bool"
         [] n = "ID" -> v[1] \in {"int", "str"}
         [] k = "scalar" -> TRUE                                   \* custom scalar: anything
         [] k = "enum" -> v[1] = "enum" /\ v[2] \in Range(Names(TypeOf(s, n).values))
         [] k = "input" -> v[1] = "obj"                            \* (object literals are not generated for schema applications)
         [] OTHER -> TRUE

\* the rule for one list of directive applications at a location
AppsOK(s, apps, location) ==
  /\ \A k \in 1..Len(apps) :
       LET a == apps[k] IN
       /\ HasDirective(s, a.name)                                                    \* Directives Are Defined
       /\ LET d == DirectiveDef(s, a.name) IN
          /\ location \in Range(d.locations)                                         \* Directives Are In Valid Locations
          /\ NoDup(Names(a.args))                                                    \* Argument Uniqueness
          /\ \A j \in 1..Len(a.args) :                                               \* Argument Names
               /\ a.args[j].name \in Range(Names(d.args))
               /\ LET def == d.args[CHOOSE m \in 1..Len(d.args) : d.args[m].name = a.args[j].name]
                  IN ValueFits(s, def.type, a.args[j].value)                         \* Values of Correct Type
          /\ \A m \in 1..Len(d.args) :                                               \* Required Arguments
               (d.args[m].type[1] = "nonnull" /\ d.args[m].default = "none")
                  => \E j \in 1..Len(a.args) : a.args[j].name = d.args[m].name /\ a.args[j].value[1] # "null"
  /\ \A i, j \in 1..Len(apps) :                                                     \* Directives Are Unique Per Location
       (i # j /\ apps[i].name = apps[j].name) => (HasDirective(s, apps[i].name) => DirectiveDef(s, apps[i].name).repeatable)

\* ---- input values (arguments, input fields) ------------------------------------------------
IvdOK(s, ivds, location) ==
  /\ NoDup(Names(ivds))
  /\ \A k \in 1..Len(ivds) :
       /\ ~IsReserved(s, ivds[k].name)
       /\ IsInputType(s, ivds[k].type)                              \* must be an input type (and exist)
       /\ AppsOK(s, ivds[k].dirs, location)
       \* @deprecated must not be applied to required arguments / input fields (graphql-js: "Required argument
       \* ... cannot be deprecated"); switchable because apollo-compiler does not implement it (known finding)
       /\ (CheckDeprecatedOnRequired /\ ivds[k].type[1] = "nonnull" /\ ivds[k].default = "none")
             => \A j \in 1..Len(ivds[k].dirs) : ivds[k].dirs[j].name # "deprecated"
       \* Apollo_DefaultValuesNotValidated: ivds[k].default is not checked against the type

\* ---- fields of objects and interfaces --------------------------------------------------------
FieldsOK(s, fields) ==
  /\ Len(fields) >= 1
  /\ NoDup(Names(fields))
  /\ \A k \in 1..Len(fields) :
       /\ ~IsReserved(s, fields[k].name)
       /\ IsOutputType(s, fields[k].type)
       /\ IvdOK(s, fields[k].args, "ARGUMENT_DEFINITION")
       /\ AppsOK(s, fields[k].dirs, "FIELD_DEFINITION")

FieldByName(fields, n) == fields[CHOOSE k \in 1..Len(fields) : fields[k].name = n]

\* an object / interface type t correctly implements interface named i
ImplementsOK(s, t, i) ==
  /\ KindOf(s, i) = "interface"
  /\ i # t.name
  /\ LET it == TypeOf(s, i) IN
     /\ \A j \in 1..Len(it.ifaces) : it.ifaces[j] \in Range(t.ifaces)        \* transitive interfaces are declared
     /\ \A k \in 1..Len(it.fields) :
          LET f == it.fields[k] IN
          /\ f.name \in Range(Names(t.fields))
          /\ LET g == FieldByName(t.fields, f.name) IN
             /\ IsValidImplementationFieldType(g.type, f.type, SubPairs(s))
             /\ \A a \in 1..Len(f.args) :                                       \* every interface argument, same type
                  /\ f.args[a].name \in Range(Names(g.args))
                  /\ g.args[CHOOSE m \in 1..Len(g.args) : g.args[m].name = f.args[a].name].type = f.args[a].type
             /\ \A m \in 1..Len(g.args) :                                       \* additional arguments are not required
                  g.args[m].name \notin Range(Names(f.args)) => ~(g.args[m].type[1] = "nonnull" /\ g.args[m].default = "none")

\* ---- input objects: no chain of non-null singular fields back to itself -----------------------
RequiredRefs(s, n) ==   \* input object types referenced by a non-null, non-list field of input object n
  {NamedOfT(f.type) : f \in {TypeOf(s, n).inputFields[k] : k \in 1..Len(TypeOf(s, n).inputFields)}}
  \cap {m \in TypeNames(s) : KindOf(s, m) = "input" /\
          \E k \in 1..Len(TypeOf(s, n).inputFields) :
             LET f == TypeOf(s, n).inputFields[k] IN f.type[1] = "nonnull" /\ f.type[2][1] = "named" /\ f.type[2][2] = m}
RECURSIVE ReachRequired(_, _, _)
ReachRequired(s, frontier, seen) ==
  LET nxt == UNION {RequiredRefs(s, n) : n \in frontier} \ seen IN
  IF nxt = {} THEN seen ELSE ReachRequired(s, nxt, seen \cup nxt)
InputCycle(s, n) == n \in ReachRequired(s, RequiredRefs(s, n), RequiredRefs(s, n))

\* interface implementation cycles (an interface may not implement itself, directly or transitively)
IfaceRefs(s, n) == IF KindOf(s, n) = "interface" THEN Range(TypeOf(s, n).ifaces) \cap TypeNames(s) ELSE {}
RECURSIVE ReachIface(_, _, _)
ReachIface(s, frontier, seen) ==
  LET nxt == UNION {IfaceRefs(s, n) : n \in frontier} \ seen IN
  IF nxt = {} THEN seen ELSE ReachIface(s, nxt, seen \cup nxt)

LocationOfKind(k) == CASE k = "object" -> "OBJECT" [] k = "interface" -> "INTERFACE" [] k = "union" -> "UNION" [] k = "enum" -> "ENUM"
                       [] k = "input" -> "INPUT_OBJECT" [] OTHER -> "SCALAR"

TypeOK(s, t) ==
  /\ ~IsReserved(s, t.name)
  /\ AppsOK(s, t.dirs, LocationOfKind(t.kind))
  /\ CASE t.kind \in {"object", "interface"} ->
            /\ FieldsOK(s, t.fields)
            /\ NoDup(t.ifaces)
            /\ \A k \in 1..Len(t.ifaces) : ImplementsOK(s, t, t.ifaces[k])
            /\ (t.kind = "interface" => t.name \notin ReachIface(s, IfaceRefs(s, t.name), IfaceRefs(s, t.name)))
       [] t.kind = "union" ->
            /\ Len(t.members) >= 1 /\ NoDup(t.members)
            /\ \A k \in 1..Len(t.members) : KindOf(s, t.members[k]) = "object"
       [] t.kind = "enum" ->
            /\ Len(t.values) >= 1 /\ NoDup(Names(t.values))
            /\ \A k \in 1..Len(t.values) : AppsOK(s, t.values[k].dirs, "ENUM_VALUE") /\ ~IsReserved(s, t.values[k].name)
       [] t.kind = "input" ->
            /\ Len(t.inputFields) >= 1
            /\ IvdOK(s, t.inputFields, "INPUT_FIELD_DEFINITION")
            /\ ~InputCycle(s, t.name)
       [] OTHER -> TRUE

\* directive definitions: no reference to itself through the directives of its arguments
DirRefs(s, n) == IF \E k \in 1..Len(s.directives) : s.directives[k].name = n
                 THEN LET d == s.directives[CHOOSE k \in 1..Len(s.directives) : s.directives[k].name = n] IN
                      UNION {{d.args[a].dirs[j].name : j \in 1..Len(d.args[a].dirs)} : a \in 1..Len(d.args)}
                 ELSE {}
RECURSIVE ReachDir(_, _, _)
ReachDir(s, frontier, seen) ==
  LET nxt == UNION {DirRefs(s, n) : n \in frontier} \ seen IN IF nxt = {} THEN seen ELSE ReachDir(s, nxt, seen \cup nxt)
DirectiveDefOK(s, d) ==
  /\ ~IsReserved(s, d.name)
  /\ IvdOK(s, d.args, "ARGUMENT_DEFINITION")
  /\ d.name \notin ReachDir(s, DirRefs(s, d.name), DirRefs(s, d.name))

\* root operation types
RootsOK(s) ==
  LET r == s.schemaDef.roots
      eff(op, dflt) == IF s.schemaDef.explicit THEN r[op] ELSE (IF KindOf(s, dflt) = "object" THEN dflt ELSE "")
      q == eff("query", "Query")  m == eff("mutation", "Mutation")  u == eff("subscription", "Subscription")
  IN /\ q # ""                                                   \* a query root is required
     /\ \A x \in {q, m, u} \ {""} : KindOf(s, x) = "object"      \* roots are object types (Apollo: an undefined root is an error)
     /\ (m # "" => m # q) /\ (u # "" => (u # q /\ u # m))        \* and distinct
     /\ AppsOK(s, s.schemaDef.dirs, "SCHEMA")

\* build-level collisions are part of the verdict (BuildError)
BuildOK(s) ==
  /\ NoDup(Names(s.types))
  /\ \A k \in 1..Len(s.types) : s.types[k].name \notin BuiltInScalars \cup IntrospectionTypes
  /\ NoDup(Names(s.directives))

Valid(s) ==
  /\ BuildOK(s)
  /\ RootsOK(s)
  /\ \A k \in 1..Len(s.types) : TypeOK(s, s.types[k])
  /\ \A k \in 1..Len(s.directives) : DirectiveDefOK(s, s.directives[k])

\* ---- C15: consequences every accepted schema must enjoy -----------------------------------------
EffectiveRoot(s, op, dflt) == IF s.schemaDef.explicit THEN s.schemaDef.roots[op] ELSE (IF KindOf(s, dflt) = "object" THEN dflt ELSE "")
WellFormed(s) ==
  LET q == EffectiveRoot(s, "query", "Query") m == EffectiveRoot(s, "mutation", "Mutation") u == EffectiveRoot(s, "subscription", "Subscription") IN
  /\ q # "" /\ \A x \in {q, m, u} \ {""} : KindOf(s, x) = "object"
  /\ Cardinality({q, m, u} \ {""}) = Cardinality({op \in {"q", "m", "u"} : (CASE op = "q" -> q [] op = "m" -> m [] OTHER -> u) # ""})
  /\ \A k \in 1..Len(s.types) :
       LET t == s.types[k] IN
       /\ ~IsReserved(s, t.name)
       /\ (t.kind \in {"object", "interface"} =>
             /\ \A f \in 1..Len(t.fields) :
                  /\ IsOutputType(s, t.fields[f].type)
                  /\ \A a \in 1..Len(t.fields[f].args) : IsInputType(s, t.fields[f].args[a].type)
             /\ \A i \in 1..Len(t.ifaces) : KindOf(s, t.ifaces[i]) = "interface" /\ ImplementsOK(s, t, t.ifaces[i]))
       /\ (t.kind = "union" => \A j \in 1..Len(t.members) : KindOf(s, t.members[j]) = "object")
       /\ (t.kind = "input" => /\ \A f \in 1..Len(t.inputFields) : IsInputType(s, t.inputFields[f].type)
                               /\ ~InputCycle(s, t.name))
=============================================================================
