------------------------------ MODULE MC_NameRc ------------------------------
(* All histories of operations on names and nodes up to MaxOps, performed by    *)
(* threads 1..NThreads (an operation is one atomic step of its thread; every    *)
(* interleaving of the threads' steps is a history).  Each history is printed   *)
(* with the abstract state after every step for replay on real values.          *)
EXTENDS NameRc, TLC, Json

CONSTANTS MaxOps, NThreads, Family      \* Family: "names" | "nodes"
VARIABLE hist
vars == <<allocs, hs, nallocs, ns, hist>>

Snap == [counts |-> [a \in 1..Len(allocs) |-> allocs[a].count],
         ncounts |-> [a \in 1..Len(nallocs) |-> nallocs[a].count]]
Step(t, op, a, b) == hist' = Append(hist, <<t, op, a, b>>)

Init == RInit /\ hist = <<>>
Next ==
  /\ Len(hist) < MaxOps
  /\ \E t \in 1..NThreads :
       IF Family = "names" THEN
         \/ \E s \in Texts : NewHeap(s) /\ Step(t, "NewHeap", s, 0)
         \/ \E s \in Texts : NewStatic(s) /\ Step(t, "NewStatic", s, 0)
         \/ \E h \in 1..Len(hs) : Clone(h) /\ Step(t, "Clone", h, 0)
         \/ \E h \in 1..Len(hs) : Drop(h) /\ Step(t, "Drop", h, 0)
         \/ \E h \in 1..Len(hs), l \in Locs : WithLocation(h, l) /\ Step(t, "WithLocation", h, l)
         \/ \E h \in 1..Len(hs) : ToClonedArc(h) /\ Step(t, "ToClonedArc", h, 0)
         \/ \E h \in 1..Len(hs) : FromArc(h) /\ Step(t, "FromArc", h, 0)
         \/ \E h \in 1..Len(hs) : IntoArc(h) /\ Step(t, "IntoArc", h, 0)
         \/ \E h \in 1..Len(hs) : IntoArcStatic(h) /\ Step(t, "IntoArc", h, 0)
       ELSE
         \/ \E v \in Values : NodeNew(v) /\ Step(t, "NodeNew", v, 0)
         \/ \E n \in 1..Len(ns) : NodeClone(n) /\ Step(t, "NodeClone", n, 0)
         \/ \E n \in 1..Len(ns) : NodeDrop(n) /\ Step(t, "NodeDrop", n, 0)
         \/ \E n \in 1..Len(ns), v \in Values : MakeMut(n, v) /\ Step(t, "MakeMut", n, v)
         \/ \E n \in 1..Len(ns), v \in Values : GetMut(n, v) /\ Step(t, "GetMut", n, v)
Spec == Init /\ [][Next]_vars

\* the final abstract state accompanies the history; intermediate states are recomputed by the harness's own
\* bookkeeping and cross-checked against the real values after every step
Emit == (Len(hist) = MaxOps) =>
          PrintT(ToJson(<<"CASE", hist, Snap,
                          [h \in 1..Len(hs) |-> <<hs[h].kind, hs[h].alloc, hs[h].text, hs[h].loc>>],
                          [n \in 1..Len(ns) |-> <<ns[n], IF ns[n] = 0 THEN "" ELSE nallocs[ns[n]].value>>]>>))
Inv == RcInv /\ Emit
=============================================================================
