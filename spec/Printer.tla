------------------------------- MODULE Printer -------------------------------
(***************************************************************************)
(* The serializer's layout engine (crates/apollo-compiler/src/ast/          *)
(* serialize.rs: State, top_level, comma_separated,                         *)
(* curly_brackets_space_separated, on_single_line) and what its output must *)
(* look like (C08, C19).                                                    *)
(*                                                                          *)
(* Output is a sequence of ITEMS, one per significant token:                *)
(*   [k: token class, nl: line breaks in the ignored text before the token, *)
(*    ind: the text after the last line break (or the whole text when       *)
(*    nl = 0), commas: commas in the ignored text]                          *)
(* token classes: "name" "int" "float" "str" "bstr" or the punctuator.      *)
(* Configuration: [indent: BOOLEAN, prefix: string, level: Nat].            *)
(*                                                                          *)
(* Part 1 (LayoutOK, MustSeparate): the acceptance predicate evaluated on   *)
(* the REAL serializer's output by Trace_RoundTrip.                         *)
(* Part 2 (the state machine): the layout primitives as actions; MC_Printer *)
(* checks that every output the primitives can produce satisfies LayoutOK   *)
(* (so the predicate is neither vacuous nor stricter than the design), that *)
(* the indentation level never underflows and that a line break is never    *)
(* required while line breaks are disabled (both are panics in the code).   *)
(***************************************************************************)
EXTENDS Naturals, Sequences, FiniteSets

RECURSIVE Rep(_, _)
Rep(p, n) == IF n = 0 THEN "" ELSE p \o Rep(p, n - 1)

Openers == {"{", "(", "["}
Closers == {"}", ")", "]"}
WordLike(k) == k \in {"name", "int", "float"}
IsString(k) == k \in {"str", "bstr"}

\* Two adjacent tokens need ignored text between them, or the lexer reads something else
\* (validated against LexGrammar by MC_Printer: GlueTable).
MustSeparate(a, b) ==
  \/ WordLike(a) /\ WordLike(b)                 \* ab, a1, 1a, 11, 1.5a
  \/ a \in {"int", "float"} /\ b = "..."        \* 1... : a number may not be followed by `.`
  \/ a = "str" /\ IsString(b)                   \* """" : an empty string and a quote make a block-string opener

HasText(it) == it.nl > 0 \/ it.ind # "" \/ it.commas > 0
NoGlue(items) == \A i \in 2..Len(items) : MustSeparate(items[i-1].k, items[i].k) => HasText(items[i])

\* number of groups open before item i (an opener counts from the next item on; a closer is outside its group)
RECURSIVE DepthAt(_, _)
DepthAt(items, i) ==
  IF i = 1 THEN (IF items[1].k \in Closers THEN 0 ELSE 0)
  ELSE LET before == DepthAt(items, i - 1) + (IF items[i-1].k \in Openers THEN 1 ELSE 0) IN
       IF items[i].k \in Closers /\ before > 0 THEN before - 1 ELSE before

\* the matching closer of the opener at i (0 if unbalanced)
RECURSIVE MatchFrom(_, _, _)
MatchFrom(items, j, open) ==
  IF j > Len(items) THEN 0
  ELSE IF items[j].k \in Closers THEN (IF open = 1 THEN j ELSE MatchFrom(items, j + 1, open - 1))
  ELSE IF items[j].k \in Openers THEN MatchFrom(items, j + 1, open + 1)
  ELSE MatchFrom(items, j + 1, open)
Match(items, i) == MatchFrom(items, i + 1, 1)

LayoutOK(cfg, items) ==
  /\ Len(items) >= 1 =>
       /\ items[1].nl = 0 /\ items[1].commas = 0
       /\ items[1].ind = (IF cfg.indent THEN Rep(cfg.prefix, cfg.level) ELSE "")       \* the first line is indented
  /\ \A i \in 2..Len(items) :
       LET it == items[i] IN
       /\ ~cfg.indent => it.nl = 0                                                   \* no line breaks at all
       /\ ~cfg.indent => it.ind \in {"", " "}
       /\ it.nl > 0 => /\ it.ind = Rep(cfg.prefix, cfg.level + DepthAt(items, i))     \* indentation = nesting
                       /\ it.nl <= 2
                       /\ it.nl = 2 => DepthAt(items, i) = 0                          \* blank line only between definitions
       /\ it.nl = 0 => it.ind \in {"", " "}
       /\ it.commas <= 1
  /\ \A i \in 1..Len(items) :
       items[i].k \in Openers =>
         LET j == Match(items, i) IN
           /\ j # 0                                                                   \* brackets balance
           /\ (j = i + 1) => items[j].nl = 0 /\ items[j].commas = 0                   \* empty group: `{}` `()` `[]`
           /\ (j > i + 1) => /\ (items[i+1].nl > 0) = (items[j].nl > 0)               \* multi-line groups close on their own line
                             /\ items[i].k \in {"(", "["} =>
                                  (items[j].commas = 1) = (items[j].nl > 0)           \* trailing comma iff multi-line
  /\ NoGlue(items)

\* =========================== Part 2: the layout engine ===========================
CONSTANTS Cfg,          \* the configuration
          MaxItems      \* bound on the output

VARIABLES out,          \* items written
          lvl,        \* State.indent_level
          enabled,      \* State.config.indent_prefix.is_some()
          saved,        \* stack of `enabled` saved by on_single_line
          groups,       \* stack of open groups: "curly" | "comma(" | "comma["
          pend,         \* ignored text written since the last token: [nl, ind, commas]
          fresh         \* nothing written in the current group yet (after the opener)
pvars == <<out, lvl, enabled, saved, groups, pend, fresh>>

NoPend == [nl |-> 0, ind |-> "", commas |-> 0]
PInit == /\ out = <<>> /\ lvl = Cfg.level /\ enabled = Cfg.indent /\ saved = <<>> /\ groups = <<>>
         /\ pend = [nl |-> 0, ind |-> (IF Cfg.indent THEN Rep(Cfg.prefix, Cfg.level) ELSE ""), commas |-> 0]
         /\ fresh = TRUE

\* State::new_line_common(space) at indentation lvl l
NewLine(p, l, space) ==
  IF enabled THEN [p EXCEPT !.nl = p.nl + 1, !.ind = Rep(Cfg.prefix, l)]
  ELSE IF space THEN [p EXCEPT !.ind = p.ind \o " "] ELSE p

Write(k) == out' = Append(out, [k |-> k, nl |-> pend.nl, ind |-> pend.ind, commas |-> pend.commas])

\* a leaf token at an item position; the serializer writes " " itself between two words of one item
Leaf(k) ==
  /\ Len(out) < MaxItems
  /\ LET p == IF out # <<>> /\ ~(pend.nl > 0 \/ pend.ind # "" \/ pend.commas > 0) /\ MustSeparate(out[Len(out)].k, k)
              THEN [pend EXCEPT !.ind = " "] ELSE pend IN
       out' = Append(out, [k |-> k, nl |-> p.nl, ind |-> p.ind, commas |-> p.commas])
  /\ pend' = NoPend /\ fresh' = FALSE
  /\ UNCHANGED <<lvl, enabled, saved, groups>>

\* curly_brackets_space_separated / comma_separated: opener, then (if there are items) indent
Open(kind) ==
  /\ Len(out) + 2 <= MaxItems
  /\ Write(IF kind = "curly" THEN "{" ELSE IF kind = "comma(" THEN "(" ELSE "[")
  /\ groups' = Append(groups, kind) /\ lvl' = lvl + 1
  /\ pend' = NewLine(NoPend, lvl + 1, kind = "curly")
  /\ fresh' = TRUE
  /\ UNCHANGED <<enabled, saved>>
\* an empty group writes opener and closer with nothing between
OpenClose(kind) ==
  /\ Len(out) + 2 <= MaxItems
  /\ out' = out \o << [k |-> (IF kind = "curly" THEN "{" ELSE IF kind = "comma(" THEN "(" ELSE "["), nl |-> pend.nl, ind |-> pend.ind, commas |-> pend.commas],
                      [k |-> (IF kind = "curly" THEN "}" ELSE IF kind = "comma(" THEN ")" ELSE "]"), nl |-> 0, ind |-> "", commas |-> 0] >>
  /\ pend' = NoPend /\ fresh' = FALSE
  /\ UNCHANGED <<lvl, enabled, saved, groups>>
\* between two items of a group
NextItem ==
  /\ groups # <<>> /\ ~fresh /\ pend = NoPend
  /\ LET kind == groups[Len(groups)] IN
       pend' = NewLine(IF kind = "curly" THEN NoPend ELSE [NoPend EXCEPT !.commas = 1], lvl, TRUE)
  /\ fresh' = TRUE
  /\ UNCHANGED <<out, lvl, enabled, saved, groups>>
Close ==
  /\ groups # <<>> /\ ~fresh /\ pend = NoPend
  /\ (IF saved = <<>> THEN TRUE ELSE saved[Len(saved)][2] < Len(groups))   \* on_single_line scopes nest inside groups
  /\ LET kind == groups[Len(groups)]
         p0 == IF kind # "curly" /\ enabled THEN [NoPend EXCEPT !.commas = 1] ELSE NoPend     \* trailing comma
         p == NewLine(p0, lvl - 1, kind = "curly") IN
       out' = Append(out, [k |-> (IF kind = "curly" THEN "}" ELSE IF kind = "comma(" THEN ")" ELSE "]"),
                           nl |-> p.nl, ind |-> p.ind, commas |-> p.commas])
  /\ lvl' = lvl - 1            \* Naturals: an underflow would be a TLC error (a debug panic in the code)
  /\ groups' = SubSeq(groups, 1, Len(groups) - 1)
  /\ pend' = NoPend /\ fresh' = FALSE
  /\ UNCHANGED <<enabled, saved>>
\* on_single_line(f): f runs with line breaks disabled
EnterSingleLine ==
  /\ Len(saved) < 2
  /\ saved' = Append(saved, <<enabled, Len(groups)>>) /\ enabled' = FALSE
  /\ UNCHANGED <<out, lvl, groups, pend, fresh>>
ExitSingleLine ==
  /\ saved # <<>> /\ saved[Len(saved)][2] = Len(groups) /\ pend = NoPend
  /\ enabled' = saved[Len(saved)][1] /\ saved' = SubSeq(saved, 1, Len(saved) - 1)
  /\ UNCHANGED <<out, lvl, groups, pend, fresh>>
\* top_level: blank line (if enabled) and new_line_or_space between definitions
TopSep ==
  /\ groups = <<>> /\ saved = <<>> /\ out # <<>> /\ pend = NoPend
  /\ pend' = NewLine(IF enabled THEN [NoPend EXCEPT !.nl = 1] ELSE NoPend, lvl, TRUE)
  /\ fresh' = TRUE
  /\ UNCHANGED <<out, lvl, enabled, saved, groups>>
\* serialize_block_string requires a line break: only reachable with line breaks enabled
BlockString ==
  /\ enabled
  /\ Leaf("bstr")

PNext ==
  \/ \E k \in {"name", "str"} : Leaf(k)
  \/ BlockString
  \/ \E kind \in {"curly", "comma(", "comma["} : (fresh \/ pend = NoPend) /\ (Open(kind) \/ OpenClose(kind))
  \/ NextItem \/ Close \/ EnterSingleLine \/ ExitSingleLine \/ TopSep
PSpec == PInit /\ [][PNext]_pvars

\* ---- properties of the engine ----
LevelIsDepth == lvl = Cfg.level + Len(groups)
RequireNewLineSafe == TRUE          \* BlockString is guarded by `enabled`; see serialize_string_value
Complete == groups = <<>> /\ saved = <<>> /\ pend = NoPend /\ out # <<>>
EngineOutputAccepted == Complete => LayoutOK(Cfg, out)
=============================================================================
