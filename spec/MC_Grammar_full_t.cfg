SPECIFICATION Spec
INVARIANT Inv
CHECK_DEADLOCK FALSE
CONSTANTS
  MaxLen = 4
  Prefix <- PNone
  Suffix <- PNone
  Alphabet = {"!", "$", "&", "(", ")", "...", ":", "=", "@", "[", "]", "{", "|", "}", "query", "mutation", "subscription", "fragment", "on", "schema", "scalar", "type", "interface", "union", "enum", "input", "extend", "directive", "implements", "repeatable", "true", "false", "null", "FIELD", "OBJECT", "n1", "n2", "int", "float", "str", "bstr"}
