---------------------------- MODULE MC_DocBuilder ----------------------------
(* Every history of up to MaxLen definitions over a small universe; checked:   *)
(* errors are recorded exactly when one of the three uniqueness rules is       *)
(* broken; the kept definitions are the first occurrences; an anonymous        *)
(* operation is kept only if it is the first operation.  Each history is       *)
(* printed for replay on the real builder under every split into sources.      *)
EXTENDS DocBuilder, TLC, Json
CONSTANT MaxLen
Items == { [k |-> "op", name |-> "A"], [k |-> "op", name |-> "B"], [k |-> "op", name |-> ""],
           [k |-> "frag", name |-> "F"], [k |-> "frag", name |-> "G"] }
VARIABLE h
vars == <<h, named, anon, multi, frs, errs>>
Init == h = <<>> /\ BInit
Next == /\ Len(h) < MaxLen
        /\ \E it \in Items : h' = Append(h, it) /\ Add(it)
Spec == Init /\ [][Next]_vars

ErrorsIffRuleBroken == (errs = <<>>) = SpecOK(h)
KeptAreFirstOccurrences ==
  /\ named = FirstOccurrences(SelectSeq(OpNames(h), LAMBDA n : n # ""), <<>>)
  /\ frs = FirstOccurrences(FragNames(h), <<>>)
  /\ anon = (OpNames(h) # <<>> /\ OpNames(h)[1] = "")
Requests == <<"<none>", "A", "B", "Z">>
Emit == PrintT(ToJson(<<"CASE", h, named, anon, frs, errs, [k \in 1..Len(Requests) |-> <<Requests[k], GetOperation(Requests[k])>>]>>))
Inv == ErrorsIffRuleBroken /\ KeptAreFirstOccurrences /\ Emit
=============================================================================
