------------------------------ MODULE SmithDoc ------------------------------
(***************************************************************************)
(* apollo-smith's document generator at the level that decides validity     *)
(* (C32): generation ORDER (interfaces, backfill, objects, backfill, ...,   *)
(* fragments, operations, prune), unique names, the implements closure and  *)
(* inherited-field backfill, fragments that only spread earlier fragments,  *)
(* named operations when there are several, pruning of unreachable          *)
(* fragments.                                                               *)
(* Part 1: DocOK(d) — the structural conditions on a generated document     *)
(*   d = [types, directives, impl, fields, frags, ops]                      *)
(*   types, directives: sequences of names (one entry per definition);      *)
(*   impl: name -> set of interfaces (definition and extensions merged);    *)
(*   fields: name -> set of field names (objects and interfaces, merged);   *)
(*   frags: name -> set of fragment names it spreads;                       *)
(*   ops: sequence of [name (or ""), spreads]                               *)
(* evaluated by Trace_Smith on every document the real generator returns.   *)
(* Part 2: the generator's phases as actions; MC_SmithDoc checks that every *)
(* terminal state satisfies DocOK.                                          *)
(***************************************************************************)
EXTENDS Naturals, Sequences, FiniteSets

NoDup(s) == \A i, j \in 1..Len(s) : i # j => s[i] # s[j]
Range(s) == {s[k] : k \in 1..Len(s)}

RECURSIVE ReachFrom(_, _, _)
ReachFrom(frags, frontier, acc) ==
  LET nxt == (UNION {IF f \in DOMAIN frags THEN frags[f] ELSE {} : f \in frontier}) \ acc IN
    IF nxt = {} THEN acc ELSE ReachFrom(frags, nxt, acc \cup nxt)
Reachable(d) == LET roots == UNION {d.ops[k].spreads : k \in 1..Len(d.ops)} IN ReachFrom(d.frags, roots, roots)

RECURSIVE Ancestors(_, _, _)
Ancestors(impl, frontier, acc) ==
  LET nxt == (UNION {IF i \in DOMAIN impl THEN impl[i] ELSE {} : i \in frontier}) \ acc IN
    IF nxt = {} THEN acc ELSE Ancestors(impl, nxt, acc \cup nxt)
AllAncestors(impl, n) == Ancestors(impl, impl[n], impl[n])

UniqueNames(d) ==
  /\ NoDup(d.types) /\ NoDup(d.directives)
  /\ NoDup(SelectSeq([k \in 1..Len(d.ops) |-> d.ops[k].name], LAMBDA n : n # ""))
LoneAnonymous(d) == (\E k \in 1..Len(d.ops) : d.ops[k].name = "") => Len(d.ops) = 1
ImplementsClosed(d) ==      \* a type lists every interface its interfaces implement, and never itself
  \A n \in DOMAIN d.impl : n \notin AllAncestors(d.impl, n) /\ AllAncestors(d.impl, n) \subseteq d.impl[n]
Backfilled(d) ==            \* every field of an implemented interface is declared
  \A n \in DOMAIN d.impl : \A i \in d.impl[n] : (i \in DOMAIN d.fields /\ n \in DOMAIN d.fields) => d.fields[i] \subseteq d.fields[n]
SpreadsDefined(d) ==
  /\ \A f \in DOMAIN d.frags : d.frags[f] \subseteq DOMAIN d.frags
  /\ \A k \in 1..Len(d.ops) : d.ops[k].spreads \subseteq DOMAIN d.frags
NoFragmentCycle(d) == \A f \in DOMAIN d.frags : f \notin ReachFrom(d.frags, d.frags[f], d.frags[f])
FragmentsReachable(d) == DOMAIN d.frags \subseteq Reachable(d)
DocOK(d) == /\ UniqueNames(d) /\ LoneAnonymous(d) /\ ImplementsClosed(d) /\ Backfilled(d)
            /\ SpreadsDefined(d) /\ NoFragmentCycle(d) /\ FragmentsReachable(d)

\* =========================== Part 2: the generator ===========================
CONSTANTS Names,        \* pool of fresh names
          FieldNames,
          MaxI, MaxO, MaxF, MaxOps

VARIABLES phase, used, itfs, objs, impl, fields, frags, ops
svars == <<phase, used, itfs, objs, impl, fields, frags, ops>>

SInit == /\ phase = "interfaces" /\ used = {} /\ itfs = {} /\ objs = {} /\ impl = <<>> /\ fields = <<>>
         /\ frags = <<>> /\ ops = <<>>

Ext(f, k, v) == [x \in DOMAIN f \cup {k} |-> IF x = k THEN v ELSE f[x]]
Closure(n) == AllAncestors(impl, n)

\* interface_type_definition: a fresh name (type_name never repeats), parents among existing interfaces
AddInterface ==
  /\ phase = "interfaces" /\ Cardinality(itfs) < MaxI
  /\ \E n \in Names \ used, ps \in SUBSET itfs, fs \in (SUBSET FieldNames) \ {{}} :
       /\ used' = used \cup {n} /\ itfs' = itfs \cup {n}
       /\ impl' = Ext(impl, n, ps) /\ fields' = Ext(fields, n, fs)
  /\ UNCHANGED <<phase, objs, frags, ops>>
\* `extend interface X implements P`: P may be younger than X; rejected if P's closure loops back at X
ExtendInterface ==
  /\ phase = "interfaces"
  /\ \E x \in itfs : \E p \in itfs \ {x} :
       /\ p \notin impl[x]
       /\ x \notin (AllAncestors(impl, p) \cup {p})
       /\ impl' = [impl EXCEPT ![x] = @ \cup {p}]
  /\ UNCHANGED <<phase, used, itfs, objs, fields, frags, ops>>
\* backfill_inherited_*_fields: write the transitive closure and the inherited fields (parents first)
BackfillAll(S) ==
  /\ impl' = [n \in DOMAIN impl |-> IF n \in S THEN Closure(n) ELSE impl[n]]
  /\ fields' = [n \in DOMAIN fields |-> IF n \in S THEN fields[n] \cup UNION {fields[i] : i \in Closure(n)} ELSE fields[n]]
EndInterfaces == /\ phase = "interfaces" /\ itfs # {} /\ BackfillAll(itfs) /\ phase' = "objects"
                 /\ UNCHANGED <<used, itfs, objs, frags, ops>>
AddObject ==
  /\ phase = "objects" /\ Cardinality(objs) < MaxO
  /\ \E n \in Names \ used, ps \in SUBSET itfs, fs \in (SUBSET FieldNames) \ {{}} :
       /\ used' = used \cup {n} /\ objs' = objs \cup {n}
       /\ impl' = Ext(impl, n, ps) /\ fields' = Ext(fields, n, fs)
  /\ UNCHANGED <<phase, itfs, frags, ops>>
EndObjects == /\ phase = "objects" /\ objs # {} /\ BackfillAll(objs) /\ phase' = "fragments"
              /\ UNCHANGED <<used, itfs, objs, frags, ops>>
\* fragment_definition: spreads only fragments that already exist
AddFragment ==
  /\ phase = "fragments" /\ Cardinality(DOMAIN frags) < MaxF
  /\ \E n \in Names \ used, sp \in SUBSET (DOMAIN frags) :
       used' = used \cup {n} /\ frags' = Ext(frags, n, sp)
  /\ UNCHANGED <<phase, itfs, objs, impl, fields, ops>>
EndFragments == phase = "fragments" /\ phase' = "operations" /\ UNCHANGED <<used, itfs, objs, impl, fields, frags, ops>>
\* operations: the number is drawn first; with more than one, every operation is named
AddOperations ==
  /\ phase = "operations"
  /\ \E n \in 1..MaxOps :
       \E names \in [1..n -> (Names \ used) \cup {""}], sps \in [1..n -> SUBSET (DOMAIN frags)] :
         /\ (n > 1) => \A k \in 1..n : names[k] # ""
         /\ \A i, j \in 1..n : (i # j /\ names[i] # "") => names[i] # names[j]
         /\ ops' = [k \in 1..n |-> [name |-> names[k], spreads |-> sps[k]]]
         /\ used' = used \cup ({names[k] : k \in 1..n} \ {""})
  /\ phase' = "prune"
  /\ UNCHANGED <<itfs, objs, impl, fields, frags>>
Prune ==
  /\ phase = "prune"
  /\ LET roots == UNION {ops[k].spreads : k \in 1..Len(ops)}
         keep == ReachFrom(frags, roots, roots) IN
       frags' = [f \in DOMAIN frags \cap keep |-> frags[f]]
  /\ phase' = "done"
  /\ UNCHANGED <<used, itfs, objs, impl, fields, ops>>

SNext == AddInterface \/ ExtendInterface \/ EndInterfaces \/ AddObject \/ EndObjects \/ AddFragment \/ EndFragments
         \/ AddOperations \/ Prune
SSpec == SInit /\ [][SNext]_svars

TheDoc == [types |-> <<>>, directives |-> <<>>, impl |-> impl, fields |-> fields, frags |-> frags, ops |-> ops]
GeneratedOK == phase = "done" => DocOK(TheDoc)
NamesNeverReused == Cardinality(used) = Cardinality(itfs) + Cardinality(objs) + Cardinality(DOMAIN frags)
                                        + Cardinality({k \in 1..Len(ops) : ops[k].name # ""}) \/ phase = "done"
=============================================================================
