----------------------------- MODULE MC_LineCol -----------------------------
(* Every text up to MaxLen over Alphabet, with (line, column) at every         *)
(* char-boundary byte offset.                                                 *)
EXTENDS LineCol, TLC, Json, FiniteSets
CONSTANTS Alphabet, MaxLen
VARIABLE txt
Init == txt = <<>>
Next == Len(txt) < MaxLen /\ \E c \in Alphabet : txt' = Append(txt, c)
Spec == Init /\ [][Next]_txt

Positions == [k \in 0..Len(txt) |-> <<ByteLen(txt, k), LineColumn(txt, ByteLen(txt, k))>>]
\* model-level sanity: line and column never decrease together; line = 1 + number of terminators before
Monotone == \A k \in 1..Len(txt) :
              LET a == LineColumn(txt, ByteLen(txt, k - 1)) b == LineColumn(txt, ByteLen(txt, k)) IN
                b[1] > a[1] \/ (b[1] = a[1] /\ b[2] >= a[2])
Emit == PrintT(ToJson(<<"CASE", txt, [k \in 1..(Len(txt) + 1) |-> Positions[k - 1]]>>))
Inv == Monotone /\ Emit
=============================================================================
