SPECIFICATION Spec
INVARIANT Inv
CHECK_DEADLOCK FALSE
CONSTANTS
  MaxLen = 6
  Items <- ItemsInterface
