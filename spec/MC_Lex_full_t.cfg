SPECIFICATION Spec
INVARIANT Inv
CHECK_DEADLOCK FALSE
CONSTANTS
  MaxLen = 4
  Alphabet = {65, 101, 117, 110, 95, 48, 49, 34, 92, 46, 45, 43, 35, 33, 123, 44, 32, 10, 13, 37, 233, 65279, 9, 128640, 47}
  Prefix <- PfxNone
  Suffix <- PfxNone
