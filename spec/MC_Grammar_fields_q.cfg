SPECIFICATION Spec
INVARIANT Inv
CHECK_DEADLOCK FALSE
CONSTANTS
  MaxLen = 4
  Prefix <- PFields
  Suffix <- SBrace
  Alphabet = {"n1", ":", "(", ")", "[", "]", "!", "=", "int", "@", "str"}
