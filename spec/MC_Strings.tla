----------------------------- MODULE MC_Strings -----------------------------
(* Enumerates string-literal interiors; those that form a lexically valid     *)
(* literal are emitted with their reference value (C06).  In Mode "plain"     *)
(* every string over the alphabet is emitted as a value to serialize (C09).   *)
EXTENDS Strings, TLC, Json

CONSTANTS Alphabet, MaxLen, Mode    \* Mode: "quoted" | "block" | "plain"

VARIABLE mid
vars == <<mid>>
Init == mid = <<>>
Next == /\ Len(mid) < MaxLen
        /\ \E c \in Alphabet : mid' = Append(mid, c)
Spec == Init /\ [][Next]_vars

Literal == IF Mode = "block" THEN <<34, 34, 34>> \o mid \o <<34, 34, 34>> ELSE <<34>> \o mid \o <<34>>

Emit ==
  IF Mode = "plain" THEN PrintT(ToJson(<<"CASE", mid>>))
  ELSE IsStringLiteral(Literal) => PrintT(ToJson(<<"CASE", Literal, DecodeLiteral(Literal)>>))

\* sanity of the reference: decoding never yields more characters than the literal has,
\* and a block string value never starts or ends with a whitespace-only line
Sane == (Mode # "plain" /\ IsStringLiteral(Literal)) => Len(DecodeLiteral(Literal)) <= Len(Literal)
Inv == Sane /\ Emit
=============================================================================
