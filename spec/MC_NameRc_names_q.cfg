SPECIFICATION Spec
INVARIANT Inv
CHECK_DEADLOCK FALSE
CONSTANTS
  Texts = {"a", "b"}
  Locs = {1, 2}
  Values = {"x", "y"}
  MaxHandles = 4
  MaxNodes = 4
  MaxOps = 4
  NThreads = 1
  Family = "names"
