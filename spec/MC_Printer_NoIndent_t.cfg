SPECIFICATION PSpec
CONSTANTS
  Cfg <- CfgNoIndent
  MaxItems = 5
INVARIANT LevelIsDepth
INVARIANT EngineOutputAccepted
CHECK_DEADLOCK FALSE
