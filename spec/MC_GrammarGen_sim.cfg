SPECIFICATION GSpec
CONSTANTS
  Start = "Document"
  NamePool <- Names
  MaxOut = 120
  MaxForm = 60
INVARIANT GeneratedIsMember
INVARIANT EmitCase
CHECK_DEADLOCK FALSE
