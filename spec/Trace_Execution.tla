--------------------------- MODULE Trace_Execution ---------------------------
(* C26 impl -> spec: recorded responses of the real executor for random         *)
(* operations and random resolver worlds over the fixed schema of MC_Execution; *)
(* TLC recomputes each response with Execution.tla.                            *)
EXTENDS Naturals, Sequences, FiniteSets, TLC, Json, IOUtils
MC == INSTANCE MC_Execution WITH Tier <- "trace", opId <- 0, choice <- <<>>
Rec == ndJsonDeserialize(IOEnv.TRACE)
VARIABLES l, bad
vars == <<l, bad>>
\* r.vars: the coerced variable values the real CoerceVariableValues produced for the request
E(w, f, v) == INSTANCE Execution WITH Schema <- MC!TheSchema, Fragments <- f, World <- w, VarValues <- v
BagOf(s) == [e \in {s[k] : k \in 1..Len(s)} |-> Cardinality({k \in 1..Len(s) : s[k] = e})]
LineOK(r) ==
  LET resp == E(r.world, r.fragments, r.vars)!Execute([kind |-> r.kind, sels |-> r.sels]) IN
    /\ ~r.crash
    /\ resp.data = r.data
    /\ BagOf(resp.errors) = BagOf(r.errors)
Init == l = 1 /\ bad = {}
Next == /\ l <= Len(Rec) /\ l' = l + 1
        /\ bad' = IF LineOK(Rec[l]) THEN bad ELSE bad \cup {l}
Spec == Init /\ [][Next]_vars
Report == (l = Len(Rec) + 1) => PrintT(ToJson(<<"RESULT", l - 1, bad>>))
=============================================================================
