SPECIFICATION PSpec
CONSTANTS
  Cfg <- CfgIndent2
  MaxItems = 5
INVARIANT LevelIsDepth
INVARIANT EngineOutputAccepted
CHECK_DEADLOCK FALSE
