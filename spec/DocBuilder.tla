------------------------------ MODULE DocBuilder ------------------------------
(***************************************************************************)
(* ExecutableDocumentBuilder (executable/from_ast.rs): building one         *)
(* executable document from several sources.  Beyond the listed properties  *)
(* (the executable-side analogue of C13): which definitions are kept, which *)
(* build errors are recorded, and that neither depends on how the           *)
(* definitions are split over sources.                                      *)
(*                                                                          *)
(* An item is [k |-> "op", name |-> n] (n = "" for an anonymous operation)  *)
(* or [k |-> "frag", name |-> n].  One action per definition added, in      *)
(* the order add_ast_document_not_adding_sources meets them.                *)
(***************************************************************************)
EXTENDS Naturals, Sequences, FiniteSets

VARIABLES named,      \* names of the named operations kept, in order
          anon,       \* an anonymous operation is kept
          multi,      \* ExecutableDocumentBuilder.multiple_anonymous
          frs,        \* names of the fragments kept, in order
          errs        \* build errors recorded, as tags, in order of recording
bvars == <<named, anon, multi, frs, errs>>

BInit == named = <<>> /\ anon = FALSE /\ multi = FALSE /\ frs = <<>> /\ errs = <<>>
Has(s, x) == \E k \in 1..Len(s) : s[k] = x

AddNamedOp(n) ==
  LET e1 == IF anon THEN <<"ambiguous-anonymous">> ELSE <<>> IN          \* reported at the anonymous operation, every time
    /\ IF Has(named, n) THEN /\ errs' = errs \o e1 \o <<"operation-name-collision">> /\ UNCHANGED named
       ELSE /\ named' = Append(named, n) /\ errs' = errs \o e1
    /\ UNCHANGED <<anon, multi, frs>>
AddAnonymousOp ==
  IF anon
  THEN /\ errs' = errs \o (IF multi THEN <<>> ELSE <<"ambiguous-anonymous">>) \o <<"ambiguous-anonymous">>
       /\ multi' = TRUE /\ UNCHANGED <<named, anon, frs>>
  ELSE IF named # <<>>
  THEN errs' = Append(errs, "ambiguous-anonymous") /\ UNCHANGED <<named, anon, multi, frs>>
  ELSE anon' = TRUE /\ UNCHANGED <<named, multi, frs, errs>>
AddFragment(n) ==
  /\ IF Has(frs, n) THEN errs' = Append(errs, "fragment-name-collision") /\ UNCHANGED frs
     ELSE frs' = Append(frs, n) /\ UNCHANGED errs
  /\ UNCHANGED <<named, anon, multi>>
Add(it) == IF it.k = "frag" THEN AddFragment(it.name)
           ELSE IF it.name = "" THEN AddAnonymousOp ELSE AddNamedOp(it.name)

\* ---- GetOperation (specification section 6.1; OperationMap::get) on the kept operations ----------------------------
\* request: an operation name, or "<none>" (operationName unspecified or null); result: the name of the operation
\* ("" for the anonymous one) or "<error>" (a request error)
GetOperation(req) ==
  IF req # "<none>" THEN (IF Has(named, req) THEN req ELSE "<error>")
  ELSE IF (IF anon THEN 1 ELSE 0) + Len(named) = 1 THEN (IF anon THEN "" ELSE named[1])
  ELSE "<error>"

\* ---- what the recorded errors mean (the specification's three uniqueness rules) -------------------------------
OpNames(h) == SelectSeq([k \in 1..Len(h) |-> IF h[k].k = "op" THEN h[k].name ELSE "-"], LAMBDA n : n # "-")
FragNames(h) == SelectSeq([k \in 1..Len(h) |-> IF h[k].k = "frag" THEN h[k].name ELSE "-"], LAMBDA n : n # "-")
NoDup(s) == \A i, j \in 1..Len(s) : i # j => s[i] # s[j]
SpecOK(h) ==
  /\ NoDup(SelectSeq(OpNames(h), LAMBDA n : n # ""))                        \* Operation Name Uniqueness
  /\ (Has(OpNames(h), "") => Len(OpNames(h)) = 1)                           \* Lone Anonymous Operation
  /\ NoDup(FragNames(h))                                                    \* Fragment Name Uniqueness
RECURSIVE FirstOccurrences(_, _)
FirstOccurrences(s, acc) == IF s = <<>> THEN acc
                            ELSE FirstOccurrences(Tail(s), IF Has(acc, Head(s)) THEN acc ELSE Append(acc, Head(s)))
=============================================================================
