----------------------------- MODULE MC_AsyncExec -----------------------------
EXTENDS AsyncExec, TLC, Json
Init == \E p \in [1..K -> 0..P] : AInit(p)
Spec == Init /\ [][ANext]_avars /\ WF_avars(Poll) /\ WF_avars(Wake)
Inv == NoLostWakeup /\ Sequential /\ ScheduleIndependent
Terminates == <>(state = "done")
\* every pending assignment is a replay schedule for the harness (printed once, in the initial states)
Emit == (pc = 1 /\ state = "runnable" /\ log = <<>>) => PrintT(ToJson(<<"SCHED", pending>>))
InvE == Inv /\ Emit
=============================================================================
