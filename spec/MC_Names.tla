------------------------------ MODULE MC_Names ------------------------------
(* (1) every string up to MaxLen over Alphabet with the three reference       *)
(*     verdicts IsName / IsIntLiteral / IsFloatLiteral;                       *)
(* (2) every type reference up to TypeDepth over two names with its printed   *)
(*     form, which must lex and parse back to a type reference (model-level). *)
EXTENDS Names, TLC, Json

CONSTANTS Alphabet, MaxLen, TypeDepth, Prefix
PfxNone == <<>>
PfxExp == <<49, 101>>          \* "1e": the strings enumerated after it are exponent parts
PfxFrac == <<49, 46>>          \* "1."
Grammar == INSTANCE Grammar

VARIABLES str, ty
vars == <<str, ty>>
Full == Prefix \o str
NoType == <<"none">>

Init == str = <<>> /\ ty = NoType
NextStr == /\ ty = NoType /\ Len(str) < MaxLen
           /\ \E c \in Alphabet : str' = Append(str, c)
           /\ UNCHANGED ty
NextTy == /\ ty = NoType /\ str = <<>> /\ TypeDepth > 0
          /\ \E t \in TypesOfDepth({65, 66}, TypeDepth) : ty' = t
          /\ UNCHANGED str
Next == NextStr \/ NextTy
Spec == Init /\ [][Next]_vars

\* model-level: a printed type tokenises into Name / [ / ] / ! and is a type reference of the grammar
PrintedTypeOK ==
  ty # NoType =>
    LET p == PrintType(ty) IN
      /\ RefLexOK(p)
      /\ Grammar!IsTypeRef([k \in 1..Len(TokenKindsOf(p)) |-> IF TokenKindsOf(p)[k] = "Name" THEN "n1" ELSE TokenKindsOf(p)[k]])

Emit == IF ty = NoType
        THEN PrintT(ToJson(<<"STR", Full, IsName(Full), IsIntLiteral(Full), IsFloatLiteral(Full)>>))
        ELSE PrintT(ToJson(<<"TYPE", ty, PrintType(ty)>>))
Inv == PrintedTypeOK /\ Emit
=============================================================================
