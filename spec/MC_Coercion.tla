----------------------------- MODULE MC_Coercion -----------------------------
EXTENDS Coercion, TLC, Json
CONSTANT Depth

Names == {"Int", "Float", "String", "Boolean", "ID", "E", "In"}
RECURSIVE NamedOf(_)
NamedOf(t) == IF t[1] = "named" THEN t[2] ELSE NamedOf(t[2])
\* a default literal valid for the named type (single values are valid for list types by list coercion)
DefaultFor(n) ==
  CASE n = "Int" -> <<"num", "5">> [] n = "Float" -> <<"num", "5">> [] n = "String" -> <<"str", "s">>
    [] n = "Boolean" -> <<"bool", TRUE>> [] n = "ID" -> <<"num", "5">> [] n = "E" -> <<"str", "V">>
    [] OTHER -> <<"obj", <<<<"r", <<"num", "1">>>>>>>>

Scalars == {<<"bool", TRUE>>, <<"str", "s">>, <<"str", "V">>, <<"str", "1">>}
           \cup {<<"num", t>> : t \in {"0", "1", "i32max", "i32max+1", "i32min-1", "1.5"}}
Objs == { <<"obj", <<>>>>,
          <<"obj", <<<<"r", <<"num", "1">>>>>>>>,
          <<"obj", <<<<"r", Null>>>>>>,
          <<"obj", <<<<"r", <<"num", "1">>>>, <<"x", <<"num", "1">>>>>>>>,
          <<"obj", <<<<"d", Null>>, <<"r", <<"num", "1">>>>>>>>,
          <<"obj", <<<<"d", <<"str", "s">>>>, <<"r", <<"num", "1">>>>>>>>,
          <<"obj", <<<<"l", <<"num", "1">>>>, <<"r", <<"num", "1">>>>>>>>,
          <<"obj", <<<<"n", <<"obj", <<<<"r", <<"num", "1">>>>>>>>>>, <<"r", <<"num", "1">>>>>>>>,
          <<"obj", <<<<"n", <<"obj", <<>>>>>>, <<"r", <<"num", "1">>>>>>>> }
Base == Scalars \cup Objs \cup {Null}
Values == Base \cup {<<"list", <<>>>>} \cup {<<"list", <<b>>>> : b \in Base} \cup {<<"list", <<<<"list", <<b>>>>>>>> : b \in Scalars \cup {Null}}
          \cup {<<"list", <<<<"num", "1">>, Null>>>>, <<"list", <<<<"num", "1">>, <<"str", "s">>>>>>}

VARIABLE c
Init == \E t \in TypesOfDepth(Names, Depth), hd \in BOOLEAN, p \in Values \cup {<<"absent">>} :
          c = <<"CASE", t, hd, DefaultFor(NamedOf(t)), p, CoerceVariable(t, hd, DefaultFor(NamedOf(t)), p)>>
Next == UNCHANGED c
Spec == Init /\ [][Next]_c

\* model-level: a successful coercion yields a value that coerces to itself (idempotence), and a provided value
\* makes the default irrelevant
Idem == (IsOk(c[6]) /\ c[6][2][1] = "present") => Coerce(c[2], c[6][2][2]) = Ok(c[6][2][2])
DefaultIrrelevantWhenProvided == c[5] # <<"absent">> => c[6] = CoerceVariable(c[2], ~c[3], c[4], c[5])
Inv == Idem /\ DefaultIrrelevantWhenProvided /\ PrintT(ToJson(c))
=============================================================================
