----------------------------- MODULE Determinism -----------------------------
(***************************************************************************)
(* Hash-ordered iteration as nondeterminism (C22).  Sites where the code   *)
(* iterates a collection keyed by a per-process random hash seed into       *)
(* something observable are modelled as a choice of permutation; the        *)
(* observable must not depend on the choice.                               *)
(*                                                                         *)
(* Site A  validate_schema: the built-in scalars that are referenced but    *)
(*         missing are inserted into the ordered type map.                  *)
(*         variant "hashset": iterated in hash order (the defect fixed by   *)
(*         1d3dd09); variant "indexset": in first-reference order.          *)
(* Site B  validate_unused_variables: a hash map of variables is iterated,  *)
(*         diagnostics are pushed and later sorted by location (stable).    *)
(* Site C  implementers_map: values are hash sets; consumers either sort or *)
(*         only test membership (possibleTypes iterates the ordered type    *)
(*         map and filters).                                               *)
(***************************************************************************)
EXTENDS Naturals, Sequences, FiniteSets

Perms(S) == {p \in [1..Cardinality(S) -> S] : \A i, j \in 1..Cardinality(S) : i # j => p[i] # p[j]}

\* ---- site A ---------------------------------------------------------------
\* refOrder: the missing scalars in the order in which validation first meets a reference (a sequence)
SiteA(variant, typeMap, refOrder, perm) ==
  typeMap \o (IF variant = "hashset" THEN perm ELSE refOrder)

\* ---- site B ---------------------------------------------------------------
\* vars: set of <<name, location>>; diagnostics pushed in hash order, then sorted by location (stable sort)
RECURSIVE InsertSorted(_, _)
InsertSorted(sorted, d) ==     \* stable insertion by location
  IF sorted = <<>> THEN <<d>>
  ELSE IF d[2] < Head(sorted)[2] THEN <<d>> \o sorted ELSE <<Head(sorted)>> \o InsertSorted(Tail(sorted), d)
RECURSIVE SortAll(_, _)
SortAll(pushed, acc) == IF pushed = <<>> THEN acc ELSE SortAll(Tail(pushed), InsertSorted(acc, Head(pushed)))
SiteB(perm) == SortAll(perm, <<>>)

\* ---- site C ---------------------------------------------------------------
\* possibleTypes: the ordered type map filtered by membership in the (unordered) implementers set
SiteC(typeOrder, implementers) == SelectSeq(typeOrder, LAMBDA t : t \in implementers)
=============================================================================
