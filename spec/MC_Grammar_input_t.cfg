SPECIFICATION Spec
INVARIANT Inv
CHECK_DEADLOCK FALSE
CONSTANTS
  MaxLen = 5
  Prefix <- PInput
  Suffix <- SBrace
  Alphabet = {"n1", ":", "[", "]", "!", "=", "int", "@", "str", "{", "}"}
