SPECIFICATION Spec
INVARIANT Inv
CHECK_DEADLOCK FALSE
CONSTANTS
  MaxLen = 4
  Alphabet = {97, 233, 20013, 128640, 10, 13, 12, 8232, 133, 32}
