---- MODULE MC_SmithDoc ----
EXTENDS SmithDoc
NamePool == {"A", "B", "C", "D", "E", "F"}
FieldPool == {"x", "y"}
SmallPool == {"A", "B", "C", "D", "E"}
====
