SPECIFICATION Spec
INVARIANT Inv
CHECK_DEADLOCK FALSE
CONSTANTS
  Texts = {"a", "b"}
  Locs = {1, 2}
  Values = {"x", "y"}
  MaxHandles = 5
  MaxNodes = 5
  MaxOps = 6
  NThreads = 1
  Family = "names"
