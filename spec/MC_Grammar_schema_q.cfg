SPECIFICATION Spec
INVARIANT Inv
CHECK_DEADLOCK FALSE
CONSTANTS
  MaxLen = 4
  Prefix <- PSchema
  Suffix <- PNone
  Alphabet = {"@", "n1", "{", "}", "query", "mutation", ":", "(", ")", "int", "str"}
