------------------------------ MODULE LineCol ------------------------------
(***************************************************************************)
(* Byte offset -> (line, column) (C11): lines are separated by a GraphQL   *)
(* LineTerminator (\n | \r\n | \r), columns count Unicode scalar values,   *)
(* both 1-based.  Text is a sequence of code points; offsets are UTF-8     *)
(* byte offsets.                                                           *)
(***************************************************************************)
EXTENDS Naturals, Sequences

Utf8Len(c) == IF c < 128 THEN 1 ELSE IF c < 2048 THEN 2 ELSE IF c < 65536 THEN 3 ELSE 4

RECURSIVE ByteLen(_, _)
ByteLen(s, k) == IF k = 0 THEN 0 ELSE ByteLen(s, k - 1) + Utf8Len(s[k])   \* bytes of the first k characters

RECURSIVE Walk(_, _, _, _, _, _)
\* position after consuming characters 1..i-1 is (line, col); stop when the byte position reaches `offset`
Walk(s, i, bytes, offset, line, col) ==
  IF bytes >= offset \/ i > Len(s) THEN <<line, col>>
  ELSE LET c == s[i] IN
       IF c = 10 /\ i > 1 /\ s[i - 1] = 13 THEN Walk(s, i + 1, bytes + 1, offset, line, col)   \* the \n of \r\n
       ELSE IF c = 10 \/ c = 13 THEN Walk(s, i + 1, bytes + 1, offset, line + 1, 1)
       ELSE Walk(s, i + 1, bytes + Utf8Len(c), offset, line, col + 1)

LineColumn(s, offset) == Walk(s, 1, 0, offset, 1, 1)

\* all char-boundary byte offsets of s, including the end
Boundaries(s) == {ByteLen(s, k) : k \in 0..Len(s)}
=============================================================================
