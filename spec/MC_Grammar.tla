---------------------------- MODULE MC_Grammar ----------------------------
(* Exhaustive enumeration of token strings up to MaxLen over Alphabet; each    *)
(* state is one token string; the reference verdicts are printed as a case.    *)
EXTENDS Grammar, TLC, Json

CONSTANTS Alphabet, MaxLen, Prefix, Suffix

\* prefixes / suffixes selectable from the .cfg (cfg files cannot contain tuples)
PNone == <<>>
PArgs == <<"{", "n1", "(">>               SArgs == <<")", "}">>
PFields == <<"type", "n1", "{">>           SBrace == <<"}">>
PVars == <<"query", "(">>                  SVars == <<")", "{", "n1", "}">>
PDirective == <<"directive", "@", "n1">>
PExtend == <<"extend">>
PExtSchema == <<"extend", "schema">>
PEnum == <<"enum", "n1", "{">>
PUnion == <<"union", "n1">>
PInput == <<"input", "n1", "{">>
PSel == <<"{">>
PSchema == <<"schema">>
PFrag == <<"fragment">>
\* const contexts: a variable is not a value here (October 2021 Value[Const])
PVarDirArg == <<"query", "(", "$", "n1", ":", "n1", "@", "n1", "(">>   SVarDirArg == <<")", ")", "{", "n1", "}">>
PVarDefault == <<"query", "(", "$", "n1", ":", "n1", "=">>             \* suffix SVars
PTypeDirArg == <<"type", "n1", "@", "n1", "(">>                       STypeDirArg == <<")", "{", "n1", ":", "n1", "}">>
PArgDefault == <<"type", "n1", "{", "n1", "(", "n1", ":", "n1", "=">>  SArgDefault == <<")", ":", "n1", "}">>

VARIABLE mid
toks == Prefix \o mid \o Suffix
vars == <<mid>>

Init == mid = <<>>
Next == /\ Len(mid) < MaxLen
        /\ \E t \in Alphabet : mid' = Append(mid, t)
Spec == Init /\ [][Next]_vars

DocCase == LET m == InGrammar(toks) IN
             <<"CASE", toks, m, IF m THEN TopLevel(toks) ELSE <<>>, IsTypeRef(toks), IsFieldSet(toks)>>

Emit == PrintT(ToJson(DocCase))

\* sanity of the reference: an accepted document has at least one definition and the split covers it
Sane == InGrammar(toks) => Len(TopLevel(toks)) >= 1

Inv == Sane /\ Emit
=============================================================================
