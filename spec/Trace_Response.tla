--------------------------- MODULE Trace_Response ---------------------------
(* C33: recorded ResponseBuilder outputs (schema index, operation in the     *)
(* representation of Execution.tla, generated data, and whether executing     *)
(* the operation over resolvers serving that data reproduced it).             *)
EXTENDS Naturals, Sequences, FiniteSets, TLC, Json, IOUtils
Rec == ndJsonDeserialize(IOEnv.TRACE)
RawSchemas == ndJsonDeserialize(IOEnv.SCHEMAS)
VARIABLES l, bad
vars == <<l, bad>>
ToSet(s) == {s[k] : k \in 1..Len(s)}
Norm(s) == [query |-> s.query, mutation |-> s.mutation,
            types |-> [n \in DOMAIN s.types |->
                         [kind |-> s.types[n].kind, fields |-> s.types[n].fields, implements |-> ToSet(s.types[n].implements),
                          members |-> ToSet(s.types[n].members), values |-> ToSet(s.types[n].values)]]]
R(s, f) == INSTANCE Response WITH Schema <- s, Fragments <- f
Sel(name, cond) == IF cond THEN {} ELSE {name}
Fails(r) ==
  LET s == Norm(RawSchemas[r.schema]) IN
  UNION { Sel("C33-crash", ~r.crash),
          Sel("C33-shape", r.crash \/ R(s, r.fragments)!ResponseConforms([kind |-> r.kind, sels |-> r.sels], r.data)),
          Sel("C33-not-reproduced-by-execution", r.executed => (r.reproduced /\ r.execErrors = 0)) }
Init == l = 1 /\ bad = {}
Next == /\ l <= Len(Rec) /\ l' = l + 1
        /\ bad' = IF Fails(Rec[l]) = {} THEN bad ELSE bad \cup {<<l, Fails(Rec[l])>>}
Spec == Init /\ [][Next]_vars
Report == (l = Len(Rec) + 1) => PrintT(ToJson(<<"RESULT", l - 1, bad>>))
=============================================================================
