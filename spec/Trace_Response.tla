--------------------------- MODULE Trace_Response ---------------------------
(* C33: recorded ResponseBuilder outputs (schema index, operation in the     *)
(* representation of Execution.tla, generated data, and whether executing     *)
(* the operation over resolvers serving that data reproduced it).             *)
EXTENDS Naturals, Sequences, FiniteSets, TLC, Json, IOUtils
Rec == ndJsonDeserialize(IOEnv.TRACE)
RawSchemas == ndJsonDeserialize(IOEnv.SCHEMAS)
VARIABLES l, bad
vars == <<l, bad>>
ToSet(s) == {s[k] : k \in 1..Len(s)}
Norm(s) == [query |-> s.query, mutation |-> s.mutation,
            types |-> [n \in DOMAIN s.types |->
                         [kind |-> s.types[n].kind, fields |-> s.types[n].fields, implements |-> ToSet(s.types[n].implements),
                          members |-> ToSet(s.types[n].members), values |-> ToSet(s.types[n].values)]]]
R(s, f) == INSTANCE Response WITH Schema <- s, Fragments <- f
Sel(name, cond) == IF cond THEN {} ELSE {name}
\* response keys that select __typename under an alias (the harness names them tn1, tn2, ..)
RECURSIVE TypenameAliases(_)
TypenameAliases(sels) ==
  UNION {CASE sels[k][1] = "field" -> (IF sels[k][3] = "__typename" /\ sels[k][2] # "__typename" THEN {sels[k][2]} ELSE {}) \cup TypenameAliases(sels[k][4])
           [] sels[k][1] = "inline" -> TypenameAliases(sels[k][3])
           [] OTHER -> {} : k \in 1..Len(sels)}
AllTypenameAliases(r) == TypenameAliases(r.sels) \cup UNION {TypenameAliases(r.fragments[f].sels) : f \in DOMAIN r.fragments}
Fails(r) ==
  LET s == Norm(RawSchemas[r.schema])
      withOverlay == r.overlay[1] # "none"
      P == IF withOverlay THEN "X02" ELSE "C33" IN
  UNION { Sel(P \o "-crash", ~r.crash),
          Sel(P \o "-shape", r.crash \/ R(s, r.fragments)!ResponseConforms([kind |-> r.kind, sels |-> r.sels], r.data)),
          Sel(P \o "-not-reproduced-by-execution", r.executed => (r.reproduced /\ r.execErrors = 0)),
          IF r.crash \/ ~withOverlay \/ R(s, r.fragments)!Covers(r.data, r.overlay) THEN {}
          ELSE IF R(s, r.fragments)!CoversExcept(r.data, r.overlay, AllTypenameAliases(r)) THEN {"X02-aliased-typename-not-echoed"}
          ELSE {"X02-overlay-not-echoed"} }
Init == l = 1 /\ bad = {}
Next == /\ l <= Len(Rec) /\ l' = l + 1
        /\ bad' = IF Fails(Rec[l]) = {} THEN bad ELSE bad \cup {<<l, Fails(Rec[l])>>}
Spec == Init /\ [][Next]_vars
Report == (l = Len(Rec) + 1) => PrintT(ToJson(<<"RESULT", l - 1, bad>>))
=============================================================================
