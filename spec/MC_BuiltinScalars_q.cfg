SPECIFICATION Spec
INVARIANT Inv
VIEW ViewNoOrder
CHECK_DEADLOCK FALSE
CONSTANT MaxOps = 5
