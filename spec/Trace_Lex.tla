----------------------------- MODULE Trace_Lex -----------------------------
(* Trace validation for C03: each line records one run of the real lexer    *)
(* (code points of the input, items with char offsets).  The line is        *)
(* accepted iff the items satisfy the property w.r.t. LexGrammar.           *)
EXTENDS LexGrammar, TLC, Json, IOUtils

Rec == ndJsonDeserialize(IOEnv.TRACE)

VARIABLES l, bad
vars == <<l, bad>>

\* it = <<kind, start(0-based), len, isError>>
ItemOK(s, it) ==
  IF it[4] THEN TRUE          \* error fragments: segmentation is not defined by the grammar
  ELSE IF it[1] = "Whitespace"
       THEN it[3] >= 1 /\ \A k \in (it[2] + 1)..(it[2] + it[3]) : IgnoredWsChar(s[k])
       ELSE TokenAt(s, it[2] + 1) = <<it[1], it[2] + it[3] + 1>>

Contiguous(items, n) ==
  /\ \A k \in 1..Len(items) : items[k][2] = (IF k = 1 THEN 0 ELSE items[k-1][2] + items[k-1][3])
  /\ (IF Len(items) = 0 THEN n = 0 ELSE items[Len(items)][2] + items[Len(items)][3] = n)

LineOK(r) ==
  /\ ~r.crash
  /\ r.flags = <<TRUE, TRUE, TRUE>>
  /\ Contiguous(r.items, Len(r.cps))
  /\ \A k \in 1..Len(r.items) : ItemOK(r.cps, r.items[k])
  /\ ((\A k \in 1..Len(r.items) : ~r.items[k][4]) <=> RefLexOK(r.cps))

Init == l = 1 /\ bad = {}
Next == /\ l <= Len(Rec)
        /\ l' = l + 1
        /\ bad' = IF LineOK(Rec[l]) THEN bad ELSE bad \cup {l}
Spec == Init /\ [][Next]_vars

Report == (l = Len(Rec) + 1) => PrintT(ToJson(<<"RESULT", l - 1, bad>>))
=============================================================================
