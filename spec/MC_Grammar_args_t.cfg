SPECIFICATION Spec
INVARIANT Inv
CHECK_DEADLOCK FALSE
CONSTANTS
  MaxLen = 6
  Prefix <- PArgs
  Suffix <- SArgs
  Alphabet = {"n1", ":", "int", "[", "]", "{", "}", "$", "str", "true"}
