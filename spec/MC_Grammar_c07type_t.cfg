SPECIFICATION Spec
INVARIANT Inv
CHECK_DEADLOCK FALSE
CONSTANTS
  MaxLen = 6
  Prefix <- PNone
  Suffix <- PNone
  Alphabet = {"n1", "[", "]", "!", "{", "}", ":", "int"}
