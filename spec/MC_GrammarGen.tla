---------------------------- MODULE MC_GrammarGen ----------------------------
EXTENDS GrammarGen, TLC, Json
Names == {"n1", "n2", "n3", "on", "true", "null", "query", "fragment", "extend", "type", "schema", "input",
          "repeatable", "implements", "subscription", "enum", "directive"}
SmallNames == {"n1", "on"}
EmitCase == Done => PrintT(ToJson(<<"CASE", out>>))
=============================================================================
