------------------------------- MODULE Limits -------------------------------
(***************************************************************************)
(* LimitTracker (crates/apollo-parser/src/limit.rs) as a state machine, and  *)
(* the reference notions C04 is stated with: the nesting depth of a document *)
(* built from nested constructs, and the number of lexer items of its text.  *)
(***************************************************************************)
EXTENDS Naturals, Sequences, FiniteSets

Max(a, b) == IF a >= b THEN a ELSE b
Min(a, b) == IF a <= b THEN a ELSE b

\* ---- the tracker -----------------------------------------------------------
\* t = [cur, high, limit]
NewTracker(limit) == [cur |-> 0, high |-> 0, limit |-> limit]
Reached(t) == t.cur + 1 > t.limit
CheckAndIncrement(t) ==      \* returns the new tracker; `Reached(t)` is the returned flag
  [t EXCEPT !.high = Max(t.high, t.cur + 1),
            !.cur = IF t.cur + 1 > t.limit THEN t.cur ELSE t.cur + 1]
CanDecrement(t) == t.cur > 0
Decrement(t) == [t EXCEPT !.cur = t.cur - 1]

\* ---- nesting constructs ------------------------------------------------------
\* "sel"    a selection set              { n1 ... }
\* "inline" an inline fragment           ... { n1 ... }   (its selection set counts)
\* "list"   a non-empty list value       [ v ]
\* "obj"    an object value with a field { n1 : v }
\* "ltype"  a list type                  [ T ]
Constructs == {"sel", "inline", "list", "obj", "ltype"}

\* A nest is <<sels, vals, types>>: `sels` (over sel/inline) nested selection sets below the operation's own,
\* `vals` (over list/obj) a value nested in an argument of the innermost field, `types` the number of list types
\* around a variable's type.
SelDepth(sels) == 1 + Len(sels)
ValDepth(sels, vals) == IF Len(vals) = 0 THEN 0 ELSE SelDepth(sels) + Len(vals)
NestingDepth(sels, vals, types) == Max(Max(SelDepth(sels), ValDepth(sels, vals)), types)

\* ---- token rendering (Grammar tokens) ----------------------------------------
RECURSIVE ValToks(_)
ValToks(vals) ==
  IF Len(vals) = 0 THEN <<"int">>
  ELSE IF vals[1] = "list" THEN <<"[">> \o ValToks(Tail(vals)) \o <<"]">>
  ELSE <<"{", "n1", ":">> \o ValToks(Tail(vals)) \o <<"}">>

RECURSIVE SelToks(_, _)
\* innermost field carries the argument when vals is non-empty
SelToks(sels, vals) ==
  IF Len(sels) = 0
  THEN <<"{", "n1">> \o (IF Len(vals) = 0 THEN <<>> ELSE <<"(", "n1", ":">> \o ValToks(vals) \o <<")">>) \o <<"}">>
  ELSE IF sels[1] = "sel" THEN <<"{", "n1">> \o SelToks(Tail(sels), vals) \o <<"}">>
  ELSE <<"{", "...">> \o SelToks(Tail(sels), vals) \o <<"}">>

RECURSIVE TypeToks(_)
TypeToks(k) == IF k = 0 THEN <<"n1">> ELSE <<"[">> \o TypeToks(k - 1) \o <<"]">>

DocToks(sels, vals, types) ==
  (IF types = 0 THEN <<>> ELSE <<"query", "(", "$", "n1", ":">> \o TypeToks(types) \o <<")">>)
  \o SelToks(sels, vals)

\* Rendering rule of the harness: tokens joined by one space. Lexer items: every token, every single-space
\* Whitespace item between two tokens, and the final Eof.
ItemCount(toks) == IF Len(toks) = 0 THEN 1 ELSE 2 * Len(toks)
=============================================================================
