------------------------------ MODULE IntroDepth ------------------------------
(***************************************************************************)
(* The introspection depth limit (introspection/max_depth.rs) — C25.        *)
(* An operation is a forest of selections:                                  *)
(*   <<"list", children>>    one of fields/interfaces/possibleTypes/inputFields *)
(*   <<"plain", children>>   any other field                                *)
(*   <<"inline", children>>  an inline fragment                             *)
(*   <<"spread", f>>         a named fragment spread                        *)
(* and fragment definitions frags[f] (forests; spreads acyclic).            *)
(* Reference: rejected iff, with all fragments expanded, some path nests    *)
(* MAXD (= 3) or more list fields.  The code's algorithm memoises the depth *)
(* each fragment adds the first time it is met.                             *)
(***************************************************************************)
EXTENDS Naturals, Sequences, FiniteSets

MAXD == 3
Max(a, b) == IF a >= b THEN a ELSE b

\* ---- reference: fragments expanded -------------------------------------------
RECURSIVE RefDepth(_, _, _)
\* the maximum number of nested list fields on any path of `sels`, starting at depth d
RefDepth(sels, frags, d) ==
  IF sels = <<>> THEN d
  ELSE LET s == Head(sels)
           here == CASE s[1] = "list"   -> RefDepth(s[2], frags, d + 1)
                     [] s[1] = "plain"  -> RefDepth(s[2], frags, d)
                     [] s[1] = "inline" -> RefDepth(s[2], frags, d)
                     [] OTHER           -> RefDepth(frags[s[2]], frags, d)
       IN Max(here, RefDepth(Tail(sels), frags, d))
Rejects(op, frags) == RefDepth(op, frags, 0) >= MAXD

\* ---- the memoised algorithm --------------------------------------------------
\* result: [ok, max, memo]  (memo: fragment name -> depth it adds, 99 = not seen)
NotSeen == 99
RECURSIVE Check(_, _, _, _)
Check(sels, frags, d, memo) ==
  IF sels = <<>> THEN [ok |-> TRUE, max |-> d, memo |-> memo]
  ELSE LET s == Head(sels)
           r == CASE s[1] = "inline" -> Check(s[2], frags, d, memo)
                  [] s[1] = "plain"  -> Check(s[2], frags, d, memo)
                  [] s[1] = "list"   -> IF d + 1 >= MAXD THEN [ok |-> FALSE, max |-> d + 1, memo |-> memo]
                                        ELSE Check(s[2], frags, d + 1, memo)
                  [] OTHER ->
                       IF memo[s[2]] # NotSeen
                       THEN (IF d + memo[s[2]] >= MAXD THEN [ok |-> FALSE, max |-> d + memo[s[2]], memo |-> memo]
                             ELSE [ok |-> TRUE, max |-> d + memo[s[2]], memo |-> memo])
                       ELSE LET inner == Check(frags[s[2]], frags, d, memo) IN
                            IF ~inner.ok THEN inner
                            ELSE [ok |-> TRUE, max |-> inner.max, memo |-> [inner.memo EXCEPT ![s[2]] = inner.max - d]]
       IN IF ~r.ok THEN r
          ELSE LET rest == Check(Tail(sels), frags, d, r.memo) IN
               IF ~rest.ok THEN rest ELSE [ok |-> TRUE, max |-> Max(r.max, rest.max), memo |-> rest.memo]

AlgRejects(op, frags) == ~Check(op, frags, 0, [f \in DOMAIN frags |-> NotSeen]).ok

\* ---- inlining a spread (C25: "writing the same selections with or without named fragments") ---
RECURSIVE Inline(_, _)
Inline(sels, frags) ==
  IF sels = <<>> THEN <<>>
  ELSE LET s == Head(sels) IN
       (IF s[1] = "spread" THEN <<<<"inline", Inline(frags[s[2]], frags)>>>>
        ELSE <<<<s[1], Inline(s[2], frags)>>>>) \o Inline(Tail(sels), frags)
=============================================================================
