-------------------------- MODULE Trace_Coordinate --------------------------
(* C23 impl -> spec: recorded parse results of longer random strings.          *)
EXTENDS Coordinate, TLC, Json, IOUtils
Rec == ndJsonDeserialize(IOEnv.TRACE)
VARIABLES l, bad
vars == <<l, bad>>
LineOK(r) ==
  /\ ~r.crash
  /\ r.parsed = ParseCoordinate(r.str)
  /\ (r.parsed # Invalid) => (r.printed = r.str /\ r.printed = PrintCoordinate(r.parsed))
Init == l = 1 /\ bad = {}
Next == /\ l <= Len(Rec) /\ l' = l + 1
        /\ bad' = IF LineOK(Rec[l]) THEN bad ELSE bad \cup {l}
Spec == Init /\ [][Next]_vars
Report == (l = Len(Rec) + 1) => PrintT(ToJson(<<"RESULT", l - 1, bad>>))
=============================================================================
