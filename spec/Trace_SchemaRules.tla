-------------------------- MODULE Trace_SchemaRules --------------------------
(* C14 / C15: each line is an abstract schema (a seed, a mutant, or the          *)
(* projection of a real schema) with the verdict of the real validator.          *)
(*   C14: verdict = Valid(schema);   C15: verdict => WellFormed(schema) and the  *)
(*   built-in scalars present in the validated type map = the referenced ones.   *)
EXTENDS Naturals, Sequences, FiniteSets, TLC, Json, IOUtils
R == INSTANCE SchemaRules WITH CheckDeprecatedOnRequired <- TRUE      \* the reference
W == INSTANCE SchemaRules WITH CheckDeprecatedOnRequired <- FALSE     \* ... without the rule apollo-compiler lacks
Range(s) == R!Range(s)
NamedOfT(t) == R!NamedOfT(t)
BuiltInScalars == R!BuiltInScalars
Rec == ndJsonDeserialize(IOEnv.TRACE)
VARIABLES l, bad
vars == <<l, bad>>

TypesIn(s) ==
  UNION {UNION {{NamedOfT(t.fields[f].type)} \cup {NamedOfT(t.fields[f].args[a].type) : a \in 1..Len(t.fields[f].args)} : f \in 1..Len(t.fields)}
           \cup {NamedOfT(t.inputFields[f].type) : f \in 1..Len(t.inputFields)} : t \in Range(s.types)}
  \cup UNION {{NamedOfT(d.args[a].type) : a \in 1..Len(d.args)} : d \in Range(s.directives)}
ReferencedScalars(s) == (TypesIn(s) \cap BuiltInScalars) \cup {"String", "Boolean"}

Sel(name, cond) == IF cond THEN {} ELSE {name}
Fails(r) ==
  UNION { IF r.ok = R!Valid(r.schema) THEN {}
          ELSE IF r.ok /\ W!Valid(r.schema) THEN {"C14-accepts-deprecated-on-required-argument-or-input-field"}
          ELSE IF r.ok THEN {"C14-accepts-invalid"} ELSE {"C14-rejects-valid"},
          Sel("C15-accepted-but-not-well-formed", r.ok => R!WellFormed(r.schema)),
          Sel("C15-built-in-scalars-present-differ-from-referenced", (r.ok /\ r.checkScalars) => Range(r.presentScalars) = ReferencedScalars(r.schema)) }
Init == l = 1 /\ bad = {}
Next == /\ l <= Len(Rec) /\ l' = l + 1
        /\ bad' = IF Fails(Rec[l]) = {} THEN bad ELSE bad \cup {<<l, Fails(Rec[l])>>}
Spec == Init /\ [][Next]_vars
Report == (l = Len(Rec) + 1) => PrintT(ToJson(<<"RESULT", l - 1, bad>>))
=============================================================================
