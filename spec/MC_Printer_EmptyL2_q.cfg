SPECIFICATION PSpec
CONSTANTS
  Cfg <- CfgEmptyL2
  MaxItems = 4
INVARIANT LevelIsDepth
INVARIANT EngineOutputAccepted
CHECK_DEADLOCK FALSE
