SPECIFICATION Spec
INVARIANT Inv
CHECK_DEADLOCK FALSE
CONSTANTS
  MaxLen = 6
  TypeDepth = 5
  Alphabet = {65, 49, 48, 95, 45, 46, 101, 43, 32, 233, 69}
  Prefix <- PfxNone
