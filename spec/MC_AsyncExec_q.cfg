SPECIFICATION Spec
INVARIANT InvE
PROPERTY Terminates
CHECK_DEADLOCK FALSE
CONSTANTS
  K = 4
  P = 2
