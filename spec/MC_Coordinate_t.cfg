SPECIFICATION Spec
INVARIANT Inv
CHECK_DEADLOCK FALSE
CONSTANTS
  MaxLen = 7
  Alphabet = {97, 49, 46, 64, 40, 41, 58, 233}
