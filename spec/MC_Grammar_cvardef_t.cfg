SPECIFICATION Spec
INVARIANT Inv
CHECK_DEADLOCK FALSE
CONSTANTS
  MaxLen = 5
  Prefix <- PVarDefault
  Suffix <- SVars
  Alphabet = {"n1", ":", "$", "int", "[", "]", "{", "}", "@", "(", ")"}
