SPECIFICATION Spec
INVARIANT Inv
CHECK_DEADLOCK FALSE
CONSTANTS
  MaxLen = 5
  Prefix <- PSchema
  Suffix <- PNone
  Alphabet = {"@", "n1", "{", "}", "query", "mutation", ":", "(", ")", "int", "str"}
