--------------------------- MODULE Trace_ExecRules ---------------------------
(* C17 / C20 / C18: each line carries the abstract schema, an abstract            *)
(* executable document (seed, mutant or projected corpus document) and what the  *)
(* real code said: `ok` (validation against the schema), `standalone` (validation *)
(* without a schema) and the typing facts of the built document.                  *)
EXTENDS Naturals, Sequences, FiniteSets, TLC, Json, IOUtils
Rec == ndJsonDeserialize(IOEnv.TRACE)
Schemas == ndJsonDeserialize(IOEnv.SCHEMAS)       \* the (few) schemas, referred to by index
VARIABLES l, bad
vars == <<l, bad>>
E(s) == INSTANCE ExecRules WITH S <- s
Sel(name, cond) == IF cond THEN {} ELSE {name}

\* C18: the recorded typing facts of the built document
\*   <<"field", parent, name, definitionType, subSelectionType>>: the schema's definition of the field on its parent
\*   <<"inline", parent, condition, innerType>>: typed by the type condition, or by the parent type without one
\*   <<"frag", name, "", innerType>>: typed by the fragment's type condition;  <<"op", kind, "", rootType>>
TypingOK(s, doc, facts) ==
  \A k \in 1..Len(facts) :
    LET f == facts[k] IN
      CASE f[1] = "field" -> LET d == E(s)!FieldDefOf(f[2], f[3]) IN d # E(s)!NoField /\ f[4] = d.type /\ f[5] = E(s)!NamedOfT(d.type)
        [] f[1] = "inline" -> f[4] = (IF f[3] = "" THEN f[2] ELSE f[3])
        [] f[1] = "frag" -> E(s)!HasFrag(doc, f[2]) /\ f[4] = E(s)!FragByName(doc, f[2]).on
        [] OTHER -> f[4] = E(s)!RootType(f[2])

\* C18: the iterators visit exactly the reachable fields (as bags), each named fragment once
BagEq(a, b) == /\ Len(a) = Len(b)
               /\ \A x \in {a[i] : i \in 1..Len(a)} \cup {b[i] : i \in 1..Len(b)} :
                    Cardinality({i \in 1..Len(a) : a[i] = x}) = Cardinality({i \in 1..Len(b) : b[i] = x})
FieldFacts(facts) == LET fs == SelectSeq(facts, LAMBDA f : f[1] = "field") IN [k \in 1..Len(fs) |-> <<fs[k][2], fs[k][3]>>]
IterOK(s, doc, its) ==
  \A k \in 1..Len(its) :
    \E o \in 1..Len(doc.operations) :
      /\ doc.operations[o].name = its[k].name
      /\ BagEq(its[k].root, E(s)!Walk(doc, doc.operations[o].sels, FALSE))
      /\ BagEq(its[k].all, E(s)!Walk(doc, doc.operations[o].sels, TRUE))

Fails(r) ==
  LET s == Schemas[r.schema] IN
  UNION { Sel(IF r.ok THEN "C17-accepts-invalid" ELSE "C17-rejects-valid", r.ok = E(s)!Valid(r.doc)),
          Sel("C20-valid-with-schema-but-rejected-standalone", r.ok => r.standalone),
          \* standalone validation may only reject what is an error under every schema (it need not report all of it)
          Sel("C20-standalone-rejects-valid", E(s)!StandaloneValid(r.doc) => r.standalone),
          Sel("C18-field-definition-or-selection-type", TypingOK(s, r.doc, r.typing)),
          Sel("C18-fields-of-the-built-document", BagEq(FieldFacts(r.typing), E(s)!AllBuiltFields(r.doc))),
          Sel("C18-valid-document-guarantee", r.ok => E(s)!ValidGuarantees(r.doc)),
          Sel("C18-iterators", r.ok => (Len(r.iter) = Len(r.doc.operations) /\ IterOK(s, r.doc, r.iter))) }
Init == l = 1 /\ bad = {}
Next == /\ l <= Len(Rec) /\ l' = l + 1
        /\ bad' = IF Fails(Rec[l]) = {} THEN bad ELSE bad \cup {<<l, Fails(Rec[l])>>}
Spec == Init /\ [][Next]_vars
Report == (l = Len(Rec) + 1) => PrintT(ToJson(<<"RESULT", l - 1, bad>>))
=============================================================================
