SPECIFICATION Spec
INVARIANT Inv
CHECK_DEADLOCK FALSE
CONSTANTS
  Mode = "plain"
  MaxLen = 4
  Alphabet = {97, 32, 9, 10, 13, 34, 92, 8, 31, 233, 127, 133}
