SPECIFICATION PSpec
CONSTANTS
  Cfg <- CfgNoIndentL3
  MaxItems = 5
INVARIANT LevelIsDepth
INVARIANT EngineOutputAccepted
CHECK_DEADLOCK FALSE
