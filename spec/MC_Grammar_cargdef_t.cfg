SPECIFICATION Spec
INVARIANT Inv
CHECK_DEADLOCK FALSE
CONSTANTS
  MaxLen = 6
  Prefix <- PArgDefault
  Suffix <- SArgDefault
  Alphabet = {"n1", ":", "$", "int", "[", "]", "{", "}", "@", "str"}
