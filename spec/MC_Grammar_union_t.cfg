SPECIFICATION Spec
INVARIANT Inv
CHECK_DEADLOCK FALSE
CONSTANTS
  MaxLen = 6
  Prefix <- PUnion
  Suffix <- PNone
  Alphabet = {"=", "|", "n1", "@", "(", ")", ":", "int", "type"}
