SPECIFICATION GSpec
CONSTANTS
  Start = "Document"
  NamePool <- SmallNames
  MaxOut = 5
  MaxForm = 12
INVARIANT GeneratedIsMember
CHECK_DEADLOCK FALSE
