------------------------------ MODULE ExecRules ------------------------------
(***************************************************************************)
(* Validation rules for executable documents (October 2021, section 5) as  *)
(* predicates over an abstract schema and an abstract document — C17 —,    *)
(* the subset that does not mention the schema (StandaloneRules) — C20 —   *)
(* and the typing of selections — C18.                                     *)
(*                                                                         *)
(* document = [operations: seq of [kind, name ("" = anonymous), vars,      *)
(*               dirs, sels], fragments: seq of [name, on, dirs, sels]]    *)
(*   var = [name, type, default (<<"none">> or a value), dirs]             *)
(*   sel = [k: "field" | "spread" | "inline", alias, name, on, args,       *)
(*          dirs, sels]       (unused components are "" / <<>>)            *)
(*   arg = [name, value];  value = <<kind, ...>>: "int" "float" "str"      *)
(*     "bool" "null" <<"enum", n>> <<"var", n>> <<"list", seq>>            *)
(*     <<"obj", seq of arg>>;  dirs: seq of [name, args]                   *)
(* The schema is the abstract schema of SchemaRules (valid, by C14).       *)
(*                                                                         *)
(* apollo-compiler's documented differences (named):                       *)
(*   Apollo_UndefinedRootTypeRejected — an operation whose root type is    *)
(*   not defined is rejected (the spec says nothing);                      *)
(*   Apollo_SubscriptionSkipInclude — no @skip / @include on a            *)
(*   subscription's root selections; Apollo_DeferRules — labels, root and  *)
(*   unconditional @defer (validation/operation.rs validate_defer).        *)
(***************************************************************************)
EXTENDS Naturals, Sequences, FiniteSets

CONSTANT S      \* the schema (abstract, see SchemaRules)
SR == INSTANCE SchemaRules WITH CheckDeprecatedOnRequired <- TRUE
TC == INSTANCE TypeCompat

Range(s) == {s[k] : k \in 1..Len(s)}
Names(s) == [k \in 1..Len(s) |-> s[k].name]
NoDup(s) == \A i, j \in 1..Len(s) : i # j => s[i] # s[j]
KindOf(n) == SR!KindOf(S, n)
IsComposite(n) == KindOf(n) \in {"object", "interface", "union"}
RECURSIVE NamedOfT(_)
NamedOfT(t) == IF t[1] = "named" THEN t[2] ELSE NamedOfT(t[2])

RootType(kind) ==
  LET r == S.schemaDef.roots IN
    IF S.schemaDef.explicit THEN r[kind]
    ELSE LET d == CASE kind = "query" -> "Query" [] kind = "mutation" -> "Mutation" [] OTHER -> "Subscription"
         IN IF KindOf(d) = "object" THEN d ELSE ""

\* ---- field definitions (C18: typing) ---------------------------------------------------------
TypenameDef == [name |-> "__typename", type |-> <<"nonnull", <<"named", "String">>>>, args |-> <<>>, dirs |-> <<>>]
SchemaDef == [name |-> "__schema", type |-> <<"nonnull", <<"named", "__Schema">>>>, args |-> <<>>, dirs |-> <<>>]
TypeDef == [name |-> "__type", type |-> <<"named", "__Type">>,
            args |-> <<[name |-> "name", type |-> <<"nonnull", <<"named", "String">>>>, default |-> "none", dirs |-> <<>>]>>, dirs |-> <<>>]
NoField == [name |-> "", type |-> <<"named", "">>, args |-> <<>>, dirs |-> <<>>]

FieldsOf(n) == IF n \in SR!TypeNames(S) /\ KindOf(n) \in {"object", "interface"} THEN SR!TypeOf(S, n).fields ELSE <<>>
FieldDefOf(parent, name) ==
  IF name = "__typename" /\ IsComposite(parent) THEN TypenameDef
  ELSE IF name = "__schema" /\ parent = RootType("query") /\ parent # "" THEN SchemaDef
  ELSE IF name = "__type" /\ parent = RootType("query") /\ parent # "" THEN TypeDef
  ELSE IF name \in Range(Names(FieldsOf(parent))) THEN FieldsOf(parent)[CHOOSE k \in 1..Len(FieldsOf(parent)) : FieldsOf(parent)[k].name = name]
  ELSE NoField

FragByName(doc, n) == doc.fragments[CHOOSE k \in 1..Len(doc.fragments) : doc.fragments[k].name = n]
HasFrag(doc, n) == n \in Range(Names(doc.fragments))

ResponseKey(sel) == IF sel.alias # "" THEN sel.alias ELSE sel.name

\* possible runtime object types of a type (GetPossibleTypes)
Possible(n) ==
  CASE KindOf(n) = "object" -> {n}
    [] KindOf(n) = "interface" -> {t \in SR!TypeNames(S) : KindOf(t) = "object" /\ n \in Range(SR!TypeOf(S, t).ifaces)}
    [] KindOf(n) = "union" -> Range(SR!TypeOf(S, n).members)
    [] OTHER -> {}

\* ---- values ------------------------------------------------------------------------------------
InputFields(n) == IF n \in SR!TypeNames(S) /\ KindOf(n) = "input" THEN SR!TypeOf(S, n).inputFields ELSE <<>>

\* varDefs: the variable definitions in scope (a sequence) or <<"any">> when unknown (inside a fragment checked alone)
VarDefOf(vars, n) == vars[CHOOSE k \in 1..Len(vars) : vars[k].name = n]

RECURSIVE ValueOK(_, _, _, _)
\* literal `v` is acceptable where type `t` is expected; locDefault: the location has a default value
ValueOK(t, v, vars, locDefault) ==
  IF v[1] = "var" THEN
       IF v[2] \notin Range(Names(vars)) THEN TRUE      \* undefined variables are reported by another rule
       ELSE LET d == VarDefOf(vars, v[2])
                vd == IF d.default = <<"none">> THEN "none" ELSE IF d.default = <<"null">> THEN "null" ELSE "value"
            IN TC!IsVariableUsageAllowed(d.type, vd, t, locDefault)
  ELSE IF v[1] = "null" THEN t[1] # "nonnull"
  ELSE IF t[1] = "nonnull" THEN ValueOK(t[2], v, vars, FALSE)
  ELSE IF t[1] = "list" THEN
       (IF v[1] = "list" THEN \A k \in 1..Len(v[2]) : ValueOK(t[2], v[2][k], vars, FALSE)
        ELSE ValueOK(t[2], v, vars, FALSE))                        \* a single value is coerced to a list of one
  ELSE IF v[1] = "list" THEN FALSE
  ELSE LET n == t[2] k == KindOf(n) IN
       CASE n = "Int" -> v[1] = "int"
         [] n = "Float" -> v[1] \in {"int", "float"}
         [] n = "String" -> v[1] = "str"
         [] n = "Boolean" -> v[1] = "bool"
         [] n = "ID" -> v[1] \in {"int", "str"}
         [] k = "scalar" -> TRUE
         [] k = "enum" -> v[1] = "enum" /\ v[2] \in Range(Names(SR!TypeOf(S, n).values))
         [] k = "input" ->
              /\ v[1] = "obj"
              /\ NoDup(Names(v[2]))                                                   \* Input Object Field Uniqueness
              /\ \A j \in 1..Len(v[2]) : v[2][j].name \in Range(Names(InputFields(n)))   \* Input Object Field Names
              /\ \A j \in 1..Len(v[2]) :
                   LET f == InputFields(n)[CHOOSE m \in 1..Len(InputFields(n)) : InputFields(n)[m].name = v[2][j].name]
                   IN ValueOK(f.type, v[2][j].value, vars, f.default # "none")
              /\ \A m \in 1..Len(InputFields(n)) :                                      \* Input Object Required Fields
                   (InputFields(n)[m].type[1] = "nonnull" /\ InputFields(n)[m].default = "none")
                     => \E j \in 1..Len(v[2]) : v[2][j].name = InputFields(n)[m].name
         [] OTHER -> FALSE

\* arguments of a field or directive against its definitions `defs` (seq of ivd)
ArgsOK(args, defs, vars) ==
  /\ NoDup(Names(args))                                                      \* Argument Uniqueness
  /\ \A j \in 1..Len(args) :
       /\ args[j].name \in Range(Names(defs))                                \* Argument Names
       /\ LET d == defs[CHOOSE m \in 1..Len(defs) : defs[m].name = args[j].name]
          IN ValueOK(d.type, args[j].value, vars, d.default # "none")        \* Values of Correct Type / variable usage
  /\ \A m \in 1..Len(defs) :                                                 \* Required Arguments
       (defs[m].type[1] = "nonnull" /\ defs[m].default = "none")
          => \E j \in 1..Len(args) : args[j].name = defs[m].name /\ args[j].value # <<"null">>

DirsOK(dirs, location, vars) ==
  /\ \A k \in 1..Len(dirs) :
       /\ SR!HasDirective(S, dirs[k].name)                                   \* Directives Are Defined
       /\ LET d == SR!DirectiveDef(S, dirs[k].name) IN
          /\ location \in Range(d.locations)                                 \* Directives Are In Valid Locations
          /\ ArgsOK(dirs[k].args, d.args, vars)
  /\ \A i, j \in 1..Len(dirs) :                                              \* Directives Are Unique Per Location
       (i # j /\ dirs[i].name = dirs[j].name /\ SR!HasDirective(S, dirs[i].name)) => SR!DirectiveDef(S, dirs[i].name).repeatable

\* ---- selections on a parent type ---------------------------------------------------------------
RECURSIVE SelsOK(_, _, _, _)
SelsOK(doc, parent, sels, vars) ==
  \A k \in 1..Len(sels) :
    LET s == sels[k] IN
    CASE s.k = "field" ->
           LET d == FieldDefOf(parent, s.name) IN
           /\ d # NoField                                                            \* Field Selections
           /\ ArgsOK(s.args, d.args, vars)
           /\ DirsOK(s.dirs, "FIELD", vars)
           /\ LET n == NamedOfT(d.type) IN
              IF IsComposite(n) THEN Len(s.sels) >= 1 /\ SelsOK(doc, n, s.sels, vars)  \* Leaf Field Selections
              ELSE Len(s.sels) = 0
      [] s.k = "inline" ->
           LET cond == IF s.on = "" THEN parent ELSE s.on IN
           /\ (s.on # "" => IsComposite(s.on))                                         \* Fragments On Composite Types (and exists)
           /\ (Possible(cond) \cap Possible(parent)) # {}                              \* Fragment spread is possible
           /\ DirsOK(s.dirs, "INLINE_FRAGMENT", vars)
           /\ Len(s.sels) >= 1 /\ SelsOK(doc, cond, s.sels, vars)
      [] OTHER ->
           /\ HasFrag(doc, s.name)                                                      \* Fragment spread target defined
           /\ DirsOK(s.dirs, "FRAGMENT_SPREAD", vars)
           /\ (HasFrag(doc, s.name) /\ IsComposite(FragByName(doc, s.name).on))
                => (Possible(FragByName(doc, s.name).on) \cap Possible(parent)) # {}

\* ---- fragment graph ------------------------------------------------------------------------------
RECURSIVE SpreadsIn(_)
SpreadsIn(sels) == UNION {IF sels[k].k = "spread" THEN {sels[k].name} ELSE SpreadsIn(sels[k].sels) : k \in 1..Len(sels)}
FragSpreads(doc, n) == IF HasFrag(doc, n) THEN SpreadsIn(FragByName(doc, n).sels) ELSE {}
RECURSIVE ReachFrags(_, _, _)
ReachFrags(doc, frontier, seen) ==
  LET nxt == UNION {FragSpreads(doc, n) : n \in frontier} \ seen IN IF nxt = {} THEN seen ELSE ReachFrags(doc, nxt, seen \cup nxt)
FragsOfOp(doc, op) == LET d == SpreadsIn(op.sels) IN ReachFrags(doc, d, d)
NoFragmentCycles(doc) == \A k \in 1..Len(doc.fragments) :
   doc.fragments[k].name \notin ReachFrags(doc, FragSpreads(doc, doc.fragments[k].name), FragSpreads(doc, doc.fragments[k].name))
AllFragmentsUsed(doc) == \A k \in 1..Len(doc.fragments) : \E o \in 1..Len(doc.operations) : doc.fragments[k].name \in FragsOfOp(doc, doc.operations[o])

\* ---- variables --------------------------------------------------------------------------------------
RECURSIVE VarsInValue(_)
VarsInValue(v) == CASE v[1] = "var" -> {v[2]}
                    [] v[1] = "list" -> UNION {VarsInValue(v[2][k]) : k \in 1..Len(v[2])}
                    [] v[1] = "obj" -> UNION {VarsInValue(v[2][k].value) : k \in 1..Len(v[2])}
                    [] OTHER -> {}
VarsInArgs(args) == UNION {VarsInValue(args[k].value) : k \in 1..Len(args)}
VarsInDirs(dirs) == UNION {VarsInArgs(dirs[k].args) : k \in 1..Len(dirs)}
RECURSIVE VarsInSels(_)
VarsInSels(sels) == UNION {VarsInArgs(sels[k].args) \cup VarsInDirs(sels[k].dirs) \cup VarsInSels(sels[k].sels) : k \in 1..Len(sels)}
VarsUsedByOp(doc, op) ==
  VarsInSels(op.sels) \cup VarsInDirs(op.dirs)
  \cup UNION {VarsInSels(FragByName(doc, f).sels) \cup VarsInDirs(FragByName(doc, f).dirs) : f \in {g \in FragsOfOp(doc, op) : HasFrag(doc, g)}}

\* ---- field merging (FieldsInSetCanMerge, the specification's pairwise definition) ----------------------
RECURSIVE FieldsIn(_, _, _, _)
\* all fields of a selection set with fragments expanded, as <<parentType, sel>>; `visited` guards against cycles
FieldsIn(doc, parent, sels, visited) ==
  UNION {LET s == sels[k] IN
         CASE s.k = "field" -> {<<parent, s>>}
           [] s.k = "inline" -> FieldsIn(doc, IF s.on = "" THEN parent ELSE s.on, s.sels, visited)
           [] OTHER -> IF HasFrag(doc, s.name) /\ s.name \notin visited
                       THEN FieldsIn(doc, FragByName(doc, s.name).on, FragByName(doc, s.name).sels, visited \cup {s.name}) ELSE {}
         : k \in 1..Len(sels)}

RECURSIVE SameShape(_, _, _, _)
RECURSIVE ShapeOfTypes(_, _)
\* unwrap list / non-null in parallel: TRUE iff the wrappers coincide and the named types are shape-compatible
ShapeOfTypes(a, b) ==
  IF a[1] = "nonnull" \/ b[1] = "nonnull"
  THEN (a[1] = "nonnull" /\ b[1] = "nonnull" /\ ShapeOfTypes(a[2], b[2]))
  ELSE IF a[1] = "list" \/ b[1] = "list"
  THEN (a[1] = "list" /\ b[1] = "list" /\ ShapeOfTypes(a[2], b[2]))
  ELSE IF IsComposite(a[2]) /\ IsComposite(b[2]) THEN TRUE
  ELSE IF IsComposite(a[2]) \/ IsComposite(b[2]) THEN FALSE
  ELSE a[2] = b[2]

SubFields(doc, pf) ==    \* the fields of pf's sub-selection, typed by pf's field type
  LET d == FieldDefOf(pf[1], pf[2].name) IN IF d = NoField THEN {} ELSE FieldsIn(doc, NamedOfT(d.type), pf[2].sels, {})

SameShape(doc, fa, fb, fuel) ==
  LET da == FieldDefOf(fa[1], fa[2].name) db == FieldDefOf(fb[1], fb[2].name) IN
  IF da = NoField \/ db = NoField THEN TRUE          \* unknown fields are reported elsewhere
  ELSE /\ ShapeOfTypes(da.type, db.type)
       /\ (fuel > 0 /\ IsComposite(NamedOfT(da.type)) /\ IsComposite(NamedOfT(db.type))) =>
            LET merged == SubFields(doc, fa) \cup SubFields(doc, fb) IN
              \A x \in merged, y \in merged : ResponseKey(x[2]) = ResponseKey(y[2]) => SameShape(doc, x, y, fuel - 1)

ArgBag(args) == {<<args[k].name, args[k].value>> : k \in 1..Len(args)}
RECURSIVE CanMerge(_, _, _)
CanMerge(doc, fields, fuel) ==
  \A x \in fields, y \in fields :
    (ResponseKey(x[2]) = ResponseKey(y[2])) =>
      /\ SameShape(doc, x, y, 3)
      /\ (x[1] = y[1] \/ KindOf(x[1]) # "object" \/ KindOf(y[1]) # "object") =>
           /\ x[2].name = y[2].name
           /\ ArgBag(x[2].args) = ArgBag(y[2].args) /\ Len(x[2].args) = Len(y[2].args)
           /\ (fuel > 0) => CanMerge(doc, SubFields(doc, x) \cup SubFields(doc, y), fuel - 1)

\* apollo-compiler's own rule (named in the property): a subscription's root selections (through inline fragments
\* and fragment spreads) may not carry @skip / @include
Apollo_SubscriptionSkipInclude == TRUE
RECURSIVE RootConditional(_, _, _)
RootConditional(doc, sels, fuel) ==
  \E k \in 1..Len(sels) : LET s == sels[k] IN
     \/ \E j \in 1..Len(s.dirs) : s.dirs[j].name \in {"skip", "include"}
     \/ (s.k = "inline" /\ RootConditional(doc, s.sels, fuel))
     \/ (s.k = "spread" /\ fuel > 0 /\ HasFrag(doc, s.name) /\ RootConditional(doc, FragByName(doc, s.name).sels, fuel - 1))

\* apollo-compiler's own @defer rules (named in the property; validation/operation.rs validate_defer). They are applied
\* whenever a directive NAMED `defer` is used, with or without a schema.
DirArg(d, n) == IF \E j \in 1..Len(d.args) : d.args[j].name = n
                THEN d.args[CHOOSE j \in 1..Len(d.args) : d.args[j].name = n].value ELSE <<"absent">>
Defers(dirs) == SelectSeq(dirs, LAMBDA d : d.name = "defer")
RECURSIVE DeferLabels(_)
\* label values of every @defer in a selection set (fields and inline fragments are entered, spreads are not followed)
DeferLabels(sels) ==
  IF sels = <<>> THEN <<>>
  ELSE LET s == Head(sels)
           own == [k \in 1..Len(Defers(s.dirs)) |-> DirArg(Defers(s.dirs)[k], "label")]
       IN own \o (IF s.k = "spread" THEN <<>> ELSE DeferLabels(s.sels)) \o DeferLabels(Tail(sels))
RECURSIVE Concat2(_)
Concat2(ss) == IF ss = <<>> THEN <<>> ELSE Head(ss) \o Concat2(Tail(ss))
AllDeferLabels(doc) == Concat2([k \in 1..Len(doc.operations) |-> DeferLabels(doc.operations[k].sels)])
                       \o Concat2([k \in 1..Len(doc.fragments) |-> DeferLabels(doc.fragments[k].sels)])
DeferLabelsOK(doc) ==
  LET ls == AllDeferLabels(doc) IN
    /\ \A k \in 1..Len(ls) : ls[k][1] # "var"                                   \* a label is not a variable
    /\ NoDup(SelectSeq(ls, LAMBDA v : v[1] = "str"))                            \* labels are unique in the document
RECURSIVE RootDefer(_, _, _)
\* @defer on a root-level inline fragment or spread (through fragments), forbidden for mutations and subscriptions
RootDefer(doc, sels, fuel) ==
  \E k \in 1..Len(sels) : LET s == sels[k] IN
     \/ (s.k # "field" /\ Defers(s.dirs) # <<>>)
     \/ (s.k = "inline" /\ RootDefer(doc, s.sels, fuel))
     \/ (s.k = "spread" /\ fuel > 0 /\ HasFrag(doc, s.name) /\ RootDefer(doc, FragByName(doc, s.name).sels, fuel - 1))
MayBeExcluded(dirs) ==
  \E k \in 1..Len(dirs) :
     \/ (dirs[k].name = "skip" /\ DirArg(dirs[k], "if") # <<"bool", FALSE>>)
     \/ (dirs[k].name = "include" /\ DirArg(dirs[k], "if") # <<"bool", TRUE>>)
CanBeDisabled(d) == DirArg(d, "if") = <<"bool", FALSE>> \/ DirArg(d, "if")[1] = "var"
RECURSIVE UnconditionalDefer(_, _, _)
\* in a subscription every @defer that cannot be excluded must be disable-able (`if: false` or a variable)
UnconditionalDefer(doc, sels, fuel) ==
  \E k \in 1..Len(sels) : LET s == sels[k] IN
     /\ ~MayBeExcluded(s.dirs)
     /\ \/ \E j \in 1..Len(Defers(s.dirs)) : ~CanBeDisabled(Defers(s.dirs)[j])
        \/ (s.k # "spread" /\ UnconditionalDefer(doc, s.sels, fuel))
        \/ (s.k = "spread" /\ fuel > 0 /\ HasFrag(doc, s.name) /\ UnconditionalDefer(doc, FragByName(doc, s.name).sels, fuel - 1))
Apollo_DeferRules == TRUE
DeferOK(doc) ==
  Apollo_DeferRules =>
    /\ DeferLabelsOK(doc)
    /\ \A k \in 1..Len(doc.operations) : LET op == doc.operations[k] IN
         /\ (op.kind # "query") => ~RootDefer(doc, op.sels, 4)
         /\ (op.kind = "subscription") => ~UnconditionalDefer(doc, op.sels, 4)

\* ---- operations -------------------------------------------------------------------------------------------
LocationOfOp(kind) == CASE kind = "query" -> "QUERY" [] kind = "mutation" -> "MUTATION" [] OTHER -> "SUBSCRIPTION"

OperationOK(doc, op) ==
  LET root == RootType(op.kind) IN
  /\ root # ""                                                             \* Apollo_UndefinedRootTypeRejected
  /\ NoDup(Names(op.vars))                                                 \* Variable Uniqueness
  /\ \A k \in 1..Len(op.vars) :
       /\ SR!IsInputType(S, op.vars[k].type)                               \* Variables Are Input Types
       /\ (op.vars[k].default # <<"none">> => ValueOK(op.vars[k].type, op.vars[k].default, <<>>, FALSE) /\ VarsInValue(op.vars[k].default) = {})
       /\ DirsOK(op.vars[k].dirs, "VARIABLE_DEFINITION", <<>>)
  /\ DirsOK(op.dirs, LocationOfOp(op.kind), op.vars)
  /\ Len(op.sels) >= 1 /\ SelsOK(doc, root, op.sels, op.vars)
  /\ VarsUsedByOp(doc, op) \subseteq Range(Names(op.vars))                 \* All Variable Uses Defined
  /\ Range(Names(op.vars)) \subseteq VarsUsedByOp(doc, op)                 \* All Variables Used
  \* fragments reached from this operation are checked with this operation's variables
  /\ \A f \in {g \in FragsOfOp(doc, op) : HasFrag(doc, g)} :
       LET fr == FragByName(doc, f) IN
         IsComposite(fr.on) => (SelsOK(doc, fr.on, fr.sels, op.vars) /\ DirsOK(fr.dirs, "FRAGMENT_DEFINITION", op.vars))
  /\ CanMerge(doc, FieldsIn(doc, root, op.sels, {}), 3)                    \* Field Selection Merging
  /\ (op.kind = "subscription" /\ Apollo_SubscriptionSkipInclude) => ~RootConditional(doc, op.sels, 4)
  /\ (op.kind = "subscription") =>                                         \* Single Root Field (by response key, after collection)
        /\ Cardinality({ResponseKey(pf[2]) : pf \in FieldsIn(doc, root, op.sels, {})}) = 1
        /\ \A pf \in FieldsIn(doc, root, op.sels, {}) : pf[2].name \notin {"__schema", "__type", "__typename"}

\* rules that do not mention the schema (C20)
DirArgsUnique(dirs) == \A k \in 1..Len(dirs) : NoDup(Names(dirs[k].args))
RECURSIVE SelsArgsUnique(_)
SelsArgsUnique(sels) ==
  \A k \in 1..Len(sels) : DirArgsUnique(sels[k].dirs) /\ NoDup(Names(sels[k].args)) /\ SelsArgsUnique(sels[k].sels)
StandaloneValid(doc) ==
  /\ DeferOK(doc)                                                                                  \* apollo's @defer rules need no schema
  /\ \A k \in 1..Len(doc.operations) :                                                             \* Argument Uniqueness
       /\ DirArgsUnique(doc.operations[k].dirs) /\ SelsArgsUnique(doc.operations[k].sels)
       /\ \A j \in 1..Len(doc.operations[k].vars) : DirArgsUnique(doc.operations[k].vars[j].dirs)
  /\ \A k \in 1..Len(doc.fragments) : DirArgsUnique(doc.fragments[k].dirs) /\ SelsArgsUnique(doc.fragments[k].sels)
  /\ Len(doc.operations) >= 1
  /\ NoDup(SelectSeq(Names(doc.operations), LAMBDA n : n # ""))                                  \* Operation Name Uniqueness
  /\ (\E k \in 1..Len(doc.operations) : doc.operations[k].name = "") => Len(doc.operations) = 1    \* Lone Anonymous Operation
  /\ NoDup(Names(doc.fragments))                                                                   \* Fragment Name Uniqueness
  /\ \A k \in 1..Len(doc.operations) : SpreadsIn(doc.operations[k].sels) \subseteq Range(Names(doc.fragments))
  /\ \A k \in 1..Len(doc.fragments) : SpreadsIn(doc.fragments[k].sels) \subseteq Range(Names(doc.fragments))   \* spread targets defined
  /\ NoFragmentCycles(doc)
  /\ AllFragmentsUsed(doc)
  /\ \A k \in 1..Len(doc.operations) :
       LET op == doc.operations[k] IN
       /\ NoDup(Names(op.vars))
       /\ VarsUsedByOp(doc, op) \subseteq Range(Names(op.vars))
       /\ Range(Names(op.vars)) \subseteq VarsUsedByOp(doc, op)

\* ---- C18: what a valid document guarantees, and what the field iterators visit ----------------------------
RECURSIVE LeafRule(_, _)
LeafRule(parent, sels) ==      \* composite fields have sub-selections, leaf fields have none
  \A k \in 1..Len(sels) : LET s == sels[k] IN
    CASE s.k = "field" -> LET d == FieldDefOf(parent, s.name) IN
                            d # NoField /\ (IsComposite(NamedOfT(d.type)) <=> Len(s.sels) >= 1) /\ LeafRule(NamedOfT(d.type), s.sels)
      [] s.k = "inline" -> LeafRule(IF s.on = "" THEN parent ELSE s.on, s.sels)
      [] OTHER -> TRUE
ValidGuarantees(doc) ==
  /\ \A k \in 1..Len(doc.operations) : SpreadsIn(doc.operations[k].sels) \subseteq Range(Names(doc.fragments))
  /\ \A k \in 1..Len(doc.fragments) : SpreadsIn(doc.fragments[k].sels) \subseteq Range(Names(doc.fragments))
  /\ NoFragmentCycles(doc)
  /\ \A k \in 1..Len(doc.operations) : VarsUsedByOp(doc, doc.operations[k]) \subseteq Range(Names(doc.operations[k].vars))
  /\ \A k \in 1..Len(doc.operations) : LeafRule(RootType(doc.operations[k].kind), doc.operations[k].sels)
  /\ \A k \in 1..Len(doc.fragments) : LeafRule(doc.fragments[k].on, doc.fragments[k].sels)

\* the fields the document BUILT against the schema keeps (executable/from_ast.rs): a field is dropped, with its
\* sub-selections, when its parent type has no such field or when a leaf field has sub-selections; an inline fragment
\* whose type condition is undefined is dropped; operations: the first of each name (an anonymous one only if it comes
\* first) with a defined root type; fragments: the first of each name with a defined type condition
RECURSIVE BuiltFields(_, _)
BuiltFields(parent, sels) ==
  IF sels = <<>> THEN <<>>
  ELSE LET s == Head(sels) IN
       (CASE s.k = "field" ->
               LET d == FieldDefOf(parent, s.name) IN
               IF d = NoField THEN <<>>
               ELSE IF ~IsComposite(NamedOfT(d.type)) /\ Len(s.sels) >= 1 THEN <<>>
               ELSE << <<parent, s.name>> >> \o BuiltFields(NamedOfT(d.type), s.sels)
          [] s.k = "inline" -> IF s.on # "" /\ ~SR!HasType(S, s.on) THEN <<>>
                               ELSE BuiltFields(IF s.on = "" THEN parent ELSE s.on, s.sels)
          [] OTHER -> <<>>) \o BuiltFields(parent, Tail(sels))
KeptOp(doc, k) ==
  LET op == doc.operations[k] IN
    /\ RootType(op.kind) # ""
    /\ IF op.name = "" THEN k = 1 ELSE \A j \in 1..(k - 1) : doc.operations[j].name # op.name
KeptFrag(doc, k) == /\ SR!HasType(S, doc.fragments[k].on)
                    /\ \A j \in 1..(k - 1) : doc.fragments[j].name # doc.fragments[k].name \/ ~SR!HasType(S, doc.fragments[j].on)
RECURSIVE ConcatSeqs(_)
ConcatSeqs(ss) == IF ss = <<>> THEN <<>> ELSE Head(ss) \o ConcatSeqs(Tail(ss))
AllBuiltFields(doc) ==
  ConcatSeqs([k \in 1..Len(doc.operations) |-> IF KeptOp(doc, k) THEN BuiltFields(RootType(doc.operations[k].kind), doc.operations[k].sels) ELSE <<>>])
  \o ConcatSeqs([k \in 1..Len(doc.fragments) |-> IF KeptFrag(doc, k) THEN BuiltFields(doc.fragments[k].on, doc.fragments[k].sels) ELSE <<>>])

RECURSIVE WalkSels(_, _, _, _)
\* <<fields visited (sequence of <<alias, name>>), fragments seen>>; deep = also field sub-selections
WalkSels(doc, sels, seen, deep) ==
  IF sels = <<>> THEN << <<>>, seen >>
  ELSE LET s == Head(sels)
           r == CASE s.k = "field" ->
                       IF deep THEN LET sub == WalkSels(doc, s.sels, seen, deep) IN << << <<s.alias, s.name>> >> \o sub[1], sub[2] >>
                       ELSE << << <<s.alias, s.name>> >>, seen >>
                  [] s.k = "inline" -> WalkSels(doc, s.sels, seen, deep)
                  [] OTHER -> IF s.name \in seen \/ ~HasFrag(doc, s.name) THEN << <<>>, seen >>
                              ELSE WalkSels(doc, FragByName(doc, s.name).sels, seen \cup {s.name}, deep)
           rest == WalkSels(doc, Tail(sels), r[2], deep)
       IN << r[1] \o rest[1], rest[2] >>
Walk(doc, sels, deep) == WalkSels(doc, sels, {}, deep)[1]

Valid(doc) ==
  /\ StandaloneValid(doc)
  /\ \A k \in 1..Len(doc.fragments) :
       /\ IsComposite(doc.fragments[k].on)                                    \* Fragment Spread Type Existence / On Composite Types
  /\ \A k \in 1..Len(doc.operations) : OperationOK(doc, doc.operations[k])
=============================================================================
