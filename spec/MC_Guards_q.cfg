SPECIFICATION Spec
INVARIANT Inv
CHECK_DEADLOCK FALSE
CONSTANTS
  Nodes = {1, 2, 3}
  Limit = 2
