---------------------------- MODULE ParserCore ----------------------------
(***************************************************************************)
(* The apollo-parser `Parser` object as a state machine over its primitive *)
(* operations (crates/apollo-parser/src/parser/mod.rs).  The grammar       *)
(* functions are the environment that invokes the primitives.              *)
(*                                                                         *)
(* An action's enabling condition is exactly the condition whose violation *)
(* is a panic in the code or a violation of a listed property:             *)
(*   C01  Pop needs a token; FinishNode needs an open node; Done needs one *)
(*        root and an empty stack; Dec needs current > 0; Top needs a      *)
(*        balanced recursion counter; Crash is never enabled.              *)
(*   C02  Tok/Flush attach text only at offset emittedEnd (every byte once *)
(*        and in order); Done (document, no token limit) needs everything  *)
(*        lexed to be attached and nothing held back.                      *)
(*   C04  the limit trackers follow Limits; no error is recorded after a   *)
(*        limit error; at most tokLimit lexer items are consumed.          *)
(*   C07  Done for the standalone entry points with no error needs the     *)
(*        whole input consumed (look-ahead is Eof).                        *)
(***************************************************************************)
EXTENDS Naturals, Sequences, FiniteSets

INF == 1000000000        \* "no limit"
None == <<>>             \* absent look-ahead token

\* Token kinds as logged by the hook (TokenKind as u16)
KWhitespace == 0
KComment    == 1
KComma      == 6
KEof        == 17
IsIgnoredTok(k) == k \in {KWhitespace, KComment, KComma}

VARIABLES
  phase,       \* "idle" | "run" | "done"
  entry,       \* "Document" | "FieldSet" | "Type"
  inputLen, tokLimit, recLimit,
  lexedEnd,    \* byte offset up to which the lexer has produced items
  lexDone,     \* "no" | "eof" | "limit"
  cur,         \* look-ahead token <<index, len, kind>> or None
  popping,     \* pop() was called with no look-ahead: the next lexed token goes to `held`
  pending,     \* FIFO of <<index, len, isError>> waiting to be attached
  held,        \* tokens popped but not yet attached, <<index, len, kind>>
  emittedEnd,  \* byte offset up to which text has been attached to the tree
  depth,       \* number of open nodes
  roots,       \* completed nodes at depth 0
  ckpts,       \* set of <<depth, roots>> checkpoints still valid
  errs,        \* number of recorded errors
  accept,      \* accept_errors latch
  limitErrs,   \* number of limit errors recorded
  rec,         \* recursion tracker [cur, high, pendingInternal]
  tokCount,    \* lexer items consumed (calls of Lexer::next that produced an item)
  tokHigh      \* the token tracker's high-water mark

pvars == <<phase, entry, inputLen, tokLimit, recLimit, lexedEnd, lexDone, cur, popping, pending,
           held, emittedEnd, depth, roots, ckpts, errs, accept, limitErrs, rec, tokCount, tokHigh>>

Max(a, b) == IF a >= b THEN a ELSE b

PInit ==
  /\ phase = "idle" /\ entry = "Document" /\ inputLen = 0 /\ tokLimit = INF /\ recLimit = INF
  /\ lexedEnd = 0 /\ lexDone = "no" /\ cur = None /\ popping = FALSE /\ pending = <<>>
  /\ held = <<>> /\ emittedEnd = 0 /\ depth = 0 /\ roots = 0 /\ ckpts = {} /\ errs = 0
  /\ accept = TRUE /\ limitErrs = 0 /\ rec = [cur |-> 0, high |-> 0, internal |-> FALSE]
  /\ tokCount = 0 /\ tokHigh = 0

Reset(e, tl, rl, n) ==
  /\ phase \in {"idle", "done"}          \* ("done" also after a rejected segment, see Trace_ParserCore)
  /\ phase' = "run" /\ entry' = e /\ inputLen' = n /\ tokLimit' = tl /\ recLimit' = rl
  /\ lexedEnd' = 0 /\ lexDone' = "no" /\ cur' = None /\ popping' = FALSE /\ pending' = <<>>
  /\ held' = <<>> /\ emittedEnd' = 0 /\ depth' = 0 /\ roots' = 0 /\ ckpts' = {} /\ errs' = 0
  /\ accept' = TRUE /\ limitErrs' = 0 /\ rec' = [cur |-> 0, high |-> 0, internal |-> FALSE]
  /\ tokCount' = 0 /\ tokHigh' = 0

\* ---- lexer side (Parser::next_token) ------------------------------------
LexTok(kind, index, len) ==
  /\ phase = "run" /\ lexDone = "no" /\ cur = None
  /\ index = lexedEnd                                   \* items are contiguous
  /\ tokCount < tokLimit                                \* C04: at most n items consumed
  /\ (kind = KEof => len = 0 /\ index = inputLen)
  /\ lexedEnd' = index + len
  /\ tokCount' = tokCount + 1 /\ tokHigh' = Max(tokHigh, tokCount + 1)
  /\ lexDone' = IF kind = KEof THEN "eof" ELSE "no"
  /\ IF popping THEN /\ held' = Append(held, <<index, len, kind>>) /\ cur' = None /\ popping' = FALSE
                ELSE /\ cur' = <<index, len, kind>> /\ UNCHANGED <<held, popping>>
  /\ UNCHANGED <<phase, entry, inputLen, tokLimit, recLimit, pending, emittedEnd, depth, roots,
                 ckpts, errs, accept, limitErrs, rec>>

LexErr(len, isLimit) ==
  /\ phase = "run" /\ lexDone = "no" /\ cur = None
  /\ IF isLimit
     THEN /\ tokCount = tokLimit /\ len = 0             \* reported exactly at item n+1
          /\ lexDone' = "limit" /\ accept' = FALSE /\ limitErrs' = limitErrs + 1
          /\ tokHigh' = Max(tokHigh, tokCount + 1)
          /\ UNCHANGED <<tokCount, pending, lexedEnd>>
     ELSE /\ tokCount < tokLimit
          /\ tokCount' = tokCount + 1 /\ tokHigh' = Max(tokHigh, tokCount + 1)
          /\ pending' = IF len > 0 THEN Append(pending, <<lexedEnd, len, TRUE>>) ELSE pending
          /\ lexedEnd' = lexedEnd + len
          /\ UNCHANGED <<lexDone, accept, limitErrs>>
  \* C04: like push_err, a lexical error met after a limit error must not be recorded
  \* (whether it was is observed at Done: nErrors = errs and ~errAfterLimit)
  /\ errs' = IF isLimit \/ accept THEN errs + 1 ELSE errs
  /\ UNCHANGED <<phase, entry, inputLen, tokLimit, recLimit, cur, popping, held, emittedEnd,
                 depth, roots, ckpts, rec>>

\* ---- token movement ------------------------------------------------------
Pop(had) ==
  /\ phase = "run" /\ ~popping
  /\ IF had THEN /\ cur # None /\ held' = Append(held, cur) /\ cur' = None /\ UNCHANGED popping
            ELSE /\ cur = None /\ lexDone = "no"        \* otherwise expect("Could not pop") panics
                 /\ popping' = TRUE /\ UNCHANGED <<held, cur>>
  /\ UNCHANGED <<phase, entry, inputLen, tokLimit, recLimit, lexedEnd, lexDone, pending, emittedEnd,
                 depth, roots, ckpts, errs, accept, limitErrs, rec, tokCount, tokHigh>>

Pend(index, len) ==
  /\ phase = "run" /\ held # <<>>
  /\ LET t == held[Len(held)] IN
       /\ t[1] = index /\ t[2] = len /\ IsIgnoredTok(t[3])
       /\ pending' = Append(pending, <<index, len, FALSE>>)
       /\ held' = SubSeq(held, 1, Len(held) - 1)
  /\ UNCHANGED <<phase, entry, inputLen, tokLimit, recLimit, lexedEnd, lexDone, cur, popping,
                 emittedEnd, depth, roots, ckpts, errs, accept, limitErrs, rec, tokCount, tokHigh>>

Flush(len) ==                       \* an error fragment leaves `pending` for the tree
  /\ phase = "run" /\ pending # <<>>
  /\ LET h == pending[1] IN h[3] /\ h[2] = len /\ h[1] = emittedEnd
  /\ emittedEnd' = emittedEnd + len
  /\ pending' = Tail(pending)
  /\ UNCHANGED <<phase, entry, inputLen, tokLimit, recLimit, lexedEnd, lexDone, cur, popping, held,
                 depth, roots, ckpts, errs, accept, limitErrs, rec, tokCount, tokHigh>>

RemoveAt(s, k) == SubSeq(s, 1, k - 1) \o SubSeq(s, k + 1, Len(s))

Tok(index, len) ==                  \* builder.token(): from `pending` (ignored) or from `held`
  /\ phase = "run"
  /\ index = emittedEnd                                 \* C02: every byte once, in order
  /\ emittedEnd' = index + len
  /\ IF pending # <<>> /\ ~pending[1][3] /\ pending[1][1] = index
     THEN /\ pending[1][2] = len /\ pending' = Tail(pending) /\ UNCHANGED held
     ELSE /\ \E k \in 1..Len(held) : held[k][1] = index /\ held[k][2] = len
          /\ held' = RemoveAt(held, CHOOSE k \in 1..Len(held) : held[k][1] = index)
          /\ UNCHANGED pending
  /\ UNCHANGED <<phase, entry, inputLen, tokLimit, recLimit, lexedEnd, lexDone, cur, popping,
                 depth, roots, ckpts, errs, accept, limitErrs, rec, tokCount, tokHigh>>

\* ---- tree builder --------------------------------------------------------
Start ==
  /\ phase = "run" /\ depth' = depth + 1
  /\ UNCHANGED <<phase, entry, inputLen, tokLimit, recLimit, lexedEnd, lexDone, cur, popping, pending,
                 held, emittedEnd, roots, ckpts, errs, accept, limitErrs, rec, tokCount, tokHigh>>

Finish ==
  /\ phase = "run" /\ depth > 0
  /\ depth' = depth - 1
  /\ roots' = IF depth = 1 THEN roots + 1 ELSE roots
  /\ ckpts' = {c \in ckpts : c[1] <= depth - 1}
  /\ UNCHANGED <<phase, entry, inputLen, tokLimit, recLimit, lexedEnd, lexDone, cur, popping, pending,
                 held, emittedEnd, errs, accept, limitErrs, rec, tokCount, tokHigh>>

Ckpt ==
  /\ phase = "run" /\ ckpts' = ckpts \cup {<<depth, roots>>}
  /\ UNCHANGED <<phase, entry, inputLen, tokLimit, recLimit, lexedEnd, lexDone, cur, popping, pending,
                 held, emittedEnd, depth, roots, errs, accept, limitErrs, rec, tokCount, tokHigh>>

Wrap ==                             \* start_node_at(checkpoint): needs a still-valid checkpoint
  /\ phase = "run"
  /\ \E c \in ckpts : c[1] = depth
  /\ depth' = depth + 1
  /\ roots' = IF depth = 0
              THEN (CHOOSE r \in {c[2] : c \in {d \in ckpts : d[1] = 0}} :
                       \A c \in {d \in ckpts : d[1] = 0} : r <= c[2])
              ELSE roots
  /\ UNCHANGED <<phase, entry, inputLen, tokLimit, recLimit, lexedEnd, lexDone, cur, popping, pending,
                 held, emittedEnd, ckpts, errs, accept, limitErrs, rec, tokCount, tokHigh>>

\* ---- errors and limits ---------------------------------------------------
Err(accepted) ==
  /\ phase = "run" /\ accepted = accept
  /\ errs' = IF accept THEN errs + 1 ELSE errs          \* C04: dropped after a limit error
  /\ UNCHANGED <<phase, entry, inputLen, tokLimit, recLimit, lexedEnd, lexDone, cur, popping, pending,
                 held, emittedEnd, depth, roots, ckpts, accept, limitErrs, rec, tokCount, tokHigh>>

LimitErr ==
  /\ phase = "run" /\ accept' = FALSE /\ limitErrs' = limitErrs + 1
  /\ UNCHANGED <<phase, entry, inputLen, tokLimit, recLimit, lexedEnd, lexDone, cur, popping, pending,
                 held, emittedEnd, depth, roots, ckpts, errs, rec, tokCount, tokHigh>>

\* LimitTracker::check_and_increment on the recursion tracker.  When the limit is reached the
\* code re-balances with an internal decrement, which the hook reports as a Dec just before.
Inc(reached, c, h) ==
  /\ phase = "run"
  /\ LET n == rec.cur + 1 IN
       /\ reached = (n > recLimit)
       /\ h = Max(rec.high, n)
       /\ c = IF reached THEN rec.cur ELSE n
       /\ rec.internal = reached
       /\ rec' = [cur |-> c, high |-> h, internal |-> FALSE]
  /\ UNCHANGED <<phase, entry, inputLen, tokLimit, recLimit, lexedEnd, lexDone, cur, popping, pending,
                 held, emittedEnd, depth, roots, ckpts, errs, accept, limitErrs, tokCount, tokHigh>>

Dec(v) ==
  /\ phase = "run" /\ ~rec.internal
  /\ IF v = rec.cur + 1 /\ v > recLimit
     THEN rec' = [rec EXCEPT !.internal = TRUE]          \* internal re-balancing decrement
     ELSE /\ v = rec.cur /\ v > 0                        \* `current -= 1` must not underflow
          /\ rec' = [rec EXCEPT !.cur = v - 1]
  /\ UNCHANGED <<phase, entry, inputLen, tokLimit, recLimit, lexedEnd, lexDone, cur, popping, pending,
                 held, emittedEnd, depth, roots, ckpts, errs, accept, limitErrs, tokCount, tokHigh>>

Top(c) ==                           \* top of the document loop: assert_eq!(current, 0)
  /\ phase = "run" /\ c = 0 /\ rec.cur = 0 /\ ~rec.internal
  /\ UNCHANGED pvars

(* Done: the three finish_* functions, with observations of the finished tree taken      *)
(* through the public API (o is a record, see harness parse.rs).                         *)
Sel(name, cond) == IF cond THEN {} ELSE {name}

\* names of the conjuncts of Done that fail in the current state (empty = Done is enabled)
DoneFails(o) ==
  UNION {
    Sel("C01-pop-without-token", ~popping),
    Sel("C01-not-exactly-one-root", depth = 0 /\ roots = 1),        \* rowan finish(): exactly one root
    Sel("C02-token-popped-and-dropped", (entry = "Document") => held = <<>>),
    Sel("C01-root-kind", o.rootKindOk),                              \* SyntaxTree::ty() unreachable!()
    Sel("C02-tree-length-differs-from-attached-text", o.treeLen = emittedEnd),
    Sel("C04-tree-text-not-prefix", o.prefixOk),
    Sel("C02-ranges-or-tiling", o.boundsOk),
    Sel("C04-error-count-differs", o.nErrors = errs),               \* an error recorded after a limit error
    Sel("C04-reported-high-water-marks", o.recHigh = rec.high /\ o.tokHigh = tokHigh),
    Sel("C04-error-after-limit", ~o.errAfterLimit),
    Sel("C02-not-lossless", (entry = "Document" /\ tokLimit = INF) =>
            (pending = <<>> /\ emittedEnd = inputLen /\ o.textEq /\ lexDone = "eof")),
    Sel("C04-token-limit-error-iff-longer", (entry = "Document") => ((lexDone = "limit") <=> (o.unlimitedCount > tokLimit))),
    Sel("C07-no-error-but-input-not-consumed",
            (entry # "Document" /\ errs = 0) => (lexDone = "eof" /\ cur # None /\ cur[3] = KEof)),
    Sel("C04-unbalanced-recursion-counter", rec.cur = 0 /\ ~rec.internal)
  }

Done(o) ==
  /\ phase = "run"
  /\ DoneFails(o) = {}
  /\ phase' = "done"
  /\ UNCHANGED <<entry, inputLen, tokLimit, recLimit, lexedEnd, lexDone, cur, popping, pending, held,
                 emittedEnd, depth, roots, ckpts, errs, accept, limitErrs, rec, tokCount, tokHigh>>

\* ---- invariants (hold in every reachable state of any trace the actions accept) ---------
Accounted ==            \* emitted prefix . pending . held . cur . rest  partition the input
  /\ emittedEnd <= lexedEnd /\ lexedEnd <= inputLen
  /\ \A k \in 1..Len(pending) : pending[k][1] >= emittedEnd /\ pending[k][1] + pending[k][2] <= lexedEnd
  /\ \A k \in 1..Len(held) : held[k][1] >= emittedEnd /\ held[k][1] + held[k][2] <= lexedEnd
TrackerOK == rec.cur <= rec.high /\ rec.cur <= recLimit /\ tokCount <= tokLimit /\ tokHigh <= tokLimit + 1
LatchOK == (limitErrs > 0) => ~accept
CoreInv == Accounted /\ TrackerOK /\ LatchOK
=============================================================================
