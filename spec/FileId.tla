------------------------------- MODULE FileId -------------------------------
(***************************************************************************)
(* The process-global file id counter (crates/apollo-compiler/src/         *)
(* parser.rs: NEXT, FileId::new, TaggedFileId) — C31.                      *)
(* A W-bit model of the 64-bit register: TAG is the top bit, ids are the   *)
(* values below it, 1 and 2 are reserved (BUILT_IN, NONE), INITIAL = 3.    *)
(* Every atomic operation on the register is a separate action, so any     *)
(* recorded trace of atomic operations can be validated (Trace_FileId),    *)
(* and the allocation algorithm is a per-thread program over them.         *)
(***************************************************************************)
EXTENDS Naturals, Sequences, FiniteSets

CONSTANTS W,            \* register width in bits
          Threads, Allocs

RECURSIVE Pow(_)
Pow(n) == IF n = 0 THEN 1 ELSE 2 * Pow(n - 1)
TAG == Pow(W - 1)
MOD == Pow(W)
IDMASKED(x) == x % TAG
HasTag(x) == x >= TAG
INITIAL == 3
Reserved == {1, 2}

\* ---- pack / unpack (TaggedFileId) ------------------------------------------
Pack(tag, id) == IF tag THEN id + TAG ELSE id
TagOf(p) == HasTag(p)
IdOf(p) == IDMASKED(p)

VARIABLES reg,        \* the register NEXT
          pc,         \* per thread: "idle" | "got" | "reset" | "done"
          fetched,    \* per thread: value returned by its last fetch_add
          left,       \* per thread: allocations still to do
          returned,   \* sequence of <<thread, id>> in the order they are returned
          wrapped     \* the counter has been reset after reaching TAG
fvars == <<reg, pc, fetched, left, returned, wrapped>>

FInit(r0) ==
  /\ reg = r0 /\ pc = [t \in Threads |-> "idle"] /\ fetched = [t \in Threads |-> 0]
  /\ left = [t \in Threads |-> Allocs] /\ returned = <<>> /\ wrapped = FALSE

\* FileId::new():  loop { id = NEXT.fetch_add(1); if id & TAG == 0 { return id } else { reset() } }
FetchAdd(t) ==
  /\ pc[t] = "idle" /\ left[t] > 0
  /\ fetched' = [fetched EXCEPT ![t] = reg]
  /\ reg' = (reg + 1) % MOD
  /\ pc' = [pc EXCEPT ![t] = "got"]
  /\ UNCHANGED <<left, returned, wrapped>>
Decide(t) ==
  /\ pc[t] = "got"
  /\ IF ~HasTag(fetched[t])
     THEN /\ returned' = Append(returned, <<t, fetched[t]>>)
          /\ left' = [left EXCEPT ![t] = left[t] - 1]
          /\ pc' = [pc EXCEPT ![t] = IF left[t] = 1 THEN "done" ELSE "idle"]
          /\ UNCHANGED wrapped
     ELSE /\ pc' = [pc EXCEPT ![t] = "reset"] /\ UNCHANGED <<returned, left, wrapped>>
  /\ UNCHANGED <<reg, fetched>>
Reset(t) ==
  /\ pc[t] = "reset"
  /\ reg' = INITIAL /\ wrapped' = TRUE
  /\ pc' = [pc EXCEPT ![t] = "idle"]
  /\ UNCHANGED <<fetched, left, returned>>

FNext == \E t \in Threads : FetchAdd(t) \/ Decide(t) \/ Reset(t)

\* The refactoring the property warns about: fetch_add replaced by a load followed by a store.
LoadThenStore_Load(t) ==
  /\ pc[t] = "idle" /\ left[t] > 0
  /\ fetched' = [fetched EXCEPT ![t] = reg] /\ pc' = [pc EXCEPT ![t] = "loaded"]
  /\ UNCHANGED <<reg, left, returned, wrapped>>
LoadThenStore_Store(t) ==
  /\ pc[t] = "loaded"
  /\ reg' = (fetched[t] + 1) % MOD /\ pc' = [pc EXCEPT ![t] = "got"]
  /\ UNCHANGED <<fetched, left, returned, wrapped>>
BrokenNext == \E t \in Threads : LoadThenStore_Load(t) \/ LoadThenStore_Store(t) \/ Decide(t) \/ Reset(t)

\* ---- properties ---------------------------------------------------------------
Ids == [k \in 1..Len(returned) |-> returned[k][2]]
Unique == ~wrapped => \A i, j \in 1..Len(returned) : i # j => returned[i][2] # returned[j][2]
NotReserved == \A k \in 1..Len(returned) : returned[k][2] \notin Reserved /\ ~HasTag(returned[k][2]) /\ returned[k][2] # 0
PackUnpack == \A id \in 1..(TAG - 1) : \A tag \in BOOLEAN : IdOf(Pack(tag, id)) = id /\ TagOf(Pack(tag, id)) = tag
=============================================================================
