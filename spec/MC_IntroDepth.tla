---------------------------- MODULE MC_IntroDepth ----------------------------
(* All operations built from at most two chains (unary nestings) per forest,    *)
(* with two fragments f1 (may spread f2) and f2.  Each initial state is one     *)
(* operation.                                                                  *)
EXTENDS IntroDepth, TLC, Json
CONSTANTS OpLen, F1Len, F2Len

RECURSIVE ChainsUpTo(_, _)
\* all sequences of kinds of length <= n
ChainsUpTo(kinds, n) == IF n = 0 THEN {<<>>} ELSE ChainsUpTo(kinds, n - 1) \cup {Append(c, k) : c \in ChainsUpTo(kinds, n - 1), k \in kinds}

RECURSIVE Nest(_, _)
\* a chain of kinds ending with `tail` (a forest) as a forest of one selection
Nest(chain, tail) == IF chain = <<>> THEN tail ELSE <<<<Head(chain), Nest(Tail(chain), tail)>>>>

Ends(fs) == {<<>>} \cup {<<<<"spread", f>>>> : f \in fs}
OpChains == {Nest(c, e) : c \in ChainsUpTo({"list", "plain", "inline"}, OpLen), e \in Ends({"f1", "f2"})}
F1Chains == {Nest(c, e) : c \in ChainsUpTo({"list", "plain"}, F1Len), e \in Ends({"f2"})}
F2Chains == {Nest(c, <<>>) : c \in ChainsUpTo({"list"}, F2Len)}

VARIABLES op, frags
Init == /\ \E a \in OpChains, b \in OpChains : op = a \o b
        /\ \E x \in F1Chains, y \in F2Chains : frags = [f1 |-> x, f2 |-> y]
Next == UNCHANGED <<op, frags>>
Spec == Init /\ [][Next]_<<op, frags>>

\* model level: the memoised algorithm (as repaired) agrees with the reference, and inlining does not matter
AlgIsReference == AlgRejects(op, frags) = Rejects(op, frags)
InliningInvariant == Rejects(Inline(op, frags), frags) = Rejects(op, frags)
Emit == PrintT(ToJson(<<"CASE", op, frags, Rejects(op, frags)>>))
Inv == AlgIsReference /\ InliningInvariant /\ Emit
=============================================================================
