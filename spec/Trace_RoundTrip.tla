--------------------------- MODULE Trace_RoundTrip ---------------------------
(* C08 / C19 monitor: one line per (document, configuration): what the real   *)
(* serializer wrote (as Printer items when `layout`), whether the text        *)
(* re-parsed (and re-validated, for typed documents), whether the result is   *)
(* equal, whether serializing the re-parsed document gave the same bytes.     *)
EXTENDS Naturals, Sequences, FiniteSets, TLC, Json, IOUtils
Rec == ndJsonDeserialize(IOEnv.TRACE)
VARIABLES l, bad
vars == <<l, bad>>
P == INSTANCE Printer WITH Cfg <- [indent |-> FALSE, prefix |-> "", level |-> 0], MaxItems <- 0,
                           out <- <<>>, lvl <- 0, enabled <- FALSE, saved <- <<>>, groups <- <<>>,
                           pend <- [nl |-> 0, ind |-> "", commas |-> 0], fresh <- TRUE
Sel(name, cond) == IF cond THEN {} ELSE {name}
Pfx(r) == IF r.kind = "ast" THEN "C08" ELSE "C19"
Fails(r) ==
  UNION { Sel(Pfx(r) \o "-reparse-fails", r.reparseOk),
          Sel(Pfx(r) \o "-not-equal", r.reparseOk => r.equal),
          Sel(Pfx(r) \o "-second-serialization-differs", r.reparseOk => r.text2Eq),
          \* layout facts that need no token stream
          Sel(Pfx(r) \o "-layout-line-break-with-no-indent", ~r.cfg.indent => ~r.hasNl),
          Sel(Pfx(r) \o "-layout-block-string-with-no-indent", ~r.cfg.indent => ~r.hasBlock),
          Sel(Pfx(r) \o "-layout-trailing-newline", (r.kind = "ast" /\ r.nonempty) => (r.endsNl = r.cfg.indent)),
          Sel(Pfx(r) \o "-layout", r.layout => P!LayoutOK(r.cfg, r.items)) }
Init == l = 1 /\ bad = {}
Next == /\ l <= Len(Rec) /\ l' = l + 1
        /\ bad' = IF Fails(Rec[l]) = {} THEN bad ELSE bad \cup {<<l, Fails(Rec[l])>>}
Spec == Init /\ [][Next]_vars
Report == (l = Len(Rec) + 1) => PrintT(ToJson(<<"RESULT", l - 1, bad>>))
=============================================================================
