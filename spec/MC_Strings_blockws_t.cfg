SPECIFICATION Spec
INVARIANT Inv
CHECK_DEADLOCK FALSE
CONSTANTS
  Mode = "block"
  MaxLen = 7
  Alphabet = {32, 9, 10, 97, 160, 12288, 65279}
