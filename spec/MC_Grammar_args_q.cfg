SPECIFICATION Spec
INVARIANT Inv
CHECK_DEADLOCK FALSE
CONSTANTS
  MaxLen = 4
  Prefix <- PArgs
  Suffix <- SArgs
  Alphabet = {"n1", ":", "int", "[", "]", "{", "}", "$", "str", "true"}
