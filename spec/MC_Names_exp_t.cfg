SPECIFICATION Spec
INVARIANT Inv
CHECK_DEADLOCK FALSE
CONSTANTS
  MaxLen = 5
  TypeDepth = 0
  Alphabet = {49, 48, 43, 45, 101, 46, 69, 65}
  Prefix <- PfxExp
