---------------------------- MODULE Trace_Monitor ----------------------------
(***************************************************************************)
(* Generic monitor for relational properties between observations of real  *)
(* executions (round trips, compositionality, idempotence, determinism).   *)
(* Each line: [kind, pairs, flags]:                                        *)
(*   pairs  - sequence of <<a, b>>: two observations the property requires *)
(*            to be equal (orders, serializations, diagnostics, digests);  *)
(*   flags  - sequence of <<name, bool>>: observations the property        *)
(*            requires to be true.                                         *)
(* A line is accepted iff all pairs are equal and all flags are true; the  *)
(* names of what failed are reported.                                      *)
(***************************************************************************)
EXTENDS Naturals, Sequences, TLC, Json, IOUtils
Rec == ndJsonDeserialize(IOEnv.TRACE)
VARIABLES l, bad
vars == <<l, bad>>

Fails(r) == {r.pairs[k][1] : k \in {j \in 1..Len(r.pairs) : r.pairs[j][2] # r.pairs[j][3]}}
            \cup {r.flags[k][1] : k \in {j \in 1..Len(r.flags) : ~r.flags[j][2]}}

Init == l = 1 /\ bad = {}
Next == /\ l <= Len(Rec) /\ l' = l + 1
        /\ bad' = IF Fails(Rec[l]) = {} THEN bad ELSE bad \cup {<<l, Fails(Rec[l])>>}
Spec == Init /\ [][Next]_vars
Report == (l = Len(Rec) + 1) => PrintT(ToJson(<<"RESULT", l - 1, bad>>))
=============================================================================
