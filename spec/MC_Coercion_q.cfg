SPECIFICATION Spec
INVARIANT Inv
CHECK_DEADLOCK FALSE
CONSTANT Depth = 1
