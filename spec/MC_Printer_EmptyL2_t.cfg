SPECIFICATION PSpec
CONSTANTS
  Cfg <- CfgEmptyL2
  MaxItems = 5
INVARIANT LevelIsDepth
INVARIANT EngineOutputAccepted
CHECK_DEADLOCK FALSE
