SPECIFICATION Spec
INVARIANT Inv
CHECK_DEADLOCK FALSE
CONSTANTS
  MaxLen = 6
  Prefix <- PFrag
  Suffix <- PNone
  Alphabet = {"n1", "on", "@", "{", "}", "...", "(", ")", ":"}
