SPECIFICATION PSpec
CONSTANTS
  Cfg <- CfgNoIndentL3
  MaxItems = 4
INVARIANT LevelIsDepth
INVARIANT EngineOutputAccepted
CHECK_DEADLOCK FALSE
