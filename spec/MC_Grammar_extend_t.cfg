SPECIFICATION Spec
INVARIANT Inv
CHECK_DEADLOCK FALSE
CONSTANTS
  MaxLen = 4
  Prefix <- PExtend
  Suffix <- PNone
  Alphabet = {"type", "interface", "union", "enum", "input", "scalar", "schema", "n1", "@", "{", "}", "=", "|", "&", "implements", ":", "query"}
