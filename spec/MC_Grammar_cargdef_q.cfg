SPECIFICATION Spec
INVARIANT Inv
CHECK_DEADLOCK FALSE
CONSTANTS
  MaxLen = 4
  Prefix <- PArgDefault
  Suffix <- SArgDefault
  Alphabet = {"n1", ":", "$", "int", "[", "]", "{", "}", "@", "str"}
