------------------------------ MODULE Execution ------------------------------
(***************************************************************************)
(* The GraphQL execution algorithm (October 2021, section 6: CollectFields,*)
(* ExecuteSelectionSet, ExecuteField, CompleteValue, result coercion,      *)
(* error handling / null propagation) with apollo-compiler's documented    *)
(* choices as named operators — C26 (and the call order used by C27).      *)
(*                                                                         *)
(* Schema:  [types: name -> [kind, fields: name -> typeRef, implements: set,*)
(*           members: set, values: set], query, mutation]                   *)
(* Type refs: <<"named", n>> | <<"list", t>> | <<"nonnull", t>>            *)
(* Selections:                                                             *)
(*   <<"field", responseKey, fieldName, subSelections, included>>          *)
(*   <<"inline", typeCondition | "", selections, included>>                *)
(*   <<"spread", fragmentName, included>>                                  *)
(*   (included = FALSE stands for @skip(if: true) / @include(if: false))   *)
(*   A selection may instead carry its directives: one more element BEFORE *)
(*   `included`, a sequence of <<"skip" | "include", <<"lit", b>> |        *)
(*   <<"var", name>>>>; `included` is then ignored and inclusion is decided *)
(*   by DirectivesInclude over VarValues (CollectFields steps 3.a, 3.b).    *)
(* Resolver world: typeName -> fieldName -> outcome, outcome is            *)
(*   <<"null">> | <<"err">> | <<"int", n>> | <<"bigint">> | <<"float">>    *)
(*   | <<"str", s>> | <<"bool", b>> | <<"obj", typeName>> | <<"list", seq>> *)
(* Response values: <<"null">> | leaf outcome | <<"obj", seq of <<k, v>>>> *)
(*   | <<"list", seq>>;  errors: sequence of paths (keys / 0-based indices) *)
(***************************************************************************)
EXTENDS Naturals, Sequences, FiniteSets

CONSTANTS Schema, Fragments, World,
          VarValues    \* coerced variable values read by @skip / @include: name -> BOOLEAN

Null == <<"null">>
IsNonNull(t) == t[1] = "nonnull"
IsList(t) == t[1] = "list" \/ (t[1] = "nonnull" /\ t[2][1] = "list")
Nullable(t) == IF IsNonNull(t) THEN t[2] ELSE t
ItemType(t) == Nullable(t)[2]
NamedOf(t) == Nullable(t)[2]                 \* for a non-list type: its name

\* ---- apollo-compiler's documented choices (each is a deviation point that can be switched) ------------
Apollo_NoIntFromFloat == TRUE                \* Int result coercion accepts only integers; Float only floats
Apollo_ListItemErrorNullifiesList == TRUE    \* a resolver error for a list item nullifies the whole list field
                                             \* (pinned by the repository's test_error_path)
Apollo_AbortSiblingsOnPropagation == TRUE    \* once a null propagates out of a selection set, remaining sibling
                                             \* fields are not executed (their errors are not collected)

\* ---- field definitions ---------------------------------------------------------------
FieldType(objType, fieldName) ==
  IF fieldName = "__typename" THEN <<"nonnull", <<"named", "String">>>>
  ELSE Schema.types[objType].fields[fieldName]
HasField(objType, fieldName) == fieldName = "__typename" \/ fieldName \in DOMAIN Schema.types[objType].fields

\* ---- CollectFields ---------------------------------------------------------------------
DoesFragmentTypeApply(objType, cond) ==
  IF cond \notin DOMAIN Schema.types THEN FALSE
  ELSE LET d == Schema.types[cond] IN
       CASE d.kind = "object"    -> cond = objType
         [] d.kind = "interface" -> cond \in Schema.types[objType].implements
         [] d.kind = "union"     -> objType \in d.members
         [] OTHER -> FALSE

IndexOfKey(groups, key) ==
  IF \E k \in 1..Len(groups) : groups[k][1] = key THEN CHOOSE k \in 1..Len(groups) : groups[k][1] = key ELSE 0
AddField(groups, f) ==
  LET k == IndexOfKey(groups, f[2]) IN
    IF k = 0 THEN Append(groups, <<f[2], <<f>>>>) ELSE [groups EXCEPT ![k] = <<f[2], Append(groups[k][2], f)>>]

\* @skip / @include: skipped when @skip's `if` is true or @include's `if` is not true, whichever directives are
\* present and in whatever order; a variable stands for its coerced value (a default counts, section 6.1.2)
BaseArity(s) == CASE s[1] = "field" -> 5 [] s[1] = "inline" -> 4 [] OTHER -> 3
CondValue(c) == IF c[2][1] = "lit" THEN c[2][2] ELSE VarValues[c[2][2]]
DirectivesInclude(conds) == \A k \in 1..Len(conds) : IF conds[k][1] = "skip" THEN ~CondValue(conds[k]) ELSE CondValue(conds[k])
Included(s) == IF Len(s) = BaseArity(s) + 1 THEN DirectivesInclude(s[Len(s) - 1]) ELSE s[Len(s)]

RECURSIVE Collect(_, _, _, _)
\* returns <<groups, visitedFragments>>
Collect(objType, sels, groups, visited) ==
  IF sels = <<>> THEN <<groups, visited>>
  ELSE LET s == Head(sels) rest == Tail(sels) IN
       IF ~Included(s) THEN Collect(objType, rest, groups, visited)            \* @skip / @include
       ELSE CASE s[1] = "field" -> Collect(objType, rest, AddField(groups, s), visited)
              [] s[1] = "spread" ->
                   IF s[2] \in visited \/ s[2] \notin DOMAIN Fragments THEN Collect(objType, rest, groups, visited)
                   ELSE IF ~DoesFragmentTypeApply(objType, Fragments[s[2]].on)
                        THEN Collect(objType, rest, groups, visited \cup {s[2]})
                        ELSE LET r == Collect(objType, Fragments[s[2]].sels, groups, visited \cup {s[2]}) IN
                             Collect(objType, rest, r[1], r[2])
              [] OTHER ->   \* inline fragment
                   IF s[2] # "" /\ ~DoesFragmentTypeApply(objType, s[2]) THEN Collect(objType, rest, groups, visited)
                   ELSE LET r == Collect(objType, s[3], groups, visited) IN Collect(objType, rest, r[1], r[2])

CollectFields(objType, sels) == Collect(objType, sels, <<>>, {})[1]

RECURSIVE Concat(_)
Concat(ss) == IF ss = <<>> THEN <<>> ELSE Head(ss) \o Concat(Tail(ss))
MergedSubSelections(fields) == Concat([k \in 1..Len(fields) |-> fields[k][4]])

\* ---- result coercion of leaves ------------------------------------------------------------
LeafOK(typeName, o) ==
  LET d == Schema.types[typeName] IN
  IF d.kind = "enum" THEN o[1] = "str" /\ o[2] \in d.values
  ELSE CASE typeName = "Int"     -> o[1] = "int"                       \* <<"bigint">> overflows; floats are not coerced
         [] typeName = "Float"   -> o[1] = "float"
         [] typeName = "String"  -> o[1] = "str"
         [] typeName = "Boolean" -> o[1] = "bool"
         [] typeName = "ID"      -> o[1] \in {"str", "int", "bigint"}
         [] OTHER -> TRUE                                                   \* custom scalar: any value

\* results: [st |-> "ok" | "propagate", v |-> value, errs |-> sequence of paths]
OkR(v, errs) == [st |-> "ok", v |-> v, errs |-> errs]
PropR(errs) == [st |-> "propagate", v |-> Null, errs |-> errs]
TryNullify(t, r) == IF r.st = "propagate" /\ ~IsNonNull(t) THEN OkR(Null, r.errs) ELSE r

RECURSIVE ExecSet(_, _, _, _)
RECURSIVE ExecGroups(_, _, _, _, _, _)
RECURSIVE Complete(_, _, _, _, _)
RECURSIVE CompleteItems(_, _, _, _, _, _, _, _)

\* ExecuteSelectionSet
ExecSet(objType, sels, path, errs) ==
  ExecGroups(objType, CollectFields(objType, sels), 1, path, <<>>, errs)

ExecGroups(objType, groups, k, path, acc, errs) ==
  IF k > Len(groups) THEN OkR(<<"obj", acc>>, errs)
  ELSE LET key == groups[k][1]  fields == groups[k][2]  fname == fields[1][3] IN
       IF ~HasField(objType, fname) THEN ExecGroups(objType, groups, k + 1, path, acc, errs)
       ELSE LET ft == FieldType(objType, fname)
                fpath == Append(path, key)
                o == IF fname = "__typename" THEN <<"str", objType>> ELSE World[objType][fname]
                r0 == IF o = <<"err">> THEN PropR(Append(errs, fpath)) ELSE Complete(ft, o, fields, fpath, errs)
                r == TryNullify(ft, r0)
            IN IF r.st = "propagate" THEN PropR(r.errs)               \* Apollo_AbortSiblingsOnPropagation
               ELSE ExecGroups(objType, groups, k + 1, path, Append(acc, <<key, r.v>>), r.errs)

\* CompleteValue
Complete(t, o, fields, path, errs) ==
  IF o = Null THEN (IF IsNonNull(t) THEN PropR(Append(errs, path)) ELSE OkR(Null, errs))
  ELSE IF o[1] = "list"
       THEN (IF ~IsList(t) THEN PropR(Append(errs, path))
             ELSE CompleteItems(t, ItemType(t), o[2], 1, fields, path, <<>>, errs))
  ELSE IF IsList(t) THEN PropR(Append(errs, path))                       \* list type resolved to a leaf / object
  ELSE LET n == NamedOf(t)  d == Schema.types[n] IN
       IF o[1] # "obj"
       THEN (IF d.kind \in {"object", "interface", "union"} THEN PropR(Append(errs, path))
             ELSE IF LeafOK(n, o) THEN OkR(o, errs) ELSE PropR(Append(errs, path)))
       ELSE \* an object value
            IF d.kind \in {"scalar", "enum"} THEN PropR(Append(errs, path))
            ELSE LET rt == o[2]
                     fits == /\ rt \in DOMAIN Schema.types /\ Schema.types[rt].kind = "object"
                             /\ CASE d.kind = "object" -> rt = n
                                  [] d.kind = "union" -> rt \in d.members
                                  [] OTHER -> n \in Schema.types[rt].implements
                 IN IF ~fits THEN PropR(Append(errs, path))
                    ELSE ExecSet(rt, MergedSubSelections(fields), path, errs)

\* list completion: items[i] is the outcome of the i-th item (0-based index in paths)
CompleteItems(t, it, items, i, fields, path, acc, errs) ==
  IF i > Len(items) THEN OkR(<<"list", acc>>, errs)
  ELSE LET ipath == Append(path, i - 1) IN
       IF items[i] = <<"err">>
       THEN PropR(Append(errs, ipath))                                   \* Apollo_ListItemErrorNullifiesList
       ELSE LET r == TryNullify(it, Complete(it, items[i], fields, ipath, errs)) IN
            IF r.st = "propagate" THEN TryNullify(t, PropR(r.errs))
            ELSE CompleteItems(t, it, items, i + 1, fields, path, Append(acc, r.v), r.errs)

\* ExecuteRequest for one operation: [kind, sels]
RootType(op) == IF op.kind = "mutation" THEN Schema.mutation ELSE Schema.query
Execute(op) ==
  LET r == ExecSet(RootType(op), op.sels, <<>>, <<>>) IN
    [data |-> IF r.st = "propagate" THEN Null ELSE r.v, errors |-> r.errs]

\* ---- properties of every response (C26) ---------------------------------------------------
RECURSIVE ValueAt(_, _)
\* the value at a path inside data; <<"absent">> if the path leaves the data
ValueAt(v, path) ==
  IF path = <<>> THEN v
  ELSE IF v[1] = "obj"
       THEN (IF \E k \in 1..Len(v[2]) : v[2][k][1] = Head(path)
             THEN ValueAt(v[2][CHOOSE k \in 1..Len(v[2]) : v[2][k][1] = Head(path)][2], Tail(path))
             ELSE <<"absent">>)
  ELSE IF v[1] = "list" /\ Head(path) \in 0..(Len(v[2]) - 1) THEN ValueAt(v[2][Head(path) + 1], Tail(path))
  ELSE <<"absent">>

RECURSIVE NullOnPrefix(_, _, _)
\* some prefix of the path is null or absent in data (the error nullified that position or an ancestor)
NullOnPrefix(data, path, n) ==
  IF n > Len(path) THEN FALSE
  ELSE ValueAt(data, SubSeq(path, 1, n)) \in {Null, <<"absent">>} \/ NullOnPrefix(data, path, n + 1)
ErrorPathsPointAtNullOrAbsent(resp) ==
  \A k \in 1..Len(resp.errors) : resp.data = Null \/ NullOnPrefix(resp.data, resp.errors[k], 0)
DataNullOnlyWithErrors(resp) == resp.data = Null => Len(resp.errors) >= 1
=============================================================================
