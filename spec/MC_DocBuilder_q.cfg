SPECIFICATION Spec
CONSTANTS
  MaxLen = 4
INVARIANT Inv
CHECK_DEADLOCK FALSE
