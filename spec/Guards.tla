------------------------------- MODULE Guards -------------------------------
(***************************************************************************)
(* The recursion guards of apollo-compiler's validation (validation/mod.rs *)
(* DepthCounter / DepthGuard, RecursionStack / RecursionGuard) and a       *)
(* guarded recursive walker over a reference graph (fragment spreads,      *)
(* directive definitions referencing directives, input-object fields,      *)
(* implemented interfaces) — C21.  The walker is an explicit stack machine *)
(* so that TLC checks the bound on the call depth and termination on every *)
(* graph, including every cycle shape.                                     *)
(***************************************************************************)
EXTENDS Naturals, Sequences, FiniteSets

CONSTANTS Nodes, Limit

\* ---- the guards ------------------------------------------------------------
\* RecursionStack: seen (ordered set), high, limit.  push fails when |seen| exceeds limit.
PushOK(seen) == Len(seen) + 1 <= Limit
Contains(seen, n) == \E k \in 1..Len(seen) : seen[k] = n

VARIABLES edges,     \* the graph: node -> sequence of successor nodes (the order references are visited in)
          stack,     \* call stack of frames <<node, index of the next edge to visit>>
          seen,      \* RecursionStack.seen (the names on the current path)
          high,      \* high-water mark of |seen|
          outcome,   \* set of reported outcomes: "cycle", "limit"
          steps      \* number of walker steps taken (termination measure)
gvars == <<edges, stack, seen, high, outcome, steps>>

Max(a, b) == IF a >= b THEN a ELSE b

GInit(g, root) ==
  /\ edges = g /\ stack = <<<<root, 1>>>> /\ seen = <<root>> /\ high = 1 /\ outcome = {} /\ steps = 0

\* one step of the walker: look at the next reference of the top frame
Visit ==
  /\ stack # <<>>
  /\ LET top == stack[Len(stack)] n == top[1] i == top[2] IN
     IF i > Len(edges[n])
     THEN \* all references of n visited: return (the guard is dropped: n leaves `seen`)
          /\ stack' = SubSeq(stack, 1, Len(stack) - 1)
          /\ seen' = SubSeq(seen, 1, Len(seen) - 1)
          /\ UNCHANGED <<high, outcome>>
     ELSE LET m == edges[n][i]
              advanced == [stack EXCEPT ![Len(stack)] = <<n, i + 1>>] IN
          IF Contains(seen, m)
          THEN \* the name is already up the call stack: a cycle is reported, not followed
               /\ outcome' = outcome \cup {"cycle"} /\ stack' = advanced /\ UNCHANGED <<seen, high>>
          ELSE IF ~PushOK(seen)
          THEN \* too many names: a recursion-limit outcome, the reference is not followed
               /\ outcome' = outcome \cup {"limit"} /\ stack' = advanced
               /\ high' = Max(high, Len(seen) + 1) /\ UNCHANGED seen
          ELSE /\ stack' = Append(advanced, <<m, 1>>) /\ seen' = Append(seen, m)
               /\ high' = Max(high, Len(seen) + 1) /\ UNCHANGED outcome
  /\ steps' = steps + 1 /\ UNCHANGED edges

\* ---- properties ---------------------------------------------------------------
DepthBounded == Len(stack) <= Limit /\ Len(seen) <= Limit /\ high <= Limit + 1
SeenIsPath == Len(seen) = Len(stack) /\ \A k \in 1..Len(stack) : seen[k] = stack[k][1]
NoRepeatOnPath == \A i, j \in 1..Len(seen) : i # j => seen[i] # seen[j]     \* a cycle is never followed

\* reference facts about the graph (what must be reported)
RECURSIVE PathsFrom(_, _, _)
\* all simple paths (as sequences) starting with `path`, following g
PathsFrom(g, path, fuel) ==
  IF fuel = 0 THEN {path}
  ELSE {path} \cup UNION {PathsFrom(g, Append(path, g[path[Len(path)]][k]), fuel - 1) :
                             k \in {j \in 1..Len(g[path[Len(path)]]) : ~Contains(path, g[path[Len(path)]][j])}}
HasCycleFrom(g, root) ==
  \E p \in PathsFrom(g, <<root>>, Cardinality(Nodes)) : \E k \in 1..Len(g[p[Len(p)]]) : Contains(p, g[p[Len(p)]][k])
LongestPathFrom(g, root) ==
  LET ps == PathsFrom(g, <<root>>, Cardinality(Nodes)) IN
    CHOOSE n \in {Len(p) : p \in ps} : \A p \in ps : Len(p) <= n

\* when the walk is over: a limit outcome iff some simple path is longer than the limit; and when no limit was
\* hit, a cycle outcome iff a cycle is reachable
Done == stack = <<>>
OutcomeCorrect(root) ==
  Done => /\ ("limit" \in outcome) <=> (LongestPathFrom(edges, root) > Limit)
          /\ ("limit" \notin outcome) => (("cycle" \in outcome) <=> HasCycleFrom(edges, root))

\* ---- diagnostics ordering -------------------------------------------------------
\* DiagnosticList::sort: stable sort by (file, offset), unlocated first
RECURSIVE InsertByLoc(_, _)
InsertByLoc(sorted, d) ==
  IF sorted = <<>> THEN <<d>>
  ELSE IF d[1] < Head(sorted)[1] THEN <<d>> \o sorted ELSE <<Head(sorted)>> \o InsertByLoc(Tail(sorted), d)
RECURSIVE SortByLoc(_, _)
SortByLoc(ds, acc) == IF ds = <<>> THEN acc ELSE SortByLoc(Tail(ds), InsertByLoc(acc, Head(ds)))
IsSorted(ds) == \A k \in 1..(Len(ds) - 1) : ds[k][1] <= ds[k + 1][1]
=============================================================================
