---------------------------- MODULE MC_Coordinate ----------------------------
(* (1) every string up to MaxLen over Alphabet with its reference parse;       *)
(* (2) every coordinate over a small name universe looked up in a fixed        *)
(*     abstract schema (the harness has the same schema as SDL).               *)
EXTENDS Coordinate, TLC, Json

CONSTANTS Alphabet, MaxLen

TheSchema == [
  types |-> [Q |-> [kind |-> "object",    attrs |-> [f |-> {"x", "y"}, g |-> {}]],
             I |-> [kind |-> "interface", attrs |-> [f |-> {"x"}]],
             N |-> [kind |-> "input",     attrs |-> [f |-> {}, g |-> {}]],
             E |-> [kind |-> "enum",      attrs |-> [f |-> {}, V |-> {}]],
             U |-> [kind |-> "union",     attrs |-> [z |-> {}]],
             S |-> [kind |-> "scalar",    attrs |-> [z |-> {}]]],
  directives |-> [d |-> {"x"}, e |-> {}]]
TypeNames == {"Q", "I", "N", "E", "U", "S", "Z"}
\* the introspection meta-fields are not elements of the schema: a coordinate naming one resolves to nothing
AttrNames == {"f", "g", "V", "z", "__typename", "__schema", "__type"}
ArgNames  == {"x", "y", "z", "name"}
DirNames  == {"d", "e", "z"}

VARIABLES str, look
vars == <<str, look>>
NoLook == <<"none">>
Init == str = <<>> /\ look = NoLook
NextStr == /\ look = NoLook /\ Len(str) < MaxLen /\ \E c \in Alphabet : str' = Append(str, c) /\ UNCHANGED look
NextLook == /\ look = NoLook /\ str = <<>> /\ UNCHANGED str
            /\ \/ \E t \in TypeNames : look' = <<"type", t>>
               \/ \E t \in TypeNames, a \in AttrNames : look' = <<"typeAttribute", t, a>>
               \/ \E t \in TypeNames, a \in AttrNames, g \in ArgNames : look' = <<"fieldArgument", t, a, g>>
               \/ \E d \in DirNames : look' = <<"directive", d>>
               \/ \E d \in DirNames, g \in ArgNames : look' = <<"directiveArgument", d, g>>
Next == NextStr \/ NextLook
Spec == Init /\ [][Next]_vars

\* model-level: print and parse are mutually inverse on everything that parses
RoundTrip == LET p == ParseCoordinate(str) IN
               (look = NoLook /\ p # Invalid) => (PrintCoordinate(p) = str /\ ParseCoordinate(PrintCoordinate(p)) = p)

Emit == IF look = NoLook THEN PrintT(ToJson(<<"STR", str, ParseCoordinate(str)>>))
        ELSE PrintT(ToJson(<<"LOOKUP", look, Lookup(TheSchema, look)>>))
Inv == RoundTrip /\ Emit
=============================================================================
