------------------------- MODULE Trace_ParserCore -------------------------
(* Trace validation of recorded runs of the real parser (hooks under         *)
(* --cfg apollo_rs_verif) against ParserCore.  One NDJSON line per primitive *)
(* operation; segments (one per parsed input) start with a Reset line and    *)
(* end with Done (or Crash/Hang, for which ParserCore has no action).        *)
(*                                                                           *)
(* A line for which no ParserCore action is enabled is a rejection: it is    *)
(* recorded in `fails` with the name of the violated condition, the rest of  *)
(* that segment is skipped (its state is no longer meaningful) and           *)
(* validation resumes at the next Reset, so one rejection does not hide the  *)
(* rest of the trace.                                                        *)
EXTENDS ParserCore, TLC, Json, IOUtils

Rec == ndJsonDeserialize(IOEnv.TRACE)

VARIABLES l, skip, fails
vars == <<pvars, l, skip, fails>>

Ev == Rec[l]
Is(name) == Ev.e = name
Lim(x) == IF x < 0 THEN INF ELSE x

TraceInit == PInit /\ l = 1 /\ skip = FALSE /\ fails = {}

\* the ParserCore action that the current line stands for
Step ==
  \/ Is("Reset")    /\ Reset(Ev.entry, Lim(Ev.tokLimit), Lim(Ev.recLimit), Ev.len)
  \/ Is("LexTok")   /\ LexTok(Ev.a, Ev.b, Ev.c)
  \/ Is("LexErr")   /\ LexErr(Ev.a, Ev.b = 1)
  \/ Is("Pop")      /\ Pop(Ev.a = 1)
  \/ Is("Pend")     /\ Pend(Ev.a, Ev.b)
  \/ Is("Flush")    /\ Flush(Ev.a)
  \/ Is("Tok")      /\ Tok(Ev.b, Ev.c)
  \/ Is("Start")    /\ Start
  \/ Is("Finish")   /\ Finish
  \/ Is("Ckpt")     /\ Ckpt
  \/ Is("Wrap")     /\ Wrap
  \/ Is("Err")      /\ Err(Ev.a = 1)
  \/ Is("LimitErr") /\ LimitErr
  \/ Is("Inc")      /\ Inc(Ev.a = 1, Ev.b, Ev.c)
  \/ Is("Dec")      /\ Dec(Ev.a)
  \/ Is("Top")      /\ Top(Ev.a)
  \/ Is("Done")     /\ Done(Ev)
  \* "Crash" / "Hang": no action

\* why the current line is rejected (names of violated conditions)
Why ==
  CASE Is("Done")  -> DoneFails(Ev)
    [] Is("Crash") -> {"C01-crash"}
    [] Is("Hang")  -> {"C01-hang"}
    [] Is("Tok")   -> IF Ev.b # emittedEnd THEN {"C02-token-attached-out-of-order-or-after-a-gap"}
                      ELSE {"C02-attached-token-was-never-consumed"}
    [] Is("Flush") -> {"C02-error-fragment-attached-out-of-order"}
    [] Is("Pop")   -> {"C01-pop-without-token"}
    [] Is("Finish") -> {"C01-finish-node-without-open-node"}
    [] Is("Wrap")  -> {"C01-wrap-with-invalid-checkpoint"}
    [] Is("Top")   -> {"C04-unbalanced-recursion-counter"}
    [] Is("Inc")   -> {"C04-limit-tracker-increment"}
    [] Is("Dec")   -> {"C04-limit-tracker-decrement"}
    [] Is("LexTok") -> IF tokCount >= tokLimit THEN {"C04-more-than-n-items"} ELSE {"C02-lexer-items-not-contiguous"}
    [] Is("LexErr") -> {"C04-lexer-error-protocol"}
    [] Is("Err")   -> {"C04-accept-errors-latch"}
    [] OTHER       -> {"protocol"}

Accept == ~skip /\ l <= Len(Rec) /\ Step /\ l' = l + 1 /\ UNCHANGED <<skip, fails>>

Reject == /\ ~skip /\ l <= Len(Rec) /\ ~ENABLED Step
          /\ l' = l + 1 /\ skip' = TRUE
          /\ fails' = fails \cup {<<l, Ev.e, Why>>}
          /\ phase' = "done"
          /\ UNCHANGED <<entry, inputLen, tokLimit, recLimit, lexedEnd, lexDone, cur, popping, pending, held,
                         emittedEnd, depth, roots, ckpts, errs, accept, limitErrs, rec, tokCount, tokHigh>>

Skip == /\ skip /\ l <= Len(Rec)
        /\ IF Is("Reset")
           THEN Reset(Ev.entry, Lim(Ev.tokLimit), Lim(Ev.recLimit), Ev.len) /\ skip' = FALSE
           ELSE UNCHANGED <<pvars, skip>>
        /\ l' = l + 1 /\ UNCHANGED fails

TraceNext == Accept \/ Reject \/ Skip
TraceSpec == TraceInit /\ [][TraceNext]_vars

Report == (l = Len(Rec) + 1) => PrintT(ToJson(<<"RESULT", l - 1, fails>>))
Inv == (~skip => CoreInv) /\ Report
=============================================================================
