--------------------------- MODULE MC_TypeCompat ---------------------------
(* Exhaustive cases for C29: every pair of type references up to Depth over    *)
(* {"A","B"} x defaults x subtype relations.  Each initial state is one case.  *)
EXTENDS TypeCompat, TLC, Json

CONSTANT Depth
Types == TypesOfDepth({"A", "B"}, Depth)
Rels == [none |-> {}, iface |-> {<<"A", "B">>}, union |-> {<<"A", "B">>}]

VARIABLE c
Init ==
  \/ \E v \in Types, loc \in Types : c = <<"COMPAT", v, loc, AreTypesCompatible(v, loc)>>
  \/ \E v \in Types, loc \in Types, vd \in {"none", "null", "value"}, ld \in BOOLEAN :
        c = <<"USAGE", v, vd, loc, ld, IsVariableUsageAllowed(v, vd, loc, ld)>>
  \/ \E f \in Types, i \in Types, r \in {"none", "iface", "union"} :
        c = <<"IMPL", f, i, r, IsValidImplementationFieldType(f, i, Rels[r])>>
Next == UNCHANGED c
Spec == Init /\ [][Next]_c

\* model-level facts the three operators must satisfy together
Reflexive == c[1] = "COMPAT" /\ c[2] = c[3] => c[4]
UsageImpliedByCompat == (c[1] = "USAGE" /\ AreTypesCompatible(c[2], c[4])) => c[6]
NullDefaultIsNoDefault == (c[1] = "USAGE" /\ c[3] = "null") =>
                             (c[6] = IsVariableUsageAllowed(c[2], "none", c[4], c[5]))
ImplRelaxesCompat == (c[1] = "IMPL" /\ AreTypesCompatible(c[2], c[3])) => c[5]
Inv == Reflexive /\ UsageImpliedByCompat /\ NullDefaultIsNoDefault /\ ImplRelaxesCompat /\ PrintT(ToJson(c))
=============================================================================
