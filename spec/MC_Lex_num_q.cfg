SPECIFICATION Spec
INVARIANT Inv
CHECK_DEADLOCK FALSE
CONSTANTS
  MaxLen = 5
  Alphabet = {48, 49, 46, 101, 45, 43, 65, 32}
  Prefix <- PfxNone
  Suffix <- PfxNone
