SPECIFICATION Spec
INVARIANT Deterministic
CHECK_DEADLOCK FALSE
CONSTANT Variant = "indexset"
