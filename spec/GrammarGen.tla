----------------------------- MODULE GrammarGen -----------------------------
(***************************************************************************)
(* The document grammar of Grammar.tla run FORWARDS: a derivation machine   *)
(* whose behaviours are leftmost derivations and whose terminal states are  *)
(* sentences of the language.  It turns the reference grammar (data) into a *)
(* generator of syntactically valid documents that use every production —   *)
(* the input domain of C08 / C19 and a source of members for the parser     *)
(* group.  `form` is the sentential form still to be expanded, `out` the    *)
(* tokens produced, `forbid` the token a [lookahead != t] production bans   *)
(* from coming next.                                                         *)
(* Checked here (MC_GrammarGen): every sentence produced is accepted by the  *)
(* recogniser (generator \subseteq reference parser), so a defect in either   *)
(* reading of the EBNF data shows up as a disagreement.                      *)
(***************************************************************************)
EXTENDS Grammar

CONSTANTS Start,        \* the non-terminal to derive
          NamePool,     \* names to choose from (keywords included: they are names wherever the grammar says Name)
          MaxOut,       \* no more than this many tokens
          MaxForm       \* sentential forms longer than this are abandoned

VARIABLES form, out, forbid
gvars == <<form, out, forbid>>

GInit == form = <<N(Start)>> /\ out = <<>> /\ forbid = ""

Emit(t) == /\ t # forbid /\ Len(out) < MaxOut
           /\ out' = Append(out, t) /\ forbid' = "" /\ form' = Tail(form)
Replace(es) == form' = es \o Tail(form) /\ UNCHANGED <<out, forbid>>

Step ==
  /\ form # <<>>
  /\ Len(form) <= MaxForm
  /\ LET e == Head(form) IN
     CASE e[1] = "t"       -> Emit(e[2])
       [] e[1] = "name"    -> \E n \in NamePool \ e[2] : Emit(n)
       [] e[1] = "namein"  -> \E n \in e[2] : Emit(n)
       [] e[1] = "lit"     -> \E n \in e[2] : Emit(n)
       [] e[1] = "notnext" -> form' = Tail(form) /\ forbid' = e[2] /\ UNCHANGED out
       [] e[1] = "n"       -> Replace(<<G[e[2]]>>)
       [] e[1] = "seq"     -> Replace(e[2])
       [] e[1] = "alt"     -> \E k \in 1..Len(e[2]) : Replace(<<e[2][k]>>)
       [] e[1] = "opt"     -> Replace(<<>>) \/ Replace(<<e[2]>>)
       [] e[1] = "plus"    -> Replace(<<e[2]>>) \/ Replace(<<e[2], e>>)

Done == form = <<>>
GSpec == GInit /\ [][Step]_gvars

\* a [lookahead != t] at the very end of the derivation is satisfied (end of input)
GeneratedIsMember == Done => Derives(Start, out)
=============================================================================
