SPECIFICATION TraceSpec
INVARIANT Inv
CHECK_DEADLOCK FALSE
