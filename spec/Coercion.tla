------------------------------ MODULE Coercion ------------------------------
(***************************************************************************)
(* CoerceVariableValues (October 2021, section 6.1.2) with apollo-         *)
(* compiler's documented scalar rules — C28.                               *)
(* JSON values:  <<"null">> | <<"bool", b>> | <<"num", tag>> | <<"str", s>> *)
(*               | <<"list", seq>> | <<"obj", seq of <<key, value>>>>       *)
(* Numbers are symbolic tags (TLC integers are 32-bit): their relevant     *)
(* properties are given by the predicates below; the harness maps tags to  *)
(* JSON numbers.                                                           *)
(***************************************************************************)
EXTENDS Naturals, Sequences, FiniteSets

NumTags == {"0", "1", "-1", "5", "7", "i32max", "i32max+1", "i32min", "i32min-1", "1.5"}
IsIntegral(t) == t # "1.5"
IsInt32(t) == t \in {"0", "1", "-1", "5", "7", "i32max", "i32min"}

Null == <<"null">>
Err == <<"err">>
Ok(v) == <<"ok", v>>
IsOk(r) == r[1] = "ok"

\* ---- the schema the cases are about (the harness has the same SDL) ----------
\* enum E { V W }
\* input In { d: Int = 7  l: [Int]  n: In  r: Int! }      (fields in alphabetical order)
EnumValues == {"V", "W"}
InFields == << [name |-> "d", type |-> <<"named", "Int">>, default |-> <<"num", "7">>, hasDefault |-> TRUE],
               [name |-> "l", type |-> <<"list", <<"named", "Int">>>>, default |-> Null, hasDefault |-> FALSE],
               [name |-> "n", type |-> <<"named", "In">>, default |-> Null, hasDefault |-> FALSE],
               [name |-> "r", type |-> <<"nonnull", <<"named", "Int">>>>, default |-> Null, hasDefault |-> FALSE] >>

RECURSIVE TypesOfDepth(_, _)
TypesOfDepth(names, d) ==
  IF d = 0 THEN {<<"named", n>> : n \in names}
  ELSE LET inner == TypesOfDepth(names, d - 1) IN
       inner \cup {<<"list", t>> : t \in inner} \cup {<<"nonnull", t>> : t \in {u \in inner : u[1] # "nonnull"}}

Lookup(obj, key) ==    \* value for key in a sequence of pairs, or <<"absent">>
  IF \E k \in 1..Len(obj) : obj[k][1] = key THEN obj[CHOOSE k \in 1..Len(obj) : obj[k][1] = key][2] ELSE <<"absent">>

RECURSIVE Coerce(_, _)
RECURSIVE CoerceItems(_, _, _)
RECURSIVE CoerceFields(_, _, _)

CoerceItems(t, items, acc) ==
  IF items = <<>> THEN Ok(<<"list", acc>>)
  ELSE LET r == Coerce(t, Head(items)) IN IF IsOk(r) THEN CoerceItems(t, Tail(items), Append(acc, r[2])) ELSE Err

\* fields of In in order; provided object `obj`; acc = resulting pairs
CoerceFields(k, obj, acc) ==
  IF k > Len(InFields) THEN Ok(<<"obj", acc>>)
  ELSE LET f == InFields[k]  v == Lookup(obj, f.name) IN
       IF v # <<"absent">>
       THEN LET r == Coerce(f.type, v) IN IF IsOk(r) THEN CoerceFields(k + 1, obj, Append(acc, <<f.name, r[2]>>)) ELSE Err
       ELSE IF f.hasDefault THEN CoerceFields(k + 1, obj, Append(acc, <<f.name, f.default>>))
       ELSE IF f.type[1] = "nonnull" THEN Err
       ELSE CoerceFields(k + 1, obj, acc)

Coerce(t, v) ==
  IF v = Null THEN (IF t[1] = "nonnull" THEN Err ELSE Ok(Null))
  ELSE IF t[1] = "nonnull" THEN Coerce(t[2], v)
  ELSE IF t[1] = "list"
       THEN (IF v[1] = "list" THEN CoerceItems(t[2], v[2], <<>>)
             ELSE LET r == Coerce(t[2], v) IN IF IsOk(r) THEN Ok(<<"list", <<r[2]>>>>) ELSE Err)   \* single value -> list of one
  ELSE LET n == t[2] IN
       CASE n = "Int"     -> IF v[1] = "num" /\ IsInt32(v[2]) THEN Ok(v) ELSE Err
         [] n = "Float"   -> IF v[1] = "num" THEN Ok(v) ELSE Err                     \* finite numbers, integers accepted
         [] n = "String"  -> IF v[1] = "str" THEN Ok(v) ELSE Err                     \* no coercion of other kinds
         [] n = "Boolean" -> IF v[1] = "bool" THEN Ok(v) ELSE Err
         [] n = "ID"      -> IF v[1] = "str" \/ (v[1] = "num" /\ IsIntegral(v[2])) THEN Ok(v) ELSE Err
         [] n = "E"       -> IF v[1] = "str" /\ v[2] \in EnumValues THEN Ok(v) ELSE Err
         [] n = "In"      -> IF v[1] # "obj" THEN Err
                             ELSE IF \E k \in 1..Len(v[2]) : v[2][k][1] \notin {InFields[j].name : j \in 1..Len(InFields)} THEN Err
                             ELSE CoerceFields(1, v[2], <<>>)
         [] OTHER -> Err

\* One variable $v of type t, with or without a default literal (given as a JSON value), provided or absent.
\* Result: <<"ok", <<"present", value>> | <<"absent">>>> or <<"err">>
CoerceVariable(t, hasDefault, default, provided) ==
  IF provided # <<"absent">>
  THEN LET r == Coerce(t, provided) IN IF IsOk(r) THEN Ok(<<"present", r[2]>>) ELSE Err
  ELSE IF hasDefault
  THEN LET r == Coerce(t, default) IN IF IsOk(r) THEN Ok(<<"present", r[2]>>) ELSE Err
  ELSE IF t[1] = "nonnull" THEN Err
  ELSE Ok(<<"absent">>)
=============================================================================
