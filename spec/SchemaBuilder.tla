--------------------------- MODULE SchemaBuilder ---------------------------
(***************************************************************************)
(* The schema builder (crates/apollo-compiler/src/schema/from_ast.rs) as a *)
(* history-dependent object: Add(item) for every definition / extension of *)
(* every source text in order, Build at the end; and the schema serializer *)
(* (schema/serialize.rs) as ToAst.  Properties C12 (round trip preserves   *)
(* order), C13 (compositionality).                                         *)
(*                                                                         *)
(* Items:  [tag |-> "def" | "ext", kind, name, dirs, ifaces, mems]          *)
(*   kind \in {"object","interface","union","enum","scalar","input"};      *)
(*   dirs / ifaces / mems are sequences of small identities (directive     *)
(*   names, interface names, field / value / member names);                *)
(*   kind = "schema": mems is a sequence of <<operation, typeName>>;       *)
(*   kind = "directive" (tag "def"): a directive definition `name`.        *)
(* Origins: 0 = the definition, k > 0 = the extension added as k-th item.  *)
(***************************************************************************)
EXTENDS Naturals, Sequences, FiniteSets

TypeKinds == {"object", "interface", "union", "enum", "scalar", "input"}
HasIfaces(kind) == kind \in {"object", "interface"}
HasMems(kind) == kind # "scalar"
Ops == <<"query", "mutation", "subscription">>
DefaultRoot(op) == CASE op = "query" -> "Query" [] op = "mutation" -> "Mutation" [] OTHER -> "Subscription"
BuiltInDirectives == {"skip", "include", "deprecated", "specifiedBy"}

NoRoot == <<>>

EmptyState == [
  types   |-> <<>>,      \* sequence of [name, kind, dirs, ifaces, mems], components are <<id, origin>>
  dirdefs |-> <<>>,      \* user directive definitions in order (names)
  redefined |-> {},      \* built-in directives already redefined once
  schema  |-> [found |-> FALSE, dirs |-> <<>>, roots |-> [o \in {"query", "mutation", "subscription"} |-> NoRoot]],
  orphanSchema |-> <<>>, \* schema extensions met before any schema definition: <<item, id>>
  orphans |-> <<>>,      \* type extensions met before their definition: <<item, id>> in arrival order
  errors  |-> <<>>,      \* <<kind, name>> in the order they are reported
  n       |-> 0          \* number of items added so far (the next extension id is n + 1)
]

IndexOfType(st, name) ==
  IF \E k \in 1..Len(st.types) : st.types[k].name = name
  THEN CHOOSE k \in 1..Len(st.types) : st.types[k].name = name ELSE 0

Ids(comps) == [k \in 1..Len(comps) |-> comps[k][1]]
InSeq(x, s) == \E k \in 1..Len(s) : s[k] = x

RECURSIVE StickyExtend(_, _, _, _, _)
\* extend a "sticky" ordered set: a duplicate is an error and the first occurrence stays
\* returns <<comps, errors>>
StickyExtend(comps, ids, origin, errs, err) ==
  IF ids = <<>> THEN <<comps, errs>>
  ELSE IF InSeq(Head(ids), Ids(comps))
       THEN StickyExtend(comps, Tail(ids), origin, Append(errs, err), err)
       ELSE StickyExtend(Append(comps, <<Head(ids), origin>>), Tail(ids), origin, errs, err)

Tagged(ids, origin) == [k \in 1..Len(ids) |-> <<ids[k], origin>>]

\* apply one extension item (already known to be of the right kind) to a type record
ExtendType(t, it, origin, errs) ==
  LET i == StickyExtend(t.ifaces, it.ifaces, origin, errs, <<"DuplicateImplements", t.name>>)
      m == StickyExtend(t.mems, it.mems, origin, i[2], <<"DuplicateMember", t.name>>)
  IN <<[t EXCEPT !.dirs = t.dirs \o Tagged(it.dirs, origin), !.ifaces = i[1], !.mems = m[1]], m[2]>>

RECURSIVE ApplyOrphans(_, _, _)
\* orphans: sequence of <<item, id>> for this name, in arrival order.  INTENDED behaviour (C13): exactly as
\* if each had come after the definition - a kind mismatch is an error.
ApplyOrphans(t, orphans, errs) ==
  IF orphans = <<>> THEN <<t, errs>>
  ELSE LET o == Head(orphans) IN
       IF o[1].kind = t.kind
       THEN LET r == ExtendType(t, o[1], o[2], errs) IN ApplyOrphans(r[1], Tail(orphans), r[2])
       ELSE ApplyOrphans(t, Tail(orphans), Append(errs, <<"ExtensionKindMismatch", t.name>>))

SelectOrphans(orphans, name, keep) == SelectSeq(orphans, LAMBDA o : (o[1].name = name) = keep)

RECURSIVE AddRoots(_, _, _, _)
\* returns <<roots, errors>>
AddRoots(roots, pairs, origin, errs) ==
  IF pairs = <<>> THEN <<roots, errs>>
  ELSE LET op == Head(pairs)[1] ty == Head(pairs)[2] IN
       IF roots[op] = NoRoot
       THEN AddRoots([roots EXCEPT ![op] = <<ty, origin>>], Tail(pairs), origin, errs)
       ELSE AddRoots(roots, Tail(pairs), origin, Append(errs, <<"DuplicateRootOperation", op>>))

ExtendSchema(sc, it, origin, errs) ==
  LET r == AddRoots(sc.roots, it.mems, origin, errs) IN
    <<[sc EXCEPT !.dirs = sc.dirs \o Tagged(it.dirs, origin), !.roots = r[1]], r[2]>>

RECURSIVE ApplySchemaOrphans(_, _, _)
ApplySchemaOrphans(sc, orphans, errs) ==
  IF orphans = <<>> THEN <<sc, errs>>
  ELSE LET r == ExtendSchema(sc, Head(orphans)[1], Head(orphans)[2], errs) IN
       ApplySchemaOrphans(r[1], Tail(orphans), r[2])

(* ---- Add: one definition or extension ------------------------------------ *)
Add(st, it) ==
  LET id == st.n + 1
      s1 == [st EXCEPT !.n = id]
  IN
  IF it.kind = "directive" THEN
       IF it.name \in BuiltInDirectives /\ it.name \notin st.redefined
       THEN [s1 EXCEPT !.redefined = st.redefined \cup {it.name}]          \* built-ins may be redefined once
       ELSE IF InSeq(it.name, st.dirdefs) \/ it.name \in BuiltInDirectives
            THEN [s1 EXCEPT !.errors = Append(st.errors, <<"DirectiveDefinitionCollision", it.name>>)]
            ELSE [s1 EXCEPT !.dirdefs = Append(st.dirdefs, it.name)]
  ELSE IF it.kind = "schema" THEN
       IF it.tag = "def" THEN
            IF st.schema.found
            THEN [s1 EXCEPT !.errors = Append(st.errors, <<"SchemaDefinitionCollision", "">>)]
            ELSE LET r0 == AddRoots(st.schema.roots, it.mems, 0, st.errors)
                     sc0 == [found |-> TRUE, dirs |-> Tagged(it.dirs, 0), roots |-> r0[1]]
                     r == ApplySchemaOrphans(sc0, st.orphanSchema, r0[2])
                 IN [s1 EXCEPT !.schema = r[1], !.errors = r[2], !.orphanSchema = <<>>]
       ELSE IF st.schema.found
            THEN LET r == ExtendSchema(st.schema, it, id, st.errors) IN [s1 EXCEPT !.schema = r[1], !.errors = r[2]]
            ELSE [s1 EXCEPT !.orphanSchema = Append(st.orphanSchema, <<it, id>>)]
  ELSE LET k == IndexOfType(st, it.name) IN
       IF it.tag = "def" THEN
            IF k # 0 THEN [s1 EXCEPT !.errors = Append(st.errors, <<"TypeDefinitionCollision", it.name>>)]
            ELSE LET i0 == StickyExtend(<<>>, it.ifaces, 0, st.errors, <<"DuplicateImplements", it.name>>)
                     m0 == StickyExtend(<<>>, it.mems, 0, i0[2], <<"DuplicateMember", it.name>>)
                     t0 == [name |-> it.name, kind |-> it.kind, dirs |-> Tagged(it.dirs, 0), ifaces |-> i0[1], mems |-> m0[1]]
                     r == ApplyOrphans(t0, SelectOrphans(st.orphans, it.name, TRUE), m0[2])
                 IN [s1 EXCEPT !.types = Append(st.types, r[1]), !.errors = r[2],
                               !.orphans = SelectOrphans(st.orphans, it.name, FALSE)]
       ELSE IF k = 0 THEN [s1 EXCEPT !.orphans = Append(st.orphans, <<it, id>>)]
            ELSE IF st.types[k].kind # it.kind
                 THEN [s1 EXCEPT !.errors = Append(st.errors, <<"ExtensionKindMismatch", it.name>>)]
                 ELSE LET r == ExtendType(st.types[k], it, id, st.errors) IN
                      [s1 EXCEPT !.types = [st.types EXCEPT ![k] = r[1]], !.errors = r[2]]

RECURSIVE AddAll(_, _)
AddAll(st, items) == IF items = <<>> THEN st ELSE AddAll(Add(st, Head(items)), Tail(items))

(* ---- Build --------------------------------------------------------------- *)
IsObject(st, name) == LET k == IndexOfType(st, name) IN k # 0 /\ st.types[k].kind = "object"

Build(st) ==
  LET orphanErrs == [k \in 1..Len(st.orphans) |-> <<"OrphanTypeExtension", st.orphans[k][1].name>>]
      e1 == st.errors \o orphanErrs
  IN IF st.schema.found THEN [st EXCEPT !.errors = e1, !.orphans = <<>>]
     ELSE LET implicit == [o \in {"query", "mutation", "subscription"} |->
                             IF IsObject(st, DefaultRoot(o)) THEN <<DefaultRoot(o), 0>> ELSE NoRoot]
              any == \E o \in {"query", "mutation", "subscription"} : implicit[o] # NoRoot
          IN IF any
             THEN LET r == ApplySchemaOrphans([st.schema EXCEPT !.roots = implicit], st.orphanSchema, e1)
                  IN [st EXCEPT !.schema = r[1], !.errors = r[2], !.orphans = <<>>, !.orphanSchema = <<>>]
             ELSE [st EXCEPT !.errors = e1 \o [k \in 1..Len(st.orphanSchema) |-> <<"OrphanSchemaExtension", "">>],
                             !.orphans = <<>>, !.orphanSchema = <<>>]

BuildSeq(items) == Build(AddAll(EmptyState, items))

(* ---- observable orders --------------------------------------------------- *)
TypeOrder(t) == [name |-> t.name, kind |-> t.kind, dirs |-> Ids(t.dirs), ifaces |-> Ids(t.ifaces), mems |-> Ids(t.mems)]
RootName(r) == IF r = NoRoot THEN "" ELSE r[1]
Order(st) == [types |-> [k \in 1..Len(st.types) |-> TypeOrder(st.types[k])],
              dirdefs |-> SelectSeq(<<"skip", "include", "deprecated", "specifiedBy">>, LAMBDA b : b \in st.redefined) \o st.dirdefs,
              schemaDirs |-> Ids(st.schema.dirs),
              roots |-> <<RootName(st.schema.roots["query"]), RootName(st.schema.roots["mutation"]),
                          RootName(st.schema.roots["subscription"])>>]

(* ---- ToAst: the serializer's view ---------------------------------------- *)
RECURSIVE Dedup(_, _)
Dedup(s, acc) == IF s = <<>> THEN acc
                 ELSE Dedup(Tail(s), IF InSeq(Head(s), acc) THEN acc ELSE Append(acc, Head(s)))
Origins(comps) == [k \in 1..Len(comps) |-> comps[k][2]]
ExtOrigins(os) == SelectSeq(os, LAMBDA o : o # 0)
Of(comps, origin) == Ids(SelectSeq(comps, LAMBDA c : c[2] = origin))

\* extension ids of a type in DISCOVERY order (iter_origins: directives, interfaces, members)
DiscoveryOrder(t) == Dedup(ExtOrigins(Origins(t.dirs) \o Origins(t.ifaces) \o Origins(t.mems)), <<>>)
\* ... and in HISTORY order (increasing id)
RECURSIVE SortAsc(_)
SortAsc(s) == IF s = <<>> THEN <<>>
              ELSE LET m == CHOOSE x \in {s[k] : k \in 1..Len(s)} : \A y \in {s[k] : k \in 1..Len(s)} : x <= y
                   IN <<m>> \o SortAsc(SelectSeq(s, LAMBDA x : x # m))
HistoryOrder(t) == SortAsc(DiscoveryOrder(t))

TypeToAst(t, extOrder) ==
  <<[tag |-> "def", kind |-> t.kind, name |-> t.name, dirs |-> Of(t.dirs, 0), ifaces |-> Of(t.ifaces, 0), mems |-> Of(t.mems, 0)]>>
  \o [k \in 1..Len(extOrder) |->
        [tag |-> "ext", kind |-> t.kind, name |-> t.name, dirs |-> Of(t.dirs, extOrder[k]),
         ifaces |-> Of(t.ifaces, extOrder[k]), mems |-> Of(t.mems, extOrder[k])]]

RootPairs(roots, origin) ==
  LET ops == SelectSeq(Ops, LAMBDA o : roots[o] # NoRoot /\ roots[o][2] = origin)
  IN [k \in 1..Len(ops) |-> <<ops[k], roots[ops[k]][1]>>]
RootOrigins(roots) == LET ops == SelectSeq(Ops, LAMBDA o : roots[o] # NoRoot) IN [k \in 1..Len(ops) |-> roots[ops[k]][2]]

\* the schema definition is left implicit when it says nothing more than the default root type names
SchemaImplicit(st) ==
  LET sc == st.schema IN
    /\ sc.dirs = <<>>
    /\ \A o \in {"query", "mutation", "subscription"} :
         (sc.roots[o] = NoRoot /\ ~IsObject(st, DefaultRoot(o)))
         \/ (sc.roots[o] # NoRoot /\ sc.roots[o][2] = 0 /\ sc.roots[o][1] = DefaultRoot(o) /\ IsObject(st, DefaultRoot(o)))
    /\ \E o \in {"query", "mutation", "subscription"} : sc.roots[o] # NoRoot

SchemaToAst(st, byHistory) ==
  LET sc == st.schema
      disc == Dedup(ExtOrigins(Origins(sc.dirs) \o RootOrigins(sc.roots)), <<>>)
      exts == IF byHistory THEN SortAsc(disc) ELSE disc
      allInExtensions == RootPairs(sc.roots, 0) = <<>>
      implicit == allInExtensions \/ SchemaImplicit(st)
  IN (IF implicit THEN <<>>
      ELSE <<[tag |-> "def", kind |-> "schema", name |-> "", dirs |-> Of(sc.dirs, 0), ifaces |-> <<>>, mems |-> RootPairs(sc.roots, 0)]>>)
     \o [k \in 1..Len(exts) |->
           [tag |-> "ext", kind |-> "schema", name |-> "", dirs |-> Of(sc.dirs, exts[k]), ifaces |-> <<>>,
            mems |-> RootPairs(sc.roots, exts[k])]]

RECURSIVE Concat(_)
Concat(ss) == IF ss = <<>> THEN <<>> ELSE Head(ss) \o Concat(Tail(ss))

\* byHistory = FALSE: what the code does (extensions in discovery order);  TRUE: extensions in their original order
ToAst(st, byHistory) ==
  SchemaToAst(st, byHistory)
  \o (LET dd == SelectSeq(<<"skip", "include", "deprecated", "specifiedBy">>, LAMBDA b : b \in st.redefined) \o st.dirdefs
      IN [k \in 1..Len(dd) |-> [tag |-> "def", kind |-> "directive", name |-> dd[k], dirs |-> <<>>, ifaces |-> <<>>, mems |-> <<>>]])
  \o Concat([k \in 1..Len(st.types) |->
               TypeToAst(st.types[k], IF byHistory THEN HistoryOrder(st.types[k]) ELSE DiscoveryOrder(st.types[k]))])

(* ---- properties ----------------------------------------------------------- *)
\* C12: a schema built without errors round-trips with the same orders
RoundTripBy(items, byHistory) ==
  LET s == BuildSeq(items) IN
    s.errors = <<>> =>
      LET s2 == BuildSeq(ToAst(s, byHistory)) IN s2.errors = <<>> /\ Order(s2) = Order(s)

\* C13: moving an extension before its definition changes neither the schema nor the errors
ErrBag(errs) == [e \in {errs[k] : k \in 1..Len(errs)} |-> Cardinality({k \in 1..Len(errs) : errs[k] = e})]
SameOutcome(a, b) == Order(a) = Order(b) /\ ErrBag(a.errors) = ErrBag(b.errors)
=============================================================================
