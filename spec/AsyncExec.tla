------------------------------ MODULE AsyncExec ------------------------------
(***************************************************************************)
(* Asynchronous execution (resolvers/mod.rs execute_async; the same        *)
(* `async fn`s as the synchronous path) — C27.  The executor is ONE task    *)
(* whose control is a sequence of awaits on resolver futures and list-item  *)
(* streams, in the order Execution.tla calls resolvers.  A future k returns *)
(* Pending `pending[k]` times before it is ready; when it returns Pending   *)
(* it must have registered the task's waker, and the task is polled again   *)
(* only after that waker is invoked.                                       *)
(***************************************************************************)
EXTENDS Naturals, Sequences, FiniteSets

CONSTANTS K,      \* number of futures the request awaits, in await order 1..K
          P       \* maximum number of Pending results per future

VARIABLES pending,   \* remaining Pending results per future
          pc,        \* index of the future being awaited (K + 1 = finished)
          state,     \* task: "runnable" | "suspended" | "done"
          waker,     \* the future that holds the task's waker (0 = none)
          log        \* observable: the order in which futures were created (resolver calls) and became ready
avars == <<pending, pc, state, waker, log>>

AInit(p) == pending = p /\ pc = 1 /\ state = "runnable" /\ waker = 0 /\ log = <<>>

\* the task is polled: it runs until the awaited future is pending or everything is done
Poll ==
  /\ state = "runnable"
  /\ IF pc > K THEN /\ state' = "done" /\ UNCHANGED <<pending, pc, waker, log>>
     ELSE IF pending[pc] > 0
          THEN /\ pending' = [pending EXCEPT ![pc] = pending[pc] - 1]
               /\ waker' = pc /\ state' = "suspended"
               /\ log' = IF <<"call", pc>> \in {log[i] : i \in 1..Len(log)} THEN log ELSE Append(log, <<"call", pc>>)
               /\ UNCHANGED pc
          ELSE /\ log' = (IF <<"call", pc>> \in {log[i] : i \in 1..Len(log)} THEN log ELSE Append(log, <<"call", pc>>)) \o <<<<"ready", pc>>>>
               /\ pc' = pc + 1 /\ UNCHANGED <<pending, state, waker>>
\* the future that returned Pending invokes the waker it was given
Wake ==
  /\ state = "suspended" /\ waker # 0
  /\ state' = "runnable" /\ waker' = 0 /\ UNCHANGED <<pending, pc, log>>
ANext == Poll \/ Wake

\* ---- properties -----------------------------------------------------------------
NoLostWakeup == state = "suspended" => waker # 0             \* a suspended task can always be woken
\* strictly sequential: future k+1 is created only after future k is ready (in particular mutation root fields)
Sequential == \A i \in 1..Len(log) : log[i][1] = "call" =>
                 \A j \in 1..(log[i][2] - 1) : \E m \in 1..(i - 1) : log[m] = <<"ready", j>>
\* the observable log does not depend on the pending counts: when done it is exactly call 1, ready 1, call 2, ...
FinalLog == [i \in 1..(2 * K) |-> IF i % 2 = 1 THEN <<"call", (i + 1) \div 2>> ELSE <<"ready", i \div 2>>]
ScheduleIndependent == state = "done" => log = FinalLog
=============================================================================
