SPECIFICATION Spec
INVARIANT Inv
CHECK_DEADLOCK FALSE
CONSTANTS
  MaxLen = 4
  Prefix <- PEnum
  Suffix <- SBrace
  Alphabet = {"n1", "true", "null", "@", "str", "(", ")", ":", "int", "}"}
