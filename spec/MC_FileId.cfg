SPECIFICATION Spec
INVARIANT Inv
CHECK_DEADLOCK FALSE
CONSTANTS
  W = 4
  Threads = {1, 2, 3}
  Allocs = 2
  Broken = FALSE
