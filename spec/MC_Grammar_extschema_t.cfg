SPECIFICATION Spec
INVARIANT Inv
CHECK_DEADLOCK FALSE
CONSTANTS
  MaxLen = 6
  Prefix <- PExtSchema
  Suffix <- PNone
  Alphabet = {"@", "n1", "{", "}", "query", ":", "mutation", "(", ")", "int"}
