SPECIFICATION Spec
INVARIANT Inv
CHECK_DEADLOCK FALSE
CONSTANTS
  MaxNest = 4
  MaxLimit = 4
  MaxOps = 11
