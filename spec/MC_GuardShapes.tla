--------------------------- MODULE MC_GuardShapes ---------------------------
(* Shape descriptors for C21: (family, length) around every internal limit,    *)
(* with what the guards model prescribes: a structure far above the limit      *)
(* must produce a recursion-limit diagnostic, one well below must not;         *)
(* in between either is accepted (the exact boundary is not part of the        *)
(* property).  The harness expands each descriptor to text.                    *)
EXTENDS Naturals, Sequences, TLC, Json
CONSTANT Deep       \* TRUE: also the 50 x limit lengths

LimitOf == [frag_nested |-> 100, frag_flat |-> 100, frag_cycle |-> 100, frag_cycle_subscription |-> 100,
            directive_chain |-> 32, directive_cycle_enum |-> 32, directive_cycle_input |-> 32,
            input_chain |-> 32, input_cycle_nonnull |-> 32, input_cycle_nullable |-> 0,
            interface_chain |-> 0, interface_cycle |-> 0, union_members |-> 0,
            \* lassos: a tail of two definitions leading into a cycle that does not come back to the start
            \* (the walk meets a name that is on its path but is not its root)
            input_lasso_nonnull |-> 0, interface_lasso |-> 0, directive_lasso_input |-> 0, frag_lasso |-> 0,
            deep_selection |-> 128, deep_list_value |-> 500, deep_object_value |-> 500, deep_type |-> 500,
            deep_variable_default |-> 500]
Families == DOMAIN LimitOf

Lengths(lim) == IF lim = 0 THEN {1, 2, 3, 4, 33, 101}
                ELSE {1, 2, 3, lim \div 2, lim - 2, lim - 1, lim, lim + 1, lim + 2, 4 * lim}
                     \cup (IF Deep THEN {50 * lim} ELSE {})
Expect(L, lim) == IF lim = 0 THEN "either" ELSE IF L >= 4 * lim THEN "limit" ELSE IF 2 * L <= lim THEN "nolimit" ELSE "either"

VARIABLE c
Init == \E f \in Families : \E L \in Lengths(LimitOf[f]) : c = <<"SHAPE", f, L, Expect(L, LimitOf[f])>>
Next == UNCHANGED c
Spec == Init /\ [][Next]_c
Inv == PrintT(ToJson(c))
=============================================================================
