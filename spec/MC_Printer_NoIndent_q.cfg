SPECIFICATION PSpec
CONSTANTS
  Cfg <- CfgNoIndent
  MaxItems = 4
INVARIANT LevelIsDepth
INVARIANT EngineOutputAccepted
CHECK_DEADLOCK FALSE
