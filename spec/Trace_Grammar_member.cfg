SPECIFICATION SpecMember
INVARIANT Report
CHECK_DEADLOCK FALSE
