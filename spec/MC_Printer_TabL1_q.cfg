SPECIFICATION PSpec
CONSTANTS
  Cfg <- CfgTabL1
  MaxItems = 4
INVARIANT LevelIsDepth
INVARIANT EngineOutputAccepted
CHECK_DEADLOCK FALSE
