SPECIFICATION Spec
INVARIANT Inv
CHECK_DEADLOCK FALSE
CONSTANTS
  MaxLen = 5
  Prefix <- PDirective
  Suffix <- PNone
  Alphabet = {"on", "|", "FIELD", "OBJECT", "repeatable", "(", ")", "n1", ":", "str", "@"}
