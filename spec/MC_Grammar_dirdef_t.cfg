SPECIFICATION Spec
INVARIANT Inv
CHECK_DEADLOCK FALSE
CONSTANTS
  MaxLen = 6
  Prefix <- PDirective
  Suffix <- PNone
  Alphabet = {"on", "|", "FIELD", "OBJECT", "repeatable", "(", ")", "n1", ":", "str", "@"}
