SPECIFICATION Spec
INVARIANT Inv
CHECK_DEADLOCK FALSE
CONSTANTS
  MaxLen = 4
  Prefix <- PTypeDirArg
  Suffix <- STypeDirArg
  Alphabet = {"n1", ":", "$", "int", "[", "]", "{", "}", "str"}
