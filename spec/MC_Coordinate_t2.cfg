SPECIFICATION Spec
INVARIANT Inv
CHECK_DEADLOCK FALSE
CONSTANTS
  MaxLen = 6
  Alphabet = {97, 66, 49, 95, 46, 64, 40, 41, 58, 233, 32}
