------------------------- MODULE Trace_Introspection -------------------------
(* C24: recorded responses of introspection::partial_execute for the full     *)
(* introspection query over generated schemas; TLC computes the reference      *)
(* (Introspection.tla) from the abstract schema and names every disagreement.  *)
EXTENDS Naturals, Sequences, FiniteSets, TLC, Json, IOUtils
Rec == ndJsonDeserialize(IOEnv.TRACE)
VARIABLES l, bad
vars == <<l, bad>>
I(s, inc) == INSTANCE Introspection WITH S <- s, Inc <- inc
\* every element is <<tag, tuple of strings>> (TLC cannot hold strings and tuples, or tuples of different shapes of
\* element, in one set: it raises an evaluation error instead of answering FALSE)
Fails(r) ==
  IF r.crash THEN {<<"C24", <<"crash", "-">>>>}
  ELSE (IF r.errors = 0 /\ r.dataKeys = <<"__schema">> THEN {} ELSE {<<"C24", <<"errors-or-concrete-field-not-skipped", "-">>>>})
       \cup (IF ~r.hasData THEN {<<"C24", <<"no-data", "-">>>>}
             ELSE {<<"C24", p>> : p \in I(r.schema, TRUE)!Problems(r.resp)}
                  \* the same query without includeDeprecated (default false): deprecated entries are filtered out
                  \cup {<<"C24-nodep", p>> : p \in I(r.schema, FALSE)!Problems(r.respNoDep)})
Init == l = 1 /\ bad = {}
Next == /\ l <= Len(Rec) /\ l' = l + 1
        /\ bad' = IF Fails(Rec[l]) = {} THEN bad ELSE bad \cup {<<l, Fails(Rec[l])>>}
Spec == Init /\ [][Next]_vars
Report == (l = Len(Rec) + 1) => PrintT(ToJson(<<"RESULT", l - 1, bad>>))
=============================================================================
