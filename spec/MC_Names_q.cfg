SPECIFICATION Spec
INVARIANT Inv
CHECK_DEADLOCK FALSE
CONSTANTS
  MaxLen = 4
  TypeDepth = 3
  Alphabet = {65, 49, 48, 95, 45, 46, 101, 43, 32, 233, 69}
  Prefix <- PfxNone
